"""C12 Only well-formed messages reach the application; sent ones are well-formed."""
import re
from engine import flow as fl, ru, paths as pa, expr, tables, dispatch as dp

EXPLANATION = (
    "Literal tables (HIR), path tables and must-pass-through rules over h3::proto::headers and its callers: (a) "
    "Field::parse rejects an empty name before indexing it, sends every non-pseudo name through "
    "HeaderName::from_lowercase (not from_bytes, which would fold case) and its value through HeaderValue::from_bytes, "
    "maps exactly the six defined pseudo names to their typed validators and rejects any other ':' name; every Ok return "
    "lies on its validator's success edge; Protocol's two string tables agree; (b) into_request_parts refuses a "
    "missing authority (:authority and Host both absent), a contradiction (the full :authority string compared with the "
    "Host value), a missing :method, and builds the URI through Uri::builder().build(); into_response_parts refuses a "
    "missing :status; the application-visible Ok of resolve / recv_response / poll_recv_trailers is reached only through "
    "Header::try_from and the role's into_*_parts; (c) refusals are stream-level H3_MESSAGE_ERROR (shared with C07-a); "
    "(d) on the send side HeaderIter yields every pseudo field (each taken out, at most once) before any regular field, "
    "Header::request validates authority/Host agreement before anything is sent, Pseudo::request/response populate only "
    "the role's pseudo fields from the caller's values and replace the caller's path only when it is empty. The http "
    "crate's validators are trusted.")
# every anchor of these rules lives in the h3 crate: thorough tier repeats them on the feature-less build
EXTRA_CONFIGS = ["h3-plain"]
RULES = "C12-a field gate (A11/A2); C12-b message gates, Field::parse gets the decoded line's own name and value (A3/A2/A4); C12-c refusal class (A3); C12-d sending order and values, CONNECT pseudo-header table (A2/A4/A3); shared through a proxy: the malformed-message rows of C07-a under C12-c"

H = "h3::proto::headers::"


def slot_state(p, slot):
    """'Some' / 'None' / None: what path p established about the pseudo slot, whether it was examined by `.ok_or(E)?`,
    `.ok_or_else(..)?` or an explicit match / if let."""
    out = None
    for t in p.tests:
        v, flip = t[3], False
        if v[0] != "discr":
            continue
        v = v[1]
        while v[0] == "call" and pa.short(v[1]) in pa.ADAPTER_NAMES and v[2]:
            if pa.short(v[1]) in ("ok_or", "ok_or_else"):
                flip = True
            v = v[2][0]
        if pa.vfmt(v) == "param_1.pseudo." + slot:
            lab = {"Continue": "Ok", "Break": "Err"}.get(t[2], t[2])
            out = {"Ok": "Some", "Err": "None"}.get(lab, lab) if flip else lab
    return out


def pseudo_name_table(ctx, rule, fp):
    """({name bytes: Field variant}, wildcard refuses?) of Field::parse - from the literal `match` (HIR) when the function has one,
    else from its paths (`if name == b":scheme" {..} else if ..`: the literal whose comparison was true on the path to Field::X,
    and the path on which every comparison was false)."""
    prog = ctx.prog
    ms = [m for m in tables.match_tables(prog, fp.key) if any(isinstance(pat, bytes) for pat, _, _ in m)]
    got, wild_ok, ok = {}, False, len(ms) == 1
    if ok:
        for pat, guard, body in ms[0]:
            if pat == "_":
                wild_ok = body is not None and body[0] == "ret" and "Err" in str(body) and "invalid_name" in str(body)
            elif isinstance(pat, bytes) and body[0] == "call" and not guard:
                got[pat] = body[1].rsplit("::", 1)[-1]
            else:
                ok = False
        return got, wild_ok, ok
    if ms:
        return got, wild_ok, False
    ps = [p for p in ru.all_paths(ctx, rule, fp) if p.end == "return"]
    ok = True
    for p in ps:
        cmp_ = [(tables.parse_bytes_literal(pa.vfmt(a)), t[2]) for t in p.tests if t[3][0] == "call" and pa.short(t[3][1]) in ("eq", "ne") and len(t[3][2]) == 2
                for a in t[3][2] if pa.vfmt(a).startswith('b"')]
        cmp_ = [(b_, lab) for b_, lab in cmp_ if b_ is not None and b_.startswith(b":")]
        hit = [b_ for b_, lab in cmp_ if lab == "true"]
        sh = p.ret_shape()
        m_ = re.match(r"Ok\(Field::(\w+)\)$", sh)
        if m_ and m_.group(1) != "Header":
            if len(hit) != 1:
                ok = False
            else:
                got[hit[0]] = m_.group(1)
        elif len(cmp_) >= 6 and not hit and (sh.startswith("Err(") or sh.startswith("Residual(")) and "invalid_name" in pa.vfmt(p.ret):
            wild_ok = True
    return got, wild_ok, ok


def run(ctx):
    prog = ctx.prog
    # the codes this property names are the registry values (the rules below speak of them by name)
    from rules import shared as _shc
    _shc.error_code_values(ctx, "C12-c", ("H3_MESSAGE_ERROR",))
    # ------------------------------------------------------------------ C12-a
    fp = ru.need(ctx, "C12-a", H + "Field::parse")
    if fp:
        want = {b":scheme": "Scheme", b":authority": "Authority", b":path": "Path", b":method": "Method", b":status": "Status", b":protocol": "Protocol"}
        got, wild_ok, ok = pseudo_name_table(ctx, "C12-a", fp)
        ctx.check(ok and got == want, "C12-a", fp.key, "pseudo-header table = the six defined names",
                  "Field::parse maps pseudo names %s; RFC 9114 4.3 / RFC 9220 define exactly %s" % (got, want), str(sorted(got)))
        ctx.check(wild_ok, "C12-a", fp.key, "any other ':' name is rejected", "no refusing wildcard arm / final else for unknown pseudo-header names", "")
        ps = [p for p in ru.all_paths(ctx, "C12-a", fp) if p.end == "return"]
        validators = {"Scheme": ("try_value", "http::uri::scheme::Scheme"), "Authority": ("try_value", "http::uri::authority::Authority"),
                      "Path": ("try_value", "http::uri::path::PathAndQuery"), "Protocol": ("try_value", "h3::ext::Protocol"),
                      "Method": ("from_bytes", "http::method::Method::from_bytes"), "Status": ("from_bytes", "http::status::StatusCode::from_bytes")}
        seen = set()
        for p in ps:
            sh = p.ret_shape()
            # the emptiness test (is_empty() or a length comparison on the name) precedes everything
            from engine import panics
            nm = None
            for e in p.calls():
                if pa.short(e[2].ckey) == "as_ref" and e[3] and e[3][0] == ("param", 1, ()):
                    nm = ("call", e[2].ckey, e[3], e[1])
                    break
            cands = [t[3][2][0] for t in p.tests if t[3][0] == "call" and pa.short(t[3][1]) == "is_empty" and t[3][2]] + \
                    [x for t in p.tests for x in (panics._slice_of_len(a) for a in (expr.cmp_nf(t[3], t[2]) or (None, None, None))[::2] if a is not None) if x is not None]
            em = None
            for c in cands:
                em = panics.emptiness(p.tests, c, prog.consts)
                if em is not None:
                    break
            if sh == "Err(HeaderError::InvalidHeaderName)" and em is True:
                ctx.ok("C12-a", fp.key + ":empty name rejected", "")
                seen.add("empty")
                continue
            ctx.check(em is False, "C12-a", fp.key, "name inspected only after the emptiness test (%s)" % sh[:30],
                      "a path reads the field name without first establishing that it is not empty (an empty name would panic on name[0] "
                      "or be accepted)", "", None, p.describe())
            if sh.startswith("Ok(Field::"):
                var = sh[len("Ok(Field::"):-1]
                seen.add(var)
                if var == "Header":
                    okv = p.has_call("http::header::name::HeaderName::from_lowercase") and p.has_call("http::header::value::HeaderValue::from_bytes") \
                        and not p.has_call("http::header::name::HeaderName::from_bytes")
                    ctx.check(okv, "C12-a", fp.key, "regular field: from_lowercase(name) and HeaderValue::from_bytes(value)",
                              "a regular field is accepted through %s; names must go through HeaderName::from_lowercase (upper-case names are "
                              "malformed in HTTP/3, from_bytes would silently fold them) and values through HeaderValue::from_bytes"
                              % [pa.short(e[2].ckey) for e in p.calls() if "http::" in (e[2].ckey or "")], "", None, p.describe())
                    colon = [t for t in p.tests if expr.cmp_nf(t[3], t[2]) and expr.fold(expr.cmp_nf(t[3], t[2])[2]) == 58]
                    ctx.check(bool(colon) and expr.cmp_nf(colon[0][3], colon[0][2])[1] == "!=", "C12-a", fp.key, "regular field only when name[0] != ':'",
                              "regular-field path taken without name[0] != b':'", "")
                elif var in validators:
                    fn, key = validators[var]
                    cs = [e for e in p.calls() if pa.short(e[2].ckey) == fn]
                    okv = len(cs) == 1 and (key in (cs[0][2].gargs or "") or cs[0][2].ckey == key)
                    ctx.check(okv, "C12-a", fp.key, ":%s value parsed by its validator" % var.lower(),
                              "Field::%s is produced through %s" % (var, [(e[2].ckey, e[2].gargs) for e in cs]), "")
                else:
                    ctx.violation("C12-a", fp.key, "unknown Field variant " + var, "Field::%s has no audited validator" % var)
        ctx.check(seen >= {"empty", "Header", "Scheme", "Authority", "Path", "Method", "Status", "Protocol"}, "C12-a", fp.key, "all rows present",
                  "rows found: %s" % sorted(seen), str(sorted(seen)))
    tv = ru.need(ctx, "C12-a", H + "try_value")
    if tv:
        ps = [p for p in ru.all_paths(ctx, "C12-a", tv) if p.end == "return"]
        okp = [p for p in ps if not p.ret_shape().startswith("Residual") and not p.ret_shape().startswith("Err")]
        ok = bool(okp) and all(p.has_call("core::str::converts::from_utf8") and p.has_call("core::str::traits::FromStr::from_str", "::from_str") for p in okp)
        ctx.check(ok, "C12-a", tv.key, "value = from_utf8 then FromStr", "try_value paths: %s" % [p.ret_shape() for p in ps], "")
    a = tables.match_tables(prog, "h3::ext::Protocol::as_str")
    f_ = tables.match_tables(prog, "<h3::ext::Protocol as core::str::traits::FromStr>::from_str")
    if len(a) == 1 and len(f_) == 1:
        fwd = {pat[1].rsplit("::", 1)[-1]: body for pat, g, body in a[0] if isinstance(pat, tuple)}
        inv = {str(body).split("ProtocolInner::")[-1].split("'")[0]: pat for pat, g, body in f_[0] if pat != "_"}
        ctx.check(fwd == inv and len(fwd) >= 4, "C12-a", "h3::ext::Protocol", ":protocol tokens: as_str and from_str agree",
                  "Protocol::as_str %s and from_str %s disagree" % (fwd, inv), str(fwd))
    else:
        ctx.missing("C12-a", "h3::ext::Protocol string tables")

    # ------------------------------------------------------------------ C12-b
    rq = ru.need(ctx, "C12-b", H + "Header::into_request_parts")
    if rq:
        ps = [p for p in ru.all_paths(ctx, "C12-b", rq) if p.end == "return"]

        def st(p):
            a_ = [t[2] for t in p.tests if t[3][0] == "discr" and pa.vfmt(t[3][1]) == "param_1.pseudo.authority"]
            h_ = [t[2] for t in p.tests if t[3][0] == "discr" and pa.head_call(t[3])[0] and pa.head_call(t[3])[0].endswith("HeaderMap::get")]
            ne = [t for t in p.tests if t[3][0] == "call" and pa.short(t[3][1]) in ("ne", "eq")]
            return (a_[0] if a_ else None, h_[0] if h_ else None, ne)
        n = 0
        for p in ps:
            a_, h_, ne = st(p)
            sh = p.ret_shape()
            n += 1
            if (a_, h_) == ("None", "None"):
                ctx.check(sh == "Err(HeaderError::MissingAuthority)", "C12-b", rq.key, "no :authority and no Host -> MissingAuthority",
                          "a request without :authority and Host leads to %s" % sh, "", None, p.describe())
            elif (a_, h_) == ("Some", "Some"):
                ok = len(ne) == 1
                differ = None
                if ok:
                    t = ne[0]
                    args = t[3][2]
                    ok = args[0][0] == "call" and args[0][1] == "http::uri::authority::Authority::as_str" and "pseudo.authority" in pa.vfmt(args[0]) and \
                        pa.head_call(args[1])[0] is not None and pa.head_call(args[1])[0].endswith("HeaderMap::get")
                    differ = (t[2] == "true") == (pa.short(t[3][1]) == "ne")
                ctx.check(ok, "C12-b", rq.key, ":authority (whole string) compared with Host",
                          "when both :authority and Host are present the comparison is %s; the full authority string must be compared with the "
                          "Host value (identical when both are present)" % [pa.vfmt(t[3])[:120] for t in ne], "", None, p.describe())
                if ok and differ:
                    ctx.check(sh == "Err(HeaderError::ContradictedAuthority)", "C12-b", rq.key, "different :authority and Host -> ContradictedAuthority",
                              "contradictory :authority/Host leads to %s" % sh, "", None, p.describe())
            if sh.startswith("Ok("):
                ok = slot_state(p, "method") == "Some" and p.has_call("http::uri::builder::Builder::build") and (a_, h_) != ("None", "None")
                ok = ok and any(slot_state(q, "method") == "None" and "MissingMethod" in pa.vfmt(q.ret) and not q.ret_shape().startswith("Ok(") for q in ps)
                au = [e for e in p.calls("http::uri::builder::Builder::authority")]
                ok = ok and len(au) == 1
                ctx.check(ok, "C12-b", rq.key, "Ok only with :method (ok_or MissingMethod), an authority and Uri::builder().build()",
                          "an Ok path of into_request_parts lacks one of: method.ok_or(MissingMethod), builder.authority(..), build()", "", None, p.describe())
        ctx.floor("C12-b", "paths of into_request_parts", n, 12)
        both = [p for p in ps if st(p)[:2] == ("Some", "Some")]
        ctx.floor("C12-b", "paths with both :authority and Host", len(both), 2)
        ctx.floor("C12-b", "paths with neither :authority nor Host", len([p for p in ps if st(p)[:2] == ("None", "None")]), 1)
    rp = ru.need(ctx, "C12-b", H + "Header::into_response_parts")
    if rp:
        ps = [p for p in ru.all_paths(ctx, "C12-b", rp) if p.end == "return"]
        okp = [p for p in ps if p.ret_shape().startswith("Ok(")]
        ok = bool(okp) and all(slot_state(p, "status") == "Some" for p in okp) and \
            any(slot_state(q, "status") == "None" and "MissingStatus" in pa.vfmt(q.ret) and not q.ret_shape().startswith("Ok(") for q in ps)
        ctx.check(ok, "C12-b", rp.key, "Ok only with :status (ok_or MissingStatus)", "into_response_parts paths: %s" % [p.ret_shape() for p in ps], "")
    # must-pass-through at the three receive sites
    sites = [("h3::server::request::ResolvedRequest::resolve::{closure#0}", "into_request_parts", "Ok("),
             ("h3::client::stream::RequestStream::recv_response::{closure#0}", "into_response_parts", "Ok("),
             ("h3::connection::RequestStream::poll_recv_trailers", "into_fields", "Ready(Ok(Some(")]
    for key, gate, okshape in sites:
        b = ru.need(ctx, "C12-b", key)
        if not b:
            continue
        okp = [p for p in ru.all_paths(ctx, "C12-b", b, max_visits=1) if p.end == "return" and p.ret_shape().startswith(okshape)]
        ctx.floor("C12-b", "Ok paths of " + key.split("::")[-2 if "{" in key else -1], len(okp), 1)
        for p in okp:
            ok = p.has_call("<h3::proto::headers::Header as core::convert::TryFrom<alloc::vec::Vec<h3::qpack::field::HeaderField>>>::try_from") and \
                p.has_call(H + "Header::" + gate) and (p.has_call("h3::qpack::decoder::decode_stateless") or "resolve" in key)
            ctx.check(ok, "C12-b", key, "message handed over only through Header::try_from + %s" % gate,
                      "an Ok path hands a message to the application without passing Header::try_from and %s" % gate, "", None, p.describe())
    tf = ru.need(ctx, "C12-b", "<h3::proto::headers::Header as core::convert::TryFrom<alloc::vec::Vec<h3::qpack::field::HeaderField>>>::try_from")
    if tf:
        heads = tf.loop_heads()
        ex = pa.Explorer(prog, tf, max_visits=1)
        n = 0
        for h in heads:
            for p in ex.paths(start=h, stop_at=heads):
                if p.end != "stop":
                    continue
                n += 1
                ctx.check(p.has_call(H + "Field::parse") and "Continue" in [lab for _, lab, _ in p.variant_tests("Try>::branch")], "C12-b", tf.key,
                          "every field kept went through Field::parse", "a field is kept without a successful Field::parse", "", None, p.describe())
        ctx.floor("C12-b", "field-keeping iterations of Header::try_from", n, 7)
        # what is validated is what the peer sent: Field::parse gets the decoded line's own name and value (a value that is trimmed,
        # lower-cased or otherwise rewritten first is not the one the gate is about - CR/LF at its ends would pass)
        npv = 0
        for h in heads:
            for p in ex.paths(start=h, stop_at=heads):
                for e in p.calls(H + "Field::parse"):
                    npv += 1
                    a0, a1 = (e[3] + (None, None))[:2]
                    def own(v, idx):
                        return v is not None and v[0] == "proj" and tuple(n_.lstrip(".") for n_ in v[2]) == (idx,) and v[1][0] == "call" and \
                            v[1][1].endswith("HeaderField::into_inner")
                    ctx.check(own(a0, "0") and own(a1, "1"), "C12-b", tf.key, "Field::parse is given the decoded line's own name and value",
                              "Header::try_from calls Field::parse(%s, %s): the validated bytes are not the ones the peer sent" % (pa.vfmt(a0)[:70], pa.vfmt(a1)[:70]),
                              "", None, p.describe())
        ctx.floor("C12-b", "Field::parse calls in Header::try_from", npv, 1)

    # ------------------------------------------------------------------ C12-d sending
    it = ru.need(ctx, "C12-d", "<h3::proto::headers::HeaderIter as core::iter::traits::iterator::Iterator>::next")
    if it:
        ps = [p for p in ru.all_paths(ctx, "C12-d", it, max_visits=1) if p.end in ("return", "loop-cut")]
        names = {"method": ":method", "scheme": ":scheme", "authority": ":authority", "path": ":path", "status": ":status", "protocol": ":protocol"}
        order = []
        for p in ps:
            takes = [(pa.vfmt(e[3][0]), e) for e in p.calls("core::option::Option::take")]
            fields_loop = p.has_call("core::iter::traits::iterator::Iterator::next", "::next") and any("fields" in pa.vfmt(e[3][0]) for e in p.calls("::next", "by_ref"))
            taken = [t[2] for t in p.tests if t[3][0] == "discr" and pa.head_call(t[3])[0] == "core::option::Option::take"]
            if fields_loop:
                # reaching the regular fields: either no pseudo block, or every pseudo take() answered None
                pseudo_state = [t[2] for t in p.tests if t[3][0] == "discr" and pa.vfmt(t[3][1]).endswith("param_1.pseudo")]
                ok = (pseudo_state and pseudo_state[0] == "None") or (len(takes) == 6 and all(x == "None" for x in taken))
                ctx.check(ok, "C12-d", it.key, "regular fields only after every pseudo field was yielded",
                          "a path reaches the regular-field loop while a pseudo-header field may still be pending (pseudo takes: %d, results %s): "
                          "a pseudo field could follow a regular field" % (len(takes), taken), "", None, p.describe())
                clr = [e for e in p.stores() if pa.vfmt(e[4]).endswith("param_1.pseudo") and e[3][0] == "agg" and e[3][2] == "None"]
                ctx.check(bool(clr), "C12-d", it.key, "pseudo block dropped before the regular fields", "self.pseudo is not cleared before yielding regular fields", "")
            elif p.end == "return" and taken and taken[-1] == "Some":
                # which pseudo was yielded and under which name
                fld = takes[len(taken) - 1][0].rsplit(".", 1)[-1]
                lit = [pa.vfmt(x) for e in p.calls() for x in e[3] if x[0] == "agg" and x[1] == "tuple"]
                txt = pa.vfmt(p.ret)
                nm = names.get(fld)
                ok = nm is not None and ('"%s"' % nm) in txt
                # the value is the slot's own text - as_str(), possibly as bytes - and nothing derived from it (not `.host()`, not a prefix)
                mval = re.search(r'tuple\("%s", (.*)\)\)\)$' % re.escape(nm or "?"), txt)
                if ok and mval:
                    v_ = mval.group(1)
                    v_ = re.sub(r"^as_bytes@bb\d+\((.*)\)$", r"\1", v_)
                    ok = re.fullmatch(r"as_str@bb\d+\(take@bb\d+\(param_1\.pseudo<Some>\.0\.%s\)<Some>\.0\)" % fld, v_) is not None
                elif ok:
                    ok = False
                order.append(fld)
                ctx.check(ok, "C12-d", it.key, "pseudo %s yielded under its own name, taken out (at most once)" % fld,
                          "pseudo field `%s` is yielded as %s (expected its name with the whole as_str() of the slot)" % (fld, txt[:160]), "")
        ctx.check(sorted(set(order)) == sorted(names), "C12-d", it.key, "all six pseudo fields can be yielded", "pseudo fields yielded: %s" % order, str(order))
    hr = ru.need(ctx, "C12-d", H + "Header::request")
    if hr:
        ps = [p for p in ru.all_paths(ctx, "C12-d", hr) if p.end == "return"]
        okp = [p for p in ps if p.ret_shape().startswith("Ok(")]
        bad = []
        for p in okp:
            a_ = [t[2] for t in p.tests if t[3][0] == "discr" and pa.head_call(t[3])[0] and pa.head_call(t[3])[0].endswith("Uri::authority")]
            h_ = [t[2] for t in p.tests if t[3][0] == "discr" and pa.head_call(t[3])[0] and pa.head_call(t[3])[0].endswith("HeaderMap::get")]
            if (a_[:1], h_[:1]) == (["None"], ["None"]):
                bad.append(p)
            if (a_[:1], h_[:1]) == (["Some"], ["Some"]):
                ne = [t for t in p.tests if t[3][0] == "call" and pa.short(t[3][1]) in ("ne", "eq")]
                if not ne or not (ne[0][3][2][0][0] == "call" and ne[0][3][2][0][1] == "http::uri::authority::Authority::as_str"):
                    bad.append(p)
        ctx.check(bool(okp) and not bad, "C12-d", hr.key, "request sent only with an authority, consistent with Host",
                  "Header::request accepts a request without authority/Host or without comparing the whole authority with Host", "",
                  None, bad[0].describe() if bad else None)
        for bb, s in ru.aggregates(hr, H + "Header"):
            o = fl.Flow(hr, prog).origin(ru.field_op(s, "fields"))
            ctx.check(o == ("param", 3, ()), "C12-d", hr.key, "regular fields are the caller's map", "fields = %s" % fl.fmt(o), "")
    pr = ru.need(ctx, "C12-d", H + "Pseudo::request")
    if pr:
        f = fl.Flow(pr, prog)
        for bb, s in ru.aggregates(pr, H + "Pseudo"):
            m = f.origin(ru.field_op(s, "method"))
            ctx.check(m == ("agg", "core::option::Option::Some", (("param", 1, ()),)), "C12-d", pr.key, ":method = the caller's method", "method = %s" % fl.fmt(m), "")
            stt = f.origin(ru.field_op(s, "status"))
            ctx.check(stt[0] == "agg" and stt[1].endswith("::None"), "C12-d", pr.key, "requests carry no :status", "status = %s" % fl.fmt(stt), "")
            au = f.origin(ru.field_op(s, "authority"))
            ctx.check(ru.o_has_call(au, "From<http::uri::Uri>>::from") and not fl.has_arith(au), "C12-d", pr.key, ":authority = the caller's URI authority",
                      "authority = %s" % fl.fmt(au)[:120], "")
        # RFC 9114 4.3.1 / 4.4 / RFC 8441: :scheme and :path are left out for a plain CONNECT only; an extended CONNECT (one that
        # carries :protocol) and every other method send them; :protocol goes out only with CONNECT
        names_ = [f_["name"] for f_ in prog.adts[H + "Pseudo"]["variants"][0]["fields"]]
        rows_ = {}
        for p in [p for p in ru.all_paths(ctx, "C12-d", pr, max_visits=1) if p.end == "return" and p.ret is not None and p.ret[0] == "agg"]:
            fld = dict(zip(names_, p.ret[3]))
            conn = {t[2] for t in p.tests if t[3][0] == "call" and pa.short(t[3][1]) in ("eq", "ne") and "Method::CONNECT" in t[1]}
            if len(conn) != 1:
                ctx.unrecognised("C12-d", pr.key, "CONNECT test", "the method == CONNECT decision of a path is %s" % sorted(conn))
                continue
            is_conn = (next(iter(conn)) == "true")
            proto = fld.get("protocol")
            pk = p.known_none(proto) if hasattr(p, "known_none") else None
            pn = [t[2] for t in p.tests if t[3][0] == "call" and pa.short(t[3][1]) in ("is_none", "is_some") and t[3][2] and t[3][2][0] == proto]
            pstate = None
            if proto is not None and proto[0] == "agg" and proto[2] == "None":
                pstate = "None"
            elif pn:
                pstate = "None" if (pn[-1] == "true") == (pa.short([t for t in p.tests if t[3][0] == "call" and pa.short(t[3][1]) in ("is_none", "is_some") and t[3][2] and t[3][2][0] == proto][-1][3][1]) == "is_none") else "Some"
            none = lambda v: v is not None and v[0] == "agg" and v[2] == "None"
            rows_[(is_conn, pstate)] = (none(fld.get("scheme")), none(fld.get("path")), pa.vfmt(proto)[:40] if proto else "?")
        want_rows = {(True, "None"): (True, True), (True, "Some"): (False, False), (False, "None"): (False, False)}
        for k_, (ws, wp) in want_rows.items():
            got = rows_.get(k_)
            ctx.check(got is not None and got[:2] == (ws, wp), "C12-d", pr.key,
                      "CONNECT=%s, :protocol %s -> :scheme/:path %s" % (k_[0], k_[1], "left out" if ws else "sent"),
                      "for method %s CONNECT with :protocol %s the request pseudo-headers have scheme-absent=%s path-absent=%s (all rows: %s); only a plain "
                      "CONNECT omits :scheme and :path - an extended CONNECT without them is malformed for the peer (RFC 8441 section 4)"
                      % ("==" if k_[0] else "!=", k_[1], got and got[0], got and got[1], rows_), str(got))
        ctx.check(not [k_ for k_ in rows_ if k_ == (False, "Some")], "C12-d", pr.key, ":protocol only with CONNECT", "rows: %s" % rows_, "")
    pc = prog.find(r"^h3::proto::headers::Pseudo::request::\{closure#1\}$")
    if pc:
        c = pc[0]
        ps = [p for p in ru.all_paths(ctx, "C12-d", c) if p.end == "return"]
        for p in ps:
            rep = expr.mentions(p.ret, lambda v: v[0] == "call" and v[1].endswith("PathAndQuery::from_static"))
            em = [t for t in p.tests if t[3][0] == "call" and t[3][1] == "core::str::<impl str>::is_empty" or (t[3][0] == "call" and pa.short(t[3][1]) == "is_empty")]
            if rep:
                ok = bool(em) and em[0][2] == "true" and em[0][3][2][0][0] == "call" and em[0][3][2][0][1] == "http::uri::path::PathAndQuery::path"
                ctx.check(ok, "C12-d", c.key, "caller's path replaced by \"/\" only when its path component is empty",
                          "the request target's path-and-query is replaced by \"/\" on a path whose condition is %s; it may only be replaced "
                          "when the supplied path is empty (otherwise e.g. the query is dropped and the peer sees a different target)"
                          % [(t[1][:60], t[2]) for t in p.tests], "", None, p.describe())
            else:
                ctx.check(p.ret == ("param", 2, ()), "C12-d", c.key, "otherwise the caller's path is sent unchanged", "returns %s" % pa.vfmt(p.ret), "")
        ctx.floor("C12-d", "paths of the path normaliser", len(ps), 2)
    elif pr:
        # the normaliser written in place (`match path_and_query { Some(path) => if path.path().is_empty() && .. {"/"} else {path}, None => "/" }`):
        # the same table read off the paths of Pseudo::request itself, from the value that ends up in the `path` slot
        names2_ = [f_["name"] for f_ in prog.adts[H + "Pseudo"]["variants"][0]["fields"]]
        n_np = 0
        for p in [p for p in ru.all_paths(ctx, "C12-d", pr, max_visits=1) if p.end == "return" and p.ret is not None and p.ret[0] == "agg"]:
            pv = dict(zip(names2_, p.ret[3])).get("path")
            if pv is None or pv[0] != "agg" or pv[2] != "Some":
                continue
            n_np += 1
            val = pv[3][0]
            rep = expr.mentions(val, lambda v: v[0] == "call" and v[1].endswith("PathAndQuery::from_static"))
            em = [t for t in p.tests if t[3][0] == "call" and pa.short(t[3][1]) == "is_empty" and t[3][2] and t[3][2][0][0] == "call" and t[3][2][0][1] == "http::uri::path::PathAndQuery::path"]
            pq = [t[2] for t in p.tests if t[3][0] == "discr" and "path_and_query" in t[1]]
            if rep:
                ok = (em and em[0][2] == "true") or pq[:1] == ["None"]
                ctx.check(bool(ok), "C12-d", pr.key, "caller's path replaced by \"/\" only when its path component is empty",
                          "the request target's path-and-query is replaced by \"/\" on a path whose condition is %s" % [(t[1][:60], t[2]) for t in p.tests][-3:], "", None, p.describe())
            else:
                ctx.check("path_and_query" in pa.vfmt(val) and not expr.mentions(val, lambda v: v[0] == "call" and pa.short(v[1]) not in ("from", "into", "clone")), "C12-d", pr.key,
                          "otherwise the caller's path is sent unchanged", "path slot = %s" % pa.vfmt(val)[:100], "")
        ctx.floor("C12-d", "paths of Pseudo::request that set :path", n_np, 2)
    else:
        ctx.missing("C12-d", H + "Pseudo::request::{closure#1}")
    rsps = ru.need(ctx, "C12-d", H + "Pseudo::response")
    if rsps:
        f = fl.Flow(rsps, prog)
        for bb, s in ru.aggregates(rsps, H + "Pseudo"):
            vals = {n: f.origin(ru.field_op(s, n)) for n in ("method", "scheme", "authority", "path", "status", "protocol")}
            # a field left to `..Pseudo::default()` is None when Pseudo's Default gives None for it (derived: Option's own default)
            dflt = prog.one("<h3::proto::headers::Pseudo as core::default::Default>::default")
            dnone = set()
            if dflt:
                fd_ = fl.Flow(dflt, prog)
                for _bb, s2 in ru.aggregates(dflt, H + "Pseudo"):
                    for n in ("method", "scheme", "authority", "path", "status", "protocol"):
                        o2 = fd_.origin(ru.field_op(s2, n))
                        if (o2[0] == "call" and "core::option::Option" in o2[1] and o2[1].endswith("Default>::default")) or (o2[0] == "agg" and o2[1].endswith("::None")):
                            dnone.add(n)

            def is_none(n, v):
                if v[0] == "agg" and v[1].endswith("::None"):
                    return True
                return n in dnone and v[0] == "proj" and v[1][0] == "call" and v[1][1] == "<h3::proto::headers::Pseudo as core::default::Default>::default" and tuple(v[2]) == (n,)
            ok = vals["status"] == ("agg", "core::option::Option::Some", (("param", 1, ()),)) and all(is_none(n, v) for n, v in vals.items() if n != "status")
            ctx.check(ok, "C12-d", rsps.key, "responses carry exactly :status = the caller's status", "Pseudo::response = %s" % {n: fl.fmt(v) for n, v in vals.items()}, "")
    # (c) how a malformed message is refused - on its stream, with H3_MESSAGE_ERROR in the error the application gets - is the outcome
    # table of C07-a: its malformed-request / -response / -trailers rows run under this property too
    if not getattr(ctx, "nested", False):
        from rules import C07 as _c07, shared as _sh
        _c07.run(_sh.Proxy(ctx, ("C07-a",), "C12-c", constructs=("malformed request", "malformed response", "malformed trailers")))
    ctx.assume("http::{HeaderName::from_lowercase, HeaderValue::from_bytes, Method/StatusCode::from_bytes, Uri builder, FromStr impls} validate as documented")
