"""C17 The Quinn adapter moves bytes, identifiers and errors faithfully."""
from engine import flow as fl, ru, paths as pa, expr, dispatch as dp

EXPLANATION = (
    "Path, def-use, nullability and table rules over h3-quinn: (a) send_data stores the buffer only when no write is "
    "pending and refuses otherwise; (b) poll_ready / poll_send hand Quinn the current chunk of the same buffer and "
    "advance it by exactly the count Quinn accepted (pure flow), the pending buffer is cleared only once it is drained "
    "and is never taken or cleared on a path that returns Pending or an error (a parked write keeps its unwritten tail); "
    "(c) Option-typed fields that a poll function leaves empty across Pending (RecvStream.stream) are never unwrapped by "
    "the identifier accessors: recv_id returns the id cached at construction, send_id reads the live stream, and no "
    "unwrap/expect reaches such a field without a dominating is_some; (d) the four error-conversion tables are compared "
    "exactly with the expected classes (application close, timeout, reset/stop with the peer's code by pure flow, "
    "connection lost -> connection-level, the rest -> Unknown/Undefined); (e) BidiStream's trait impls are pure "
    "forwarders to its halves. Byte delivery over real Quinn under flow control is not decided."
    " C17-d also restricts who may construct StreamErrorIncoming / ConnectionErrorIncoming / SendDatagramErrorIncoming in the adapter to the conversion tables and a short audited list, so that no Quinn error reaches h3 unclassified.")
RULES = "C17-b also: poll_send writes only while no framed write is pending; C17-c also: a pending stop is taken after the read has answered; C17-d also: h3 -> datagram error table; C17-a overlapping write refused (A2); C17-b advance by what Quinn accepted, buffer kept across Pending (A4/A8); C17-c identifiers never panic (A9/A14); C17-d error tables, who may build a transport error, success never answered after a Quinn error (A3/A10); C17-e forwarders (A13); shared through a proxy: C14-e under C17-b; C17-c also: receive stream put back on every exit after the read completed"

Q = "h3_quinn::"
SS = "<h3_quinn::SendStream as h3::quic::SendStream<B>>::"


def errors_not_swallowed(ctx, rule="C17-d"):
    """No method of the Quinn adapter answers success on a path on which a Quinn operation answered Err (shared with C07-b:
    a reset that is turned into data or a clean end of stream surfaces later as a truncated frame, i.e. a connection error)."""
    prog = ctx.prog
    n = 0
    for b in prog.find(r"^<h3_quinn::(RecvStream|SendStream|BidiStream) as h3::quic::(RecvStream|SendStream<B>|SendStreamUnframed<B>)>::(poll_data|poll_ready|poll_finish|poll_send)$"):
        ps = [p for p in ru.all_paths(ctx, rule, b, max_visits=1) if p.end == "return"]
        for p in ps:
            sh = p.ret_shape()
            if not (sh.startswith("Ready(Ok") or sh.startswith("Ok(")):
                continue
            n += 1
            bad = [t for t in p.tests if t[3][0] == "discr" and t[2] == "Err" and ("poll@" in t[1] or "quinn" in t[1])]
            if b.name == "poll_data":
                # the chunk result that came out of the read future must have been looked at, and found Ok
                seen = [t for t in p.tests if t[3][0] == "discr" and t[2] in ("Ok", "Continue") and "poll@" in t[1] and "<Ready>" in t[1]]
                ctx.check(bool(seen), rule, b.key, "data / end of stream is answered only after the read's result was found Ok",
                          "%s answers %s on a path that never examined the result of the read it completed: a reset, a stop or a lost "
                          "connection that ended that read is reported as data or as a clean end of stream" % (b.key, sh[:30]), "", None, p.describe())
            ctx.check(not bad, rule, b.key, "success is answered only when no Quinn operation failed on the path",
                      "%s answers %s on a path where %s was Err: a Quinn error (reset, stop, connection loss) is reported to h3 as data / end of "
                      "stream / success instead of through the conversion table" % (b.key, sh[:30], [t[1][-70:] for t in bad][:1]), "", None, p.describe())
    ctx.floor(rule, "success paths of the adapter's stream methods", n, 6)


def run(ctx):
    prog = ctx.prog
    # ------------------------------------------------------------------ C17-a
    sd = ru.need(ctx, "C17-a", SS + "send_data")
    if sd:
        ps = [p for p in ru.all_paths(ctx, "C17-a", sd) if p.end == "return"]
        for p in ps:
            st = [e for e in p.stores() if pa.vfmt(e[4]).endswith(".writing")]
            busy = [t for t in p.tests if t[3][0] == "call" and pa.short(t[3][1]) in ("is_some", "is_none") and "writing" in pa.vfmt(t[3][2][0])]
            pending = None
            if busy:
                pending = (busy[0][2] == "true") == (pa.short(busy[0][3][1]) == "is_some")
            if st:
                ok = pending is False and st[0][3][0] == "agg" and st[0][3][2] == "Some" and expr.mentions(st[0][3], lambda v: v == ("param", 2, ()))
                ctx.check(ok, "C17-a", sd.key, "buffer stored only when no write is pending",
                          "send_data stores a new buffer on a path where a pending write was not excluded (pending=%s): an unfinished write "
                          "would be overwritten / interleaved" % pending, "", None, p.describe())
                ctx.check(p.ret_shape().startswith("Ok("), "C17-a", sd.key, "accepted write returns Ok", "returns %s" % p.ret_shape(), "")
            else:
                ok = pending is True and p.ret_shape().startswith("Err(")
                ctx.check(ok, "C17-a", sd.key, "overlapping write refused with an error",
                          "a path without storing the buffer returns %s (pending=%s)" % (p.ret_shape(), pending), "", None, p.describe())
        ctx.floor("C17-a", "paths of send_data", len(ps), 2)
    # ------------------------------------------------------------------ C17-b
    pr = ru.need(ctx, "C17-b", SS + "poll_ready")
    if pr:
        ps = [p for p in ru.all_paths(ctx, "C17-b", pr, max_visits=2) if p.end == "return"]
        n_adv = 0
        for p in ps:
            sh = p.ret_shape()
            clears = [e for e in p.stores() if pa.vfmt(e[4]).endswith(".writing")]
            takes = [e for e in p.calls("core::option::Option::take", "core::mem::take", "core::mem::replace") if "writing" in pa.vfmt(e[3][0])]
            if sh == "Pending":
                ctx.check(not clears and not takes, "C17-b", pr.key, "pending buffer kept when the write parks (Pending)",
                          "poll_ready returns %s on a path that took or cleared `writing`: the unwritten tail of the buffer is dropped and the "
                          "peer receives a truncated stream" % sh, "", None, p.describe())
            elif sh.startswith("Residual") or "Err" in sh:
                # a write that failed is over: the buffer is dropped, so that the next send_data is not answered with the adapter's own
                # `write in progress` error (a connection-level InternalError - a cancelled request would close the connection, C07)
                cleared = [e for e in clears if e[3][0] == "agg" and e[3][2] == "None"] or takes
                ctx.check(bool(cleared), "C17-b", pr.key, "buffer dropped when the write fails",
                          "poll_ready returns %s with the unwritten buffer still in `writing`: the stream can never be written again, and the next "
                          "send_data (e.g. the grease frame written by finish()) is refused as an internal error, which h3 raises at connection "
                          "level" % sh[:40], "", None, p.describe())
            if clears and sh.startswith("Ready(Ok"):
                hr = [t for t in p.tests if t[3][0] == "call" and pa.short(t[3][1]) == "has_remaining"]
                wr = [t for t in p.tests if t[3][0] == "discr" and "writing" in t[1]]
                ok = (hr and hr[-1][2] == "false") or (wr and wr[0][2] == "None")
                ctx.check(ok, "C17-b", pr.key, "buffer cleared only when drained", "writing is cleared while data may remain", "", None, p.describe())
            for e in p.calls("bytes::buf::buf_impl::Buf::advance", "::advance"):
                n_adv += 1
                a = e[3][1]
                # the Ok payload of poll_write itself, through `?`/map_err or an explicit match, with no arithmetic on it
                ok = a[0] in ("okval", "proj") and pa.short(pa.source_call(a)[0] or "") == "poll_write" and not expr.mentions(a, lambda v: v[0] == "binop")
                ctx.check(ok, "C17-b", pr.key, "advance by exactly the count Quinn accepted",
                          "the pending buffer is advanced by %s; it must be the byte count returned by poll_write, unchanged" % pa.vfmt(a)[:100], "")
                pw = [x for x in p.calls("poll_write")]
                ok = bool(pw) and expr.mentions(pw[-1][3][-1], lambda v: v[0] == "call" and pa.short(v[1]) == "chunk") and "writing" in pa.vfmt(pw[-1][3][-1])
                ctx.check(ok, "C17-b", pr.key, "Quinn is given the current chunk of the pending buffer", "poll_write gets %s" % pa.vfmt(pw[-1][3][-1])[:80] if pw else "no poll_write", "")
        ctx.floor("C17-b", "advance sites explored in poll_ready", n_adv, 1)
    psn = ru.need(ctx, "C17-b", "<h3_quinn::SendStream as h3::quic::SendStreamUnframed<B>>::poll_send")
    if psn:
        ps = [p for p in ru.all_paths(ctx, "C17-b", psn) if p.end == "return"]
        adv = [(p, e) for p in ps for e in p.calls("::advance")]
        ctx.floor("C17-b", "advance sites in poll_send", len(adv), 1)
        for p, e in adv:
            a = e[3][1]
            ok = expr.mentions(a, lambda v: v[0] == "call" and pa.short(v[1]) == "poll_write") and not expr.mentions(a, lambda v: v[0] == "binop") and e[3][0] == ("param", 3, ())
            ctx.check(ok, "C17-b", psn.key, "caller's buffer advanced by what Quinn accepted", "advance(%s, %s)" % (pa.vfmt(e[3][0]), pa.vfmt(a)[:60]), "")
            ctx.check(p.ret_shape().startswith("Ready(Ok(") and expr.mentions(p.ret, lambda v: v[0] == "call" and pa.short(v[1]) == "poll_write"),
                      "C17-b", psn.key, "reports the same count", "returns %s" % pa.vfmt(p.ret)[:60], "")
        # an unframed write never goes out while a framed one is only partly written: every path that reaches Quinn's poll_write
        # found `writing` empty first (the raw bytes would land in the middle of the pending frame)
        nw = 0
        for p in [p for p in ru.all_paths(ctx, "C17-b", psn)]:
            if not p.has_call("poll_write"):
                continue
            nw += 1
            wt = [t for t in p.tests if "writing" in t[1] and ((t[3][0] == "call" and pa.short(t[3][1]) in ("is_some", "is_none")) or t[3][0] == "discr")]
            empty = bool(wt) and ((pa.short(wt[0][3][1]) == "is_some" and wt[0][2] == "false") or (pa.short(wt[0][3][1]) == "is_none" and wt[0][2] == "true")
                                  if wt[0][3][0] == "call" else wt[0][2] == "None")
            ctx.check(empty, "C17-b", psn.key, "unframed write only while no framed write is pending",
                      "poll_send hands bytes to Quinn on a path that did not find `writing` empty: a raw write made while a send_data buffer is only "
                      "partly written is placed in the middle of that frame", "", None, p.describe())
        ctx.floor("C17-b", "writing paths of poll_send", nw, 1)
    # the receive stream travels into the read future and comes back out with the result: once the future has answered, the stream
    # is put back on EVERY exit, also when the read failed (the next poll_data takes it out again; an empty slot makes it poll a
    # finished future - a panic - instead of reporting the error again)
    pdr = ru.need(ctx, "C17-c", "<h3_quinn::RecvStream as h3::quic::RecvStream>::poll_data")
    if pdr:
        n_back = 0
        for p in [p for p in ru.all_paths(ctx, "C17-c", pdr, max_visits=1) if p.end == "return"]:
            ready_ = [t[2] for t in p.tests if t[3][0] == "discr" and "poll@" in t[1] and "<Ready>" not in t[1]]
            if ready_[:1] != ["Ready"]:
                continue
            n_back += 1
            back = [e for e in p.stores() if pa.vfmt(e[4]).endswith(".stream") and e[3][0] == "agg" and e[3][2] == "Some" and "poll@" in pa.vfmt(e[3])]
            ctx.check(bool(back), "C17-c", pdr.key, "stream put back on every exit after the read completed (%s)" % p.ret_shape()[:24],
                      "poll_data returns %s after the read future answered without storing the stream back into self.stream: the stream is lost, "
                      "and the next poll_data polls the finished future (panic) instead of reporting the error" % p.ret_shape()[:40], "", None, p.describe())
        ctx.floor("C17-c", "exits of RecvStream::poll_data after the read completed", n_back, 2)
    # a stop the application asked for while a read was in flight is carried out as soon as that read has answered and the stream is
    # back (before it is stored again) - not put off until some later read is started, which may never happen
    if pdr:
        nst = 0
        for p in [p for p in ru.all_paths(ctx, "C17-c", pdr, max_visits=1) if p.end == "return" and p.ret_shape() != "Pending"]:
            ev = [(i, e) for i, e in enumerate(p.events) if e[0] == "call"]
            pol = [i for i, e in ev if e[2].cname == "poll"]
            tk = [i for i, e in ev if e[2].cname == "take" and e[3] and pa.vfmt(e[3][0]).endswith("pending_stop")]
            if not pol:
                continue
            nst += 1
            ctx.check(bool(tk) and min(tk) > max(pol), "C17-c", pdr.key, "a pending stop is taken after the read has answered",
                      "poll_data %s: the STOP_SENDING code requested during a suspended read reaches the peer only if another read is started"
                      % ("looks at pending_stop before polling the read" if tk else "does not look at pending_stop once the read has answered"), "", None, p.describe())
        ctx.floor("C17-c", "completed-read exits of poll_data examined for the pending stop", nst, 2)
    # ------------------------------------------------------------------ C17-c nullability
    # fields of Option type in h3_quinn structs that some method leaves empty on an exit
    emptied = {}
    for b in prog.bodies:
        if b.crate != "h3_quinn" or "{" in b.key:
            continue
        try:
            ps = pa.Explorer(prog, b, max_visits=1, max_paths=3000).paths()
        except pa.PathExplosion:
            continue
        for p in ps:
            if p.end not in ("return",):
                continue
            taken = {}
            for e in p.events:
                if e[0] == "call" and e[2].is_call("core::option::Option::take") and e[3] and e[3][0][0] == "param" and e[3][0][1] == 1:
                    taken[pa.vfmt(e[3][0])] = True
                if e[0] == "store" and pa.vfmt(e[4]) in taken and e[3][0] == "agg" and e[3][2] == "Some":
                    taken[pa.vfmt(e[4])] = False
                if e[0] == "store" and e[3][0] == "agg" and e[3][2] == "None" and e[4][0] == "param" and e[4][1] == 1:
                    pass
            for fld, still in taken.items():
                if still:
                    emptied.setdefault((b.self_adt, fld.split(".", 1)[-1]), set()).add("%s -> %s" % (b.key, p.ret_shape()[:20]))
    ctx.check(("h3_quinn::RecvStream", "stream") in emptied, "C17-c", "h3_quinn::RecvStream.stream", "field left empty across Pending is recognised",
              "no method was found that leaves RecvStream.stream empty (expected: poll_data across Pending): %s" % sorted(emptied), str(sorted(emptied))[:200])
    n_unw = 0
    for (adt, fld), how in sorted(emptied.items()):
        for b in prog.bodies:
            if b.self_adt != adt and not (b.id.get("self_adt") == adt):
                continue
            f = fl.Flow(b, prog)
            for bb, t in b.all_terms():
                if t.t == "call" and t.cname in ("unwrap", "expect", "unwrap_unchecked") and t.args:
                    o = ru.strip_unwrap(f.origin(t.args[0]))
                    if o[0] == "param" and o[1] == 1 and o[2][:1] == (fld,):
                        n_unw += 1
                        ctx.violation("C17-c", b.key, "unwrap of %s.%s" % (adt.rsplit("::", 1)[-1], fld),
                                      "%s unwraps self.%s, which %s leaves empty (e.g. while a read is pending or was cancelled): the call "
                                      "panics in that state" % (b.key, fld, sorted(how)[0]), b.loc(t))
    ctx.ok("C17-c", "unwraps of fields that can be empty", "%d found over %d such fields" % (n_unw, len(emptied)))
    rid = ru.need(ctx, "C17-c", "<h3_quinn::RecvStream as h3::quic::RecvStream>::recv_id")
    if rid:
        o = fl.ret_origin(prog, rid)
        ctx.check(o == ("param", 1, ("id",)), "C17-c", rid.key, "recv_id returns the identifier cached at construction",
                  "recv_id returns %s; it must not depend on state that a pending or cancelled read leaves empty" % fl.fmt(o), fl.fmt(o))
        pan = [t.ckey for bb, t in rid.all_terms() if t.t == "call" and (t.target is None or t.target < 0 or t.cname in ("unwrap", "expect"))]
        ctx.check(not pan, "C17-c", rid.key, "no panicking call in recv_id", "recv_id calls %s" % pan, "")
    rn = ru.need(ctx, "C17-c", "h3_quinn::RecvStream::new")
    if rn:
        f = fl.Flow(rn, prog)
        for bb, s in ru.aggregates(rn, "h3_quinn::RecvStream"):
            o = ru.strip_unwrap(f.origin(ru.field_op(s, "id")))
            ok = ru.o_has_call(o, "quinn::recv_stream::RecvStream::id") and any(pp == (1, ()) for pp in fl.params_in(o)) and not fl.has_arith(o)
            ctx.check(ok, "C17-c", rn.key, "cached id = the Quinn stream's id", "id is %s" % fl.fmt(o)[:120], "")
    sid = ru.need(ctx, "C17-c", SS + "send_id")
    if sid:
        o = ru.strip_unwrap(fl.ret_origin(prog, sid))
        ok = ru.o_has_call(o, "quinn::send_stream::SendStream::id") and any(pp[1] == ("stream",) for pp in fl.params_in(o))
        ctx.check(ok, "C17-c", sid.key, "send_id reads the (always present) stream", "send_id returns %s" % fl.fmt(o)[:120], "")
    # ------------------------------------------------------------------ C17-d tables
    def table(key, expected, rule="C17-d"):
        b = ru.need(ctx, rule, key)
        if not b:
            return
        rows = {}
        for p in [p for p in ru.all_paths(ctx, rule, b) if p.end in ("return", "diverge")]:
            labs = [t[2] for t in p.tests if t[3][0] == "discr" and t[3][1] == ("param", 1, ())]
            for lab in (labs[0].split("|") if labs else ["?"]):
                rows.setdefault(lab, []).append(p)
        for var, (shape, pred, text) in expected.items():
            hit = rows.get(var, [])
            ok = bool(hit) and all((p.ret_shape() if p.end == "return" else "panic").startswith(shape) and (pred is None or pred(p)) for p in hit)
            ctx.check(ok, rule, key, "%s -> %s" % (var, text),
                      "%s::%s is converted to %s; expected %s" % (key.rsplit("::", 1)[-1], var,
                                                                 [(p.ret_shape() if p.end == "return" else "panic", pa.vfmt(p.ret)[:60] if p.ret else "") for p in hit] or "nothing", text), "")
        ctx.check(set(rows) == set(expected), rule, key, "all variants tabled", "variants handled %s, tabled %s" % (sorted(rows), sorted(expected)), "")

    def code_flow(var, fld):
        return lambda p: expr.mentions(p.ret, lambda v: v[0] in ("param", "proj") and ("<%s>" % var) in pa.vfmt(v)) and not expr.mentions(p.ret, lambda v: v[0] == "binop")
    table(Q + "convert_connection_error", {
        "ApplicationClosed": ("ConnectionErrorIncoming::ApplicationClose", lambda p: "error_code" in pa.vfmt(p.ret) and "ApplicationClosed" in pa.vfmt(p.ret), "ApplicationClose{peer's code}"),
        "TimedOut": ("ConnectionErrorIncoming::Timeout", None, "Timeout"),
        "VersionMismatch": ("ConnectionErrorIncoming::Undefined", None, "Undefined"), "Reset": ("ConnectionErrorIncoming::Undefined", None, "Undefined"),
        "LocallyClosed": ("ConnectionErrorIncoming::Undefined", None, "Undefined"), "CidsExhausted": ("ConnectionErrorIncoming::Undefined", None, "Undefined"),
        "TransportError": ("ConnectionErrorIncoming::Undefined", None, "Undefined"), "ConnectionClosed": ("ConnectionErrorIncoming::Undefined", None, "Undefined")})
    table(Q + "convert_read_error_to_stream_error", {
        "Reset": ("StreamErrorIncoming::StreamTerminated", code_flow("Reset", "0"), "StreamTerminated{peer's reset code}"),
        "ConnectionLost": ("StreamErrorIncoming::ConnectionErrorIncoming", lambda p: p.has_call(Q + "convert_connection_error"), "connection-level error (converted)"),
        "ClosedStream": ("StreamErrorIncoming::Unknown", None, "Unknown"), "ZeroRttRejected": ("StreamErrorIncoming::Unknown", None, "Unknown"),
        "IllegalOrderedRead": ("panic", None, "unreachable: only ordered reads are issued")})
    table(Q + "convert_write_error_to_stream_error", {
        "Stopped": ("StreamErrorIncoming::StreamTerminated", code_flow("Stopped", "0"), "StreamTerminated{peer's stop code}"),
        "ConnectionLost": ("StreamErrorIncoming::ConnectionErrorIncoming", lambda p: p.has_call(Q + "convert_connection_error"), "connection-level error (converted)"),
        "ClosedStream": ("StreamErrorIncoming::Unknown", None, "Unknown"), "ZeroRttRejected": ("StreamErrorIncoming::Unknown", None, "Unknown")})
    table(Q + "datagram::convert_send_datagram_error", {
        "UnsupportedByPeer": ("SendDatagramErrorIncoming::NotAvailable", None, "NotAvailable"), "Disabled": ("SendDatagramErrorIncoming::NotAvailable", None, "NotAvailable"),
        "TooLarge": ("SendDatagramErrorIncoming::TooLarge", None, "TooLarge"),
        "ConnectionLost": ("SendDatagramErrorIncoming::ConnectionError", lambda p: p.has_call(Q + "convert_connection_error"), "ConnectionError (converted)")})
    table(Q + "datagram::convert_h3_error_to_datagram_error", {
        "ApplicationClose": ("ConnectionErrorIncoming::ApplicationClose", lambda p: "error_code" in pa.vfmt(p.ret), "ApplicationClose{same code}"),
        "Timeout": ("ConnectionErrorIncoming::Timeout", None, "Timeout"),
        "InternalError": ("ConnectionErrorIncoming::InternalError", None, "InternalError"),
        "Undefined": ("ConnectionErrorIncoming::Undefined", None, "Undefined")})
    errors_not_swallowed(ctx, "C17-d")
    # who may build an h3 transport error in the adapter: only the conversion tables above and the audited sites below, so that
    # no Quinn error reaches h3 without passing through its table (e.g. wrapped wholesale as Unknown)
    AUDITED = {
        Q + "convert_connection_error": None, Q + "convert_read_error_to_stream_error": None, Q + "convert_write_error_to_stream_error": None,
        Q + "datagram::convert_send_datagram_error": None, Q + "datagram::convert_h3_error_to_datagram_error": None,
        "<h3_quinn::Connection as h3::quic::OpenStreams<B>>::poll_open_bidi::{closure#1}": {"ConnectionErrorIncoming"},
        "<h3_quinn::Connection as h3::quic::OpenStreams<B>>::poll_open_send::{closure#1}": {"ConnectionErrorIncoming"},
        "<h3_quinn::OpenStreams as h3::quic::OpenStreams<B>>::poll_open_bidi::{closure#1}": {"ConnectionErrorIncoming"},
        "<h3_quinn::OpenStreams as h3::quic::OpenStreams<B>>::poll_open_send::{closure#1}": {"ConnectionErrorIncoming"},
        "<h3_quinn::SendStream as h3::quic::SendStream<B>>::poll_finish::{closure#0}": {"Unknown"},     # quinn's ClosedStream from finish(): no table entry exists for it
        "<h3_quinn::SendStream as h3::quic::SendStream<B>>::send_data": {"ConnectionErrorIncoming", "InternalError"},   # the adapter's own refusal (C17-a)
    }
    n_err = 0
    for b in prog.bodies:
        if not b.key.startswith(("h3_quinn", "<h3_quinn")):
            continue
        for adt in ("h3::quic::StreamErrorIncoming", "h3::quic::ConnectionErrorIncoming", "h3_datagram::quic_traits::SendDatagramErrorIncoming"):
            for bb, s_ in ru.aggregates(b, adt):
                n_err += 1
                allowed = AUDITED.get(b.key, set()) if b.key in AUDITED else set()
                ok = b.key in AUDITED and (AUDITED[b.key] is None or s_.rv.variant in allowed)
                ctx.check(ok, "C17-d", b.key, "builds %s::%s at an audited site" % (adt.rsplit("::", 1)[-1], s_.rv.variant),
                          "%s constructs %s::%s itself: a Quinn error that does not go through convert_read_error_to_stream_error / "
                          "convert_write_error_to_stream_error / convert_connection_error loses its class and the peer's code (reset, stop, "
                          "application close and timeout all look the same to h3)" % (b.key, adt.rsplit("::", 1)[-1], s_.rv.variant), "", b.loc(s_))
    ctx.floor("C17-d", "transport-error constructions in h3-quinn", n_err, 20)
    ic = ru.need(ctx, "C17-d", "h3_quinn::RecvStream::new")
    # only ordered reads are issued (supports the IllegalOrderedRead entry)
    pdk = prog.find(r"^<h3_quinn::RecvStream as h3::quic::RecvStream>::poll_data::\{closure#0\}$")
    if pdk:
        rc = [t for bb, t in pdk[0].all_terms() if t.t == "call" and t.cname == "read_chunk"]
        ok = len(rc) == 1 and rc[0].args[-1].k == "const" and (rc[0].args[-1].int == 1 or rc[0].args[-1].s in ("const true", "true"))
        ctx.check(ok, "C17-d", pdk[0].key, "reads are ordered (read_chunk(.., true))", "read_chunk is called with ordered=%s" % (rc[0].args[-1] if rc else None), "")
    else:
        ctx.missing("C17-d", "RecvStream::poll_data read future")
    # ------------------------------------------------------------------ C17-e forwarders
    fw = [b for b in prog.find(r"^<h3_quinn::BidiStream as h3::quic::(RecvStream|SendStream<B>|SendStreamUnframed<B>)>::") if "{" not in b.key]
    ctx.floor("C17-e", "BidiStream forwarders", len(fw), 9)
    for b in fw:
        ok, why = ru.forwarder(prog, b)
        ctx.check(ok, "C17-e", b.key, "pure forwarder", "%s is not a pure forwarder to its half: %s" % (b.key, why), why)
    sp = ru.need(ctx, "C17-e", "<h3_quinn::BidiStream as h3::quic::BidiStream<B>>::split")
    if sp:
        o = fl.ret_origin(prog, sp)
        ctx.check(o == ("agg", "tuple", (("param", 1, ("send",)), ("param", 1, ("recv",)))), "C17-e", sp.key, "split = (send, recv)", "split returns %s" % fl.fmt(o), "")
    ctx.assume("quinn's poll_write returns the number of bytes it accepted from the slice it was given")
    # the buffer whose chunk()/advance() the adapter's write loop relies on: the header/payload cursor of WriteBuf (C14-e)
    if not getattr(ctx, "nested", False):
        from rules import C14 as _c14, shared as _sh
        _c14.run(_sh.Proxy(ctx, ("C14-e",), "C17-b"))
