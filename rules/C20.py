"""C20 Stateful QPACK - structural clauses only (capacity, eviction guard, instruction codecs)."""
import json
import os
from engine import flow as fl, ru, paths as pa, expr
from rules.C11 import pattern_class, first_byte_table

EXPLANATION = (
    "Structural clauses of the dynamic-table QPACK code are decided on the MIR: (a) DynamicTable::insert adds to "
    "curr_size and pushes the field only on paths where can_free(field.mem_size()) succeeded and evict() was called with "
    "the count it returned; (b) evict() is called only with a count produced by can_free (who-may-call + flow), and in "
    "can_free an entry is counted evictable only on iterations where is_tracked() answered false; (c) for the seven "
    "encoder/decoder-stream instructions the (prefix size, flags) written by encode is accepted by the decision list "
    "extracted from decode, both equal RFC 9204 4.3/4.4, and the two first-byte classifiers equal the RFC's over all "
    "256 values; (d) the section-prefix codec (Required Insert Count wrap-around and Base) extracted from "
    "HeaderPrefix::new/get is evaluated over every small table state: get() must invert new() whenever the decoder's insert "
    "count is within MaxEntries of the required count, and the reconstruction must equal RFC 9204 4.5.1.1 on every valid "
    "encoding. Agreement of encoder and decoder over histories, blocking semantics and index arithmetic are "
    "value-level and NOT decided."
    " C20-b also requires every encoder result that carries a dynamic-table index (Relative, PostBase, Inserted, Duplicated, InsertedWith*NameRef) to be tracked by track_ref on the same path.")
# every anchor of these rules lives in the h3 crate: thorough tier repeats them on the feature-less build
EXTRA_CONFIGS = ["h3-plain"]
RULES = "C20-a capacity guard (A2/A3); C20-b eviction guarded by references, scan stops at the first referenced entry, every index the encoder hands out is tracked and reported as the section's required reference, evict cleans both lookup maps (A3/A4/A10); C20-c instruction codecs, Action::parse consumes only complete instructions (A11 + decision lists/A2); C20-b also: Duplicate carries the relative, the field line the post-base index of a duplicated entry; C20-d section prefix: get() inverts new() and equals RFC 9204 4.5.1.1 over small table states (extracted-expression evaluation), relative(i) = relative_base(inserted, i) = the i-th newest live entry over small states; C20-c also: a parsed encoder instruction is applied before the next one is parsed"

HERE = os.path.dirname(os.path.dirname(os.path.abspath(__file__)))
WIRE = json.load(open(os.path.join(HERE, "ref", "rfc9204_wire_formats.json")))
Q = "h3::qpack::"
D = Q + "dynamic::DynamicTable::"
PI_DEC = Q + "prefix_int::decode"
PI_ENC = Q + "prefix_int::encode"
PS_DEC = Q + "prefix_string::decode"
PS_ENC = Q + "prefix_string::encode"


def flags_subst(callee, value):
    def s(v):
        ck, names = pa.head_call(v)
        if ck == callee and v[0] != "discr" and tuple(names) in (("<Ok>", ".0", ".0"), ("?", ".0")):
            return value
        return None
    return s


def run(ctx):
    prog = ctx.prog
    consts = prog.consts
    # ------------------------------------------------------------ C20-a
    ins = ru.need(ctx, "C20-a", D + "insert")
    if ins:
        ps = [p for p in ru.all_paths(ctx, "C20-a", ins) if p.end == "return"]
        grow = [p for p in ps if any("curr_size" in pa.vfmt(e[4]) for e in p.stores()) or p.has_call("VecDeque<T, A>::push_back", "push_back")]
        ctx.floor("C20-a", "paths of insert that grow the table", len(grow), 1)
        for p in grow:
            cf = p.calls(D + "can_free")
            vt = [lab for names, lab, _ in p.variant_tests(D + "can_free") if names and names[0] == "?"]
            ok = len(cf) == 1 and "Some" in vt and expr.mentions(cf[0][3][1], lambda v: v[0] == "call" and v[1].endswith("HeaderField::mem_size"))
            ctx.check(ok, "C20-a", ins.key, "growth only after can_free(field.mem_size()) = Some",
                      "a path adds to curr_size / pushes the field without a successful can_free(field.mem_size()) "
                      "(can_free calls: %d, results tested: %s)" % (len(cf), vt), "", None, p.describe())
            ev = p.calls(D + "evict")
            ok = len(ev) == 1 and pa.head_call(ev[0][3][1])[0] == D + "can_free"
            ctx.check(ok, "C20-a", ins.key, "evict(count returned by can_free) precedes the growth",
                      "growth is not preceded by evict(n) with n from can_free (evict args: %s)" % [pa.vfmt(e[3][1]) for e in ev], "", None, p.describe())
            st = [e for e in p.stores() if "curr_size" in pa.vfmt(e[4])]
            ok = len(st) == 1 and expr.mentions(st[0][3], lambda v: v[0] == "call" and v[1].endswith("HeaderField::mem_size")) and \
                p.has_call("push_back")
            ctx.check(ok, "C20-a", ins.key, "curr_size grows by the pushed field's mem_size",
                      "curr_size is updated with %s" % [pa.vfmt(e[3]) for e in st], "")
    # ------------------------------------------------------------ C20-b
    callers = sorted({b.key for b, _, _ in prog.callers_of(D + "evict")})
    ctx.check(callers == sorted([D + "insert", D + "set_max_size"]), "C20-b", D + "evict", "who may evict",
              "evict is called from %s; audited callers are insert and set_max_size" % callers, str(callers))
    for b, bb, t in prog.callers_of(D + "evict"):
        o = fl.Flow(b, prog).origin(t.args[1])
        x = o
        while x[0] == "proj" or (x[0] == "call" and x[1].endswith("try_trait::Try>::branch")):
            x = x[1] if x[0] == "proj" else x[2][0]
        ok = x[0] == "call" and x[1] == D + "can_free"
        ctx.check(ok, "C20-b", b.key, "evict count comes from can_free unchanged",
                  "evict is called with %s, expected the count returned by can_free" % fl.fmt(o), fl.fmt(o)[:100], b.loc(t))
    cf = ru.need(ctx, "C20-b", D + "can_free")
    if cf:
        heads = cf.loop_heads()
        ex = pa.Explorer(prog, cf, max_visits=1)
        n = 0
        # the counter is the local whose value is returned as Ok(Some(count)) (whatever it is called)
        fcf = fl.Flow(cf, prog)
        counters = set()
        for bb_, i_, s_ in cf.all_stmts():
            if s_.s == "assign" and s_.rv.rv == "aggregate" and s_.rv.variant == "Some" and s_.rv.ops and s_.rv.ops[0].place is not None:
                rl = fcf.root_local(s_.rv.ops[0])
                if rl is not None and rl.is_local():
                    counters.add(rl.local)
        ctx.check(len(counters) == 1, "C20-b", cf.key, "one counter local is returned as Some(count)", "locals returned inside Some(..): %s" % sorted(counters), "")
        for h in heads:
            for p in ex.paths(start=h, stop_at=heads):
                inc = [e for e in p.events if e[0] == "store" or e[0] == "assert"]
                # `evictable += 1` is an assignment to a user local: look at the env for the increment
                incs = [l for l, v in p.env.items() if l in counters and v[0] in ("proj", "binop") and "Add" in pa.vfmt(v)]
                if p.end != "stop" or not incs:
                    continue
                n += 1
                tr = [t for t in p.tests if pa.head_call(t[3])[0] == D + "is_tracked"]
                ok = len(tr) == 1 and tr[0][2] == "false"
                ctx.check(ok, "C20-b", cf.key, "an entry is counted evictable only when is_tracked() is false",
                          "an iteration increments `evictable` without is_tracked(..) == false on its path (tests: %s)"
                          % [(t[1][:50], t[2]) for t in p.tests], "", None, p.describe())
        ctx.floor("C20-b", "iterations of can_free that count an entry", n, 1)
        # references are tracked by ABSOLUTE index (track_ref(index) with indices handed out by the table); the scan walks queue
        # positions: the question put to is_tracked must be the position translated by the table's own address space
        nq = 0
        for h in heads:
            for p in ex.paths(start=h, stop_at=heads):
                for e in p.calls(D + "is_tracked"):
                    nq += 1
                    a = e[3][1] if len(e[3]) > 1 else None
                    while a is not None and (a[0] in ("okval", "proj") or (a[0] == "call" and pa.short(a[1]) in ("unwrap", "expect", "unwrap_or", "unwrap_or_default") and a[2])):
                        a = a[1] if a[0] in ("okval", "proj") else a[2][0]
                    ok = a is not None and a[0] == "call" and a[1] == "h3::qpack::vas::VirtualAddressSpace::index" and a[2] and pa.vfmt(a[2][0]).endswith(".vas")
                    ctx.check(ok, "C20-b", cf.key, "is_tracked is asked about vas.index(position), the entry's absolute index",
                              "can_free asks is_tracked(%s): references are recorded under absolute indices, so after any eviction a queue "
                              "position (or a position plus a constant) names a different entry and an entry still referenced by an "
                              "unacknowledged field section is evicted" % (pa.vfmt(e[3][1])[:80] if len(e[3]) > 1 else "?"), "", None, p.describe())
        ctx.floor("C20-b", "is_tracked questions in the can_free scan", nq, 1)
    # the scan stops at the first referenced entry: eviction is FIFO, so entries behind a referenced one must not be counted
    if cf:
        n_tr = 0
        for h in heads:
            for p in ex.paths(start=h, stop_at=heads):
                tr = [t for t in p.tests if pa.head_call(t[3])[0] == D + "is_tracked"]
                if len(tr) == 1 and tr[0][2] == "true":
                    n_tr += 1
                    ctx.check(p.end != "stop", "C20-b", cf.key, "the scan stops at the first referenced entry",
                              "when it meets an entry that is still referenced, can_free continues with the next entry instead of stopping: "
                              "evict(n) pops the n OLDEST entries, so the referenced entry is evicted while an unacknowledged section still "
                              "needs it", "", None, p.describe())
        ctx.floor("C20-b", "iterations meeting a referenced entry", n_tr, 1)
    it = ru.need(ctx, "C20-b", D + "is_tracked")
    if it:
        ps = [p for p in ru.all_paths(ctx, "C20-b", it) if p.end == "return"]
        tr = [p for p in ps if expr.fold(p.ret) == 1 or pa.vfmt(p.ret) in ("true", "const true")]
        ok = bool(tr)
        for p in tr:
            nf = [expr.cmp_nf(t[3], t[2]) for t in p.tests]
            nf = [x for x in nf if x and expr.fold(x[2]) == 0]
            ok = ok and any(x[1] == ">" for x in nf) and p.has_call("HashMap<K, V, S>::get", "::get")
        ctx.check(ok, "C20-b", it.key, "tracked = reference count present and > 0", "is_tracked does not test `count > 0` of the tracked map", "")

    # every dynamic-table index the encoder hands out for a field section is recorded as a reference (track_ref) on the same
    # path: an untracked reference is invisible to can_free, and the entry can be evicted while the section is unacknowledged
    DE = "h3::qpack::dynamic::DynamicTableEncoder::"
    REFS = {"Relative": 1, "PostBase": 1, "Inserted": 1, "InsertedWithStaticNameRef": 1, "InsertedWithNameRef": 2, "Duplicated": 2}
    n_ref = 0
    for key in (DE + "lookup_result", DE + "insert"):
        b = ru.need(ctx, "C20-b", key)
        if not b:
            continue
        for p in [p for p in ru.all_paths(ctx, "C20-b", b, max_visits=1) if p.end == "return"]:
            r = p.ret
            while r is not None and r[0] == "agg" and r[2] in ("Ok", "Some") and r[3]:
                r = r[3][0]
            if r is None or r[0] != "agg" or r[2] not in REFS:
                continue
            n_ref += 1
            names = [f_["name"] for v_ in prog.adts[r[1]]["variants"] if v_["name"] == r[2] for f_ in v_["fields"]]
            fld = dict(zip(names, r[3]))
            tracked = [e[3][1] for e in p.calls(DE + "track_ref")]
            ok = fld.get("absolute") in tracked and len(tracked) >= REFS[r[2]]
            ctx.check(ok, "C20-b", key, "%s: every index handed out is tracked (%d reference%s)" % (r[2], REFS[r[2]], "s" if REFS[r[2]] > 1 else ""),
                      "%s returns %s with absolute index %s but tracks %s on that path: the reference is not counted, so the entry may be evicted "
                      "while the field section that uses it is still unacknowledged (the late section then fails or mis-decodes)"
                      % (key.rsplit("::", 1)[-1], r[2], pa.vfmt(fld.get("absolute"))[:60] if fld.get("absolute") else "?", [pa.vfmt(t)[:50] for t in tracked]), "", None, p.describe())
    ctx.floor("C20-b", "encoder results carrying a dynamic index", n_ref, 6)

    # the field section's required reference: a representation that points into the dynamic table reports the absolute index it
    # depends on (the Required Insert Count is computed from these); only static / literal representations report none
    ef = ru.need(ctx, "C20-b", "h3::qpack::encoder::Encoder::encode_field")
    if ef:
        DYN = ("Relative", "PostBase", "Duplicated", "Inserted", "InsertedWithNameRef", "InsertedWithStaticNameRef")
        n_dyn = n_none = 0
        for p in [p for p in ru.all_paths(ctx, "C20-b", ef, max_visits=1) if p.end == "return" and p.ret_shape().startswith("Ok(")]:
            labs = [t[2] for t in p.tests if t[3][0] == "discr" and t[2] not in ("Continue", "Break")]
            last = labs[-1] if labs else None
            rv = pa.vfmt(p.ret)
            if last in DYN:
                n_dyn += 1
                ok = rv.startswith("Ok(Some(") and rv.endswith(".absolute))") and ("<%s>" % last) in rv
                ctx.check(ok, "C20-b", ef.key, "%s: the section depends on that entry's absolute index" % last,
                          "encode_field writes a %s representation but reports %s as the reference the section requires: the Required Insert Count is "
                          "understated and the decoder reads the section before the entry exists (or rejects the post-base index)" % (last, rv[:90]), "", None, p.describe())
            else:
                n_none += 1
                ctx.check(rv == "Ok(None())", "C20-b", ef.key, "%s: no dynamic reference reported" % (last or "static hit"),
                          "encode_field reports %s for a representation without a dynamic reference (%s)" % (rv[:80], last), "", None, p.describe())
        ctx.floor("C20-b", "dynamic-reference results of encode_field", n_dyn, 6)
        ctx.floor("C20-b", "reference-free results of encode_field", n_none, 3)
    # eviction drops an entry from BOTH lookup maps (each when its stored index is the evicted one): a stale index left in either
    # map is handed out later for a field the table no longer holds
    ev = ru.need(ctx, "C20-b", D + "evict")
    if ev:
        heads_ = ev.loop_heads()
        ex_ = pa.Explorer(prog, ev, max_visits=1)
        n_it = 0
        for h_ in heads_:
            for p in ex_.paths(start=h_, stop_at=heads_):
                if p.end != "stop":
                    continue
                n_it += 1
                maps = [pa.vfmt(e[3][0]).rsplit(".", 1)[-1] for e in p.calls("HashMap<K, V, S>::entry", "::entry")]
                ctx.check(sorted(maps) == ["field_map", "name_map"], "C20-b", ev.key, "every evicted entry is looked up in both maps",
                          "an iteration of evict consults %s only: the other map keeps an index of the evicted entry" % maps, "", None, p.describe())
        ctx.floor("C20-b", "iterations of evict", n_it, 4)

    # encoder-stream instructions are applied one by one, each before the next is parsed: Duplicate and name-reference inserts are
    # resolved against the table AT PARSE TIME (parse_instruction reads self.table), so an instruction may depend on the one before it
    oer = ru.need(ctx, "C20-c", "h3::qpack::decoder::Decoder::on_encoder_recv")
    if oer:
        heads_o = oer.loop_heads()
        ex_o = pa.Explorer(prog, oer, max_visits=1)
        n_app = 0
        for h_ in heads_o:
            for p in ex_o.paths(start=h_, stop_at=heads_o):
                oc = p.outcomes("Decoder::parse_instruction")
                if oc[:2] != ["Ok", "Some"]:
                    continue
                n_app += 1
                applied = [e[2].cname for e in p.calls(D + "DynamicTableDecoder::put", D + "DynamicTableDecoder::set_max_size", "::put", "::set_max_size")
                           if (e[2].ckey or "").startswith("h3::qpack::dynamic")]
                ctx.check(bool(applied), "C20-c", oer.key, "a parsed instruction is applied before the next one is parsed (%s)" % "/".join(oc[2:3]),
                          "an iteration of on_encoder_recv parses an instruction (%s) without applying it to the table in the same iteration: the next "
                          "instruction's references are then resolved against a table that lacks it (BadRelativeIndex, or another entry's field)"
                          % "/".join(oc[2:3]), "", None, p.describe())
        ctx.floor("C20-c", "instruction-applying iterations of on_encoder_recv", n_app, 2)
        ctx.check(len(heads_o) == 1, "C20-c", oer.key, "one loop parses and applies", "on_encoder_recv has %d loops" % len(heads_o), "")

    # ------------------------------------------------------------ C20-c
    first_byte_table(ctx, "C20-c", Q + "stream::EncoderInstruction::decode",
                     {k: v["first_byte"] for k, v in WIRE["encoder_instructions"].items()},
                     {"insert_with_name_ref": "InsertWithNameRef", "insert_with_literal_name": "InsertWithoutNameRef",
                      "set_dynamic_table_capacity": "DynamicTableSizeUpdate", "duplicate": "Duplicate"})
    first_byte_table(ctx, "C20-c", Q + "stream::DecoderInstruction::decode",
                     {k: v["first_byte"] for k, v in WIRE["decoder_instructions"].items()},
                     {"section_acknowledgment": "HeaderAck", "stream_cancellation": "StreamCancel",
                      "insert_count_increment": "InsertCountIncrement"})
    # (type, prefix bits, {variant: flags}, accepted-if)   flags = the bits above the prefix integer
    ints = [
        ("InsertWithNameRef", 6, {"Static": 0b11, "Dynamic": 0b10}),
        ("Duplicate", 5, {None: 0b000}),
        ("DynamicTableSizeUpdate", 5, {None: 0b001}),
        ("InsertCountIncrement", 6, {None: 0b00}),
        ("HeaderAck", 7, {None: 0b1}),
        ("StreamCancel", 6, {None: 0b01}),
    ]
    for name, bits, variants in ints:
        dec = ru.need(ctx, "C20-c", "%sstream::%s::decode" % (Q, name))
        enc = ru.need(ctx, "C20-c", "%sstream::%s::encode" % (Q, name))
        if not dec or not enc:
            continue
        dps = [p for p in ru.all_paths(ctx, "C20-c", dec) if p.end == "return"]
        eps = [p for p in ru.all_paths(ctx, "C20-c", enc) if p.end == "return"]
        dsz = {expr.fold(e[3][0]) for p in dps for e in p.calls(PI_DEC)}
        ctx.check(dsz == {bits}, "C20-c", dec.key, "prefix size %d" % bits,
                  "%s::decode reads a %s-bit prefix, RFC 9204 says %d" % (name, sorted(dsz), bits), str(bits))
        for var, flags in variants.items():
            cand = [p for p in eps if (var is None or any(t[2] == var for t in p.tests)) and not p.ret_shape().startswith("Residual")]
            got = {(expr.fold(e[3][0]), expr.fold(e[3][1])) for p in cand for e in p.calls(PI_ENC)}
            ctx.check(got == {(bits, flags)}, "C20-c", enc.key, "%s writes (size %d, flags %s)" % (var or name, bits, bin(flags)),
                      "%s::encode writes (size, flags) = %s for %s, RFC 9204 requires (%d, %s)" % (name, sorted(got), var or name, bits, bin(flags)),
                      "(%d, %s)" % (bits, bin(flags)))
        nflags = 1 << (8 - bits)
        accepted = {}
        for fv in range(nflags):
            hit = {p.ret_shape() for p in expr.decide(dps, consts, flags_subst(PI_DEC, fv)) if p.ret_shape().startswith("Ok(Some")}
            if hit:
                accepted[fv] = sorted(hit)
        for var, flags in variants.items():
            got = accepted.get(flags, [])
            want = ("static" if var == "Static" else "dynamic" if var == "Dynamic" else name).lower()
            ctx.check(len(got) == 1 and want in got[0].lower(), "C20-c", dec.key, "flags %s decode to %s" % (bin(flags), var or name),
                      "with the encoder's flags %s the decoder's decision list yields %s" % (bin(flags), got), str(got))
        extra = sorted(set(accepted) - set(variants.values()))
        ctx.check(not extra, "C20-c", dec.key, "no other flag pattern accepted",
                  "%s::decode accepts flag values %s outside RFC 9204's pattern" % (name, [bin(x) for x in extra]),
                  "accepted: %s" % sorted(bin(k) for k in accepted))
    # insert with literal name: 01 H + 5-bit name length, then 7-bit value
    dec = ru.need(ctx, "C20-c", Q + "stream::InsertWithoutNameRef::decode")
    enc = ru.need(ctx, "C20-c", Q + "stream::InsertWithoutNameRef::encode")
    if dec and enc:
        dps = [p for p in ru.all_paths(ctx, "C20-c", dec) if p.end == "return" and p.ret_shape().startswith("Ok(Some")]
        eps = [p for p in ru.all_paths(ctx, "C20-c", enc) if p.end == "return" and p.ret_shape().startswith("Ok")]
        dsz = [[expr.fold(e[3][0]) for e in p.calls(PS_DEC)] for p in dps]
        esz = [[(expr.fold(e[3][0]), expr.fold(e[3][1])) for e in p.calls(PS_ENC)] for p in eps]
        ctx.check(dsz == [[6, 8]], "C20-c", dec.key, "name string 5-bit length + H at bit 5; value 7-bit",
                  "InsertWithoutNameRef::decode reads string sizes %s, expected [6, 8]" % dsz, "[6, 8]")
        ctx.check(esz == [[(6, 0b01), (8, 0)]], "C20-c", enc.key, "writes 01 H xxxxx then the value",
                  "InsertWithoutNameRef::encode writes %s, expected [(6, 0b01), (8, 0)]" % esz, str(esz))
    for side, callee in (("decode", PS_DEC), ("encode", PS_ENC)):
        b = prog.one("%sstream::InsertWithNameRef::%s" % (Q, side))
        if b:
            sz = {expr.fold(e[3][0]) for p in ru.all_paths(ctx, "C20-c", b) for e in p.calls(callee)}
            ctx.check(sz == {8}, "C20-c", b.key, "value string uses a 7-bit length with H at bit 7",
                      "InsertWithNameRef::%s uses string prefix sizes %s" % (side, sorted(sz)), "8")
    # ------------------------------------------------------------ C20-d section prefix: get() inverts new() (sibling agreement, small domain)
    g = ru.need(ctx, "C20-d", Q + "block::HeaderPrefix::get")
    nw = ru.need(ctx, "C20-d", Q + "block::HeaderPrefix::new")
    if g and nw:
        gps = [p for p in ru.all_paths(ctx, "C20-d", g) if p.end == "return"]
        nps = [p for p in ru.all_paths(ctx, "C20-d", nw) if p.end == "return"]

        def ev_new(required, base, total, size):
            def sub(v):
                for i, x in ((1, required), (2, base), (3, total), (4, size)):
                    if v == ("param", i, ()):
                        return x
                return None
            outs = set()
            for p in expr.decide(nps, consts, sub):
                r = p.ret
                if r[0] == "agg" and len(r[3]) == 3:
                    outs.add(tuple(expr.fold(x, consts, sub) for x in r[3]))
                else:
                    outs.add(None)
            return outs

        def ev_get(enc, sign, delta, total, size):
            def sub(v):
                if v[0] == "param" and v[1] == 1:
                    nm = "".join(v[2])
                    return {".encoded_insert_count": enc, ".sign_negative": sign, ".delta_base": delta}.get(nm)
                if v == ("param", 2, ()):
                    return total
                if v == ("param", 3, ()):
                    return size
                return None
            outs = set()
            for p in expr.decide(gps, consts, sub):
                if p.ret_shape().startswith("Ok") and p.ret[3] and p.ret[3][0][0] == "agg":
                    outs.add(tuple(expr.fold(x, consts, sub) for x in p.ret[3][0][3]))
                else:
                    outs.add("err")
            return outs

        def rfc_ric(enc, total, maxe):
            # RFC 9204 4.5.1.1 reconstruction of the Required Insert Count
            full = 2 * maxe
            if enc == 0:
                return 0
            if enc > full:
                return "err"
            maxv = total + maxe
            r = (maxv // full) * full + enc - 1
            if r > maxv:
                if r <= full:
                    return "err"
                r -= full
            return "err" if r == 0 else r
        bad, n = [], 0
        for maxe in (1, 2, 3, 4):
            size = 32 * maxe
            for enc_total in range(1, 9):
                for required in range(max(1, enc_total - maxe + 1), enc_total + 1):
                    for base in sorted({0, required - 1, required, required + 1, enc_total} - {-1}):
                        pre = ev_new(required, base, enc_total, size)
                        if len(pre) != 1 or None in pre or None in next(iter(pre)):
                            bad.append(("new", maxe, enc_total, required, base, pre))
                            continue
                        enc, sign, delta = next(iter(pre))
                        for dec_total in range(max(0, required - maxe), required + maxe):
                            n += 1
                            got = ev_get(enc, sign, delta, dec_total, size)
                            if got != {(required, base)}:
                                bad.append(("get", maxe, "decoder has %d inserts" % dec_total, "required %d base %d" % (required, base), "prefix %s" % ((enc, sign, delta),), got))
        ctx.check(not bad, "C20-d", g.key, "section prefix decoded by get() = what new() encoded, for every small table state (%d cases)" % n,
                  "HeaderPrefix::get does not invert HeaderPrefix::new: %d of %d cases differ, e.g. %s - a header block that overtakes (or lags) its "
                  "encoder instructions is decoded against the wrong entries instead of being recognised as blocked" % (len(bad), n, bad[:2]),
                  "%d round trips over max_entries 1..4" % n)
        badr, m = [], 0
        for maxe in (1, 2, 3, 4):
            for total in range(0, 12):
                for enc in range(0, 2 * maxe + 1):
                    want = rfc_ric(enc, total, maxe)
                    if want == "err":
                        continue
                    m += 1
                    got = ev_get(enc, 0, 0, total, 32 * maxe)
                    if {x[0] if x != "err" else x for x in got} != {want}:
                        badr.append((maxe, total, enc, got, want))
        ctx.check(not badr, "C20-d", g.key, "Required Insert Count reconstruction = RFC 9204 4.5.1.1 on every valid encoding (%d cases)" % m,
                  "reconstruction differs from RFC 9204 4.5.1.1 for (max_entries, total inserts, encoded count) = %s" % badr[:3], "%d cases" % m)
    # ------------------------------------------------------------ C20-c a decoder instruction is consumed only when it was read completely
    ap = ru.need(ctx, "C20-c", Q + "encoder::Action::parse")
    if ap:
        nadv = 0
        for p in [p for p in ru.all_paths(ctx, "C20-c", ap, max_visits=1) if p.end == "return"]:
            if not p.calls("::advance"):
                continue
            nadv += 1
            st_ = [t for t in p.tests if (t[3][0] == "call" and pa.short(t[3][1]) in ("is_some", "is_none")) or (t[3][0] == "discr" and t[2] in ("Some", "None") and "branch" not in t[1])]
            whole = bool(st_) and ((st_[-1][3][0] == "call" and ((pa.short(st_[-1][3][1]) == "is_some") == (st_[-1][2] == "true"))) or (st_[-1][3][0] == "discr" and st_[-1][2] == "Some"))
            ctx.check(whole, "C20-c", ap.key, "the decoder-stream buffer is advanced only past a completely parsed instruction",
                      "Action::parse advances the receive buffer on a path that did not find an instruction (Some): the first bytes of an instruction "
                      "that arrives in two pieces are thrown away and its rest is read as another instruction (e.g. a Section Acknowledgment's tail "
                      "as a Stream Cancellation)", "", None, p.describe())
        ctx.floor("C20-c", "consuming paths of Action::parse", nadv, 3)
    # what a duplicated entry is announced with: the Duplicate instruction names the existing entry by its RELATIVE index (encoder stream,
    # RFC 9204 4.3.4), the field line refers to the new copy by its POST-BASE index - the two numbers come from those two fields
    ef = prog.one(Q + "encoder::Encoder::encode_field")
    if ef:
        ndup = 0
        for p in ru.all_paths(ctx, "C20-b", ef, max_visits=1):
            for e in p.events:
                if e[0] != "call" or e[2].cname != "encode" or not e[3] or e[3][0][0] != "agg":
                    continue
                a = e[3][0]
                nm = a[1].rsplit("::", 1)[-1]
                if nm not in ("Duplicate", "IndexedWithPostBase") or not a[3] or "<Duplicated>" not in pa.vfmt(a[3][0]):
                    continue
                ndup += 1
                want = "relative" if nm == "Duplicate" else "postbase"
                ctx.check(pa.vfmt(a[3][0]).endswith("<Duplicated>." + want), "C20-b", ef.key, "%s carries the duplicated entry's %s index" % (nm, want),
                          "encode_field writes %s(%s): the decoder copies, or the field line names, another entry than the encoder means and the two "
                          "tables diverge" % (nm, pa.vfmt(a[3][0])[-40:]), "", None, p.describe())
        ctx.floor("C20-b", "instructions written for a duplicated entry", ndup, 2)
    # ------------------------------------------------------------ C20-d index translation: sibling agreement over small table states
    # RFC 9204 3.2.5: a relative index in an encoder instruction counts back from the insertion point, i.e. it is the relative index
    # under Base = number of insertions. `relative(i)` and `relative_base(inserted, i)` are two implementations of that one mapping and
    # must agree (result and refusal) for every small state (inserted, dropped, index); evaluated on the extracted expressions
    V = Q + "vas::VirtualAddressSpace::"

    def ev_vas(name, st, args, depth=0):
        body_ = prog.one(V + name)
        if body_ is None or depth > 3:
            return None

        def sub(v):
            if v[0] == "param" and v[1] == 1 and len(v[2]) == 1 and v[2][0].lstrip(".") in st:
                return st[v[2][0].lstrip(".")]
            if v[0] == "param" and v[1] >= 2 and not v[2] and v[1] - 2 < len(args):
                return args[v[1] - 2]
            if v[0] == "call" and v[1].startswith(V) and v[2] and v[2][0][0] == "param" and v[2][0][1] == 1:
                inner = [expr.fold(a, consts, sub) for a in v[2][1:]]
                if None in inner:
                    return None
                r_ = ev_vas(pa.short(v[1]), st, inner, depth + 1)
                return r_ if isinstance(r_, int) else None
            return None
        outs = set()
        for p in expr.decide([p for p in ru.all_paths(ctx, "C20-d", body_) if p.end == "return"], consts, sub):
            if any(expr.test_holds(t, consts, sub) is None for t in p.tests if t[3][0] != "discr"):
                return None
            r_ = p.ret
            if r_ is not None and r_[0] == "call" and r_[1].startswith(V):
                inner = [expr.fold(a, consts, sub) for a in r_[2][1:]]
                outs.add(None if None in inner else ev_vas(pa.short(r_[1]), st, inner, depth + 1))
            elif p.ret_shape().startswith("Err("):
                outs.add("Err")
            elif r_ is not None and r_[0] == "agg" and r_[2] == "Ok":
                outs.add(("Ok", expr.fold(r_[3][0], consts, sub)))
            else:
                outs.add(expr.fold(r_, consts, sub) if r_ is not None else None)
        return next(iter(outs)) if len(outs) == 1 else None
    if ru.need(ctx, "C20-d", V + "relative") and ru.need(ctx, "C20-d", V + "relative_base"):
        bad = []
        nst = 0
        for ins in range(0, 6):
            for drp in range(0, ins + 1):
                st = {"inserted": ins, "dropped": drp, "delta": ins - drp}
                for i in range(0, 7):
                    nst += 1
                    a_, b_ = ev_vas("relative", st, [i]), ev_vas("relative_base", st, [ins, i])
                    want = ("Ok", ins - drp - i - 1) if (ins - drp > 0 and i < ins - drp) else "Err"
                    if a_ is None or b_ is None or a_ != b_ or a_ != want:
                        bad.append((ins, drp, i, a_, b_, want))
        ctx.check(not bad, "C20-d", V + "relative", "relative(i) = relative_base(inserted, i) = position of the i-th newest live entry",
                  "for (inserted, dropped, index) the two translations give (relative, relative_base(inserted, ..), expected) = %s (None: could not be "
                  "evaluated): after an eviction an encoder instruction that names an entry by relative index (Duplicate, insert with name "
                  "reference) is resolved against another entry" % [(x[:3], x[3:]) for x in bad[:3]], "%d states" % nst)
    ctx.assume("C20 is claimed for these structural clauses only; agreement of the two tables over long histories is not decided")
