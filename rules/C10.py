"""C10 Field-section size limit is enforced exactly, in both directions."""
from engine import flow as fl, ru, paths as pa, expr, dispatch as dp
from engine.mir import Place

EXPLANATION = (
    "Comparison normal forms, def-use provenance and outcome tables at every site of the RFC 9114 4.2.2 limit: (a) "
    "HeaderField::mem_size is name.len() + value.len() + 32 (evaluated constant) and both stateless codecs add mem_size() "
    "of every field on every iteration that does not leave through an error; (b) the refusal is taken exactly on `size > "
    "limit` at the four sites (decode_stateless, send_request, send_response, send_trailers); the receive-side limit "
    "originates from the handle's local max_field_section_size field, the send-side limit from the peer's "
    "settings().max_field_section_size read after the last suspension point before the write, and the comparison "
    "precedes the write of the HEADERS frame; (c) settings() falls back to Settings::default() whose limit is "
    "VarInt::MAX, and every struct field named max_field_section_size is initialised by pure flow from the builder's "
    "value; (d) header-too-long outcomes are never connection-fatal: the server answers 431 through send_response, the "
    "client sends STOP_SENDING(H3_REQUEST_CANCELLED) for responses and trailers. The arithmetic inside len() is trusted.")
# every anchor of these rules lives in the h3 crate: thorough tier repeats them on the feature-less build
EXTRA_CONFIGS = ["h3-plain"]
RULES = "C10-a size accounting (A4/A6); C10-b comparisons and limit provenance (A5/A4/A2), control stream processed before a request is handed out (A2); C10-c defaults and local-limit flow, both builders store the configured value unconditionally (A4/A11/A2); C10-d outcomes (A3); shared through a proxy: C13-d under C10-c; C13-a (receive mapping) under C10-c"

Q = "h3::qpack::"
WRITE = "h3::stream::write"
SETTINGS = "h3::shared_state::ConnectionState::settings"
ENC = Q + "encoder::encode_stateless"


def run(ctx):
    prog = ctx.prog
    consts = prog.consts
    # ------------------------------------------------------------------ C10-a
    ms = ru.need(ctx, "C10-a", Q + "field::HeaderField::mem_size")
    if ms:
        ps = [p for p in ru.all_paths(ctx, "C10-a", ms) if p.end == "return"]
        ok = len(ps) == 1
        terms = []

        def flat(v):
            while v[0] == "proj" and tuple(n.lstrip(".") for n in v[2]) == ("0",):
                v = v[1]
            if v[0] == "binop" and v[1].startswith("Add"):
                flat(v[2])
                flat(v[3])
            else:
                terms.append(v)
        if ok:
            flat(ps[0].ret)
        lens = sorted(pa.vfmt(t) for t in terms if t[0] == "call" and pa.short(t[1]) == "len")
        cs = [expr.fold(t, consts) for t in terms if expr.fold(t, consts) is not None]
        ok = ok and len(terms) == 3 and len(lens) == 2 and "name" in lens[0] + lens[1] and "value" in lens[0] + lens[1] and cs == [32]
        ctx.check(ok, "C10-a", ms.key, "size = name.len() + value.len() + 32",
                  "HeaderField::mem_size computes %s; RFC 9114 4.2.2 / RFC 9204: name length + value length + 32" % [pa.vfmt(t) for t in terms],
                  "lens=%s const=%s" % (lens, cs))
    for key, rule_var in ((Q + "decoder::decode_stateless", "mem_size"), (ENC, "size")):
        b = ru.need(ctx, "C10-a", key)
        if not b:
            continue
        heads = b.loop_heads()
        ex = pa.Explorer(prog, b, max_visits=1)
        n = 0
        for h in heads:
            for p in ex.paths(start=h, stop_at=heads):
                if p.end != "stop":
                    continue
                n += 1
                # the running size is whichever local was updated to `<itself> + field.mem_size()` in this iteration (any name)
                val = None
                for l, v in p.env.items():
                    if expr.mentions(v, lambda x: x[0] == "call" and x[1] == Q + "field::HeaderField::mem_size") and \
                            expr.mentions(v, lambda x: x[0] == "binop" and x[1].startswith("Add")) and b.locals[l].get("user"):
                        val = v
                ok = val is not None
                labs = [lab for _, lab, _ in p.variant_tests("block::HeaderBlockField::decode", "static_::StaticTable::find", "static_::StaticTable::find_name")]
                ctx.check(ok, "C10-a", b.key, "every accepted field adds its mem_size (%s)" % "/".join(labs),
                          "an iteration that keeps a field (%s) does not add field.mem_size() to the running section size (value: %s): the "
                          "limit is checked against a size that omits such fields" % ("/".join(labs), pa.vfmt(val) if val else None), "", None, p.describe())
        ctx.floor("C10-a", "accepting iterations of " + key.rsplit("::", 1)[-1], n, 3)

    # ------------------------------------------------------------------ C10-b receive side
    ds = ru.need(ctx, "C10-b", Q + "decoder::decode_stateless")
    if ds:
        heads = ds.loop_heads()
        ex = pa.Explorer(prog, ds, max_visits=1)
        its = []
        for h in heads:
            its += ex.paths(start=h, stop_at=heads)

        def is_size(v):
            return expr.mentions(v, lambda x: x[0] == "call" and x[1] == Q + "field::HeaderField::mem_size")

        def is_limit(v):
            return v == ("param", 2, ())
        for p in its:
            rel = None
            for t in p.tests:
                nf = expr.cmp_nf(t[3], t[2])
                if nf and is_size(nf[0]) and is_limit(nf[2]):
                    rel = nf[1]
                elif nf and is_size(nf[2]) and is_limit(nf[0]):
                    rel = expr.SWAP[nf[1]]
            if p.end == "stop":
                ctx.check(rel == "<=", "C10-b", ds.key, "field kept only while size <= limit",
                          "a field is kept on a path where the running size is `%s` the limit (expected size <= max_size): sections are "
                          "accepted/refused at the wrong boundary" % rel, "", None, p.describe())
            elif p.end == "return" and p.ret_shape() == "Err(DecoderError::HeaderTooLong)":
                ctx.check(rel == ">", "C10-b", ds.key, "HeaderTooLong exactly when size > limit",
                          "HeaderTooLong is returned on `size %s limit`; RFC 9114 4.2.2: refuse only when the size exceeds the limit" % rel, "", None, p.describe())
        tl = [p for p in its if p.end == "return" and p.ret_shape() == "Err(DecoderError::HeaderTooLong)"]
        ctx.floor("C10-b", "HeaderTooLong returns", len(tl), 1)
    for body, bb, t in prog.callers_of(Q + "decoder::decode_stateless"):
        o = fl.Flow(body, prog).origin(t.args[1])
        ok = o[0] == "param" and o[2][-1:] == ("max_field_section_size",) and not ru.o_has_call(o, SETTINGS)
        ctx.check(ok, "C10-b", body.key, "receive limit = this endpoint's configured maximum",
                  "decode_stateless is given the limit %s; it must be the receiver's own configured max_field_section_size (not the peer's "
                  "advertised value)" % fl.fmt(o), fl.fmt(o), body.loc(t))

    # ------------------------------------------------------------------ C10-b send side
    send_sites = ["h3::client::connection::SendRequest::send_request::{closure#0}", "h3::server::stream::RequestStream::send_response::{closure#0}",
                  "h3::connection::RequestStream::send_trailers::{closure#0}"]
    for key in send_sites:
        b = ru.need(ctx, "C10-b", key)
        if not b:
            continue
        ps = ru.all_paths(ctx, "C10-b", b, max_visits=1)

        def is_size(v):
            return expr.mentions(v, lambda x: x[0] == "call" and x[1] == ENC)

        def is_peer(v):
            return expr.mentions(v, lambda x: x[0] == "call" and x[1] == SETTINGS) and "max_field_section_size" in pa.vfmt(v)

        def rel_of(p):
            rel = None
            for t in p.tests:
                nf = expr.cmp_nf(t[3], t[2])
                if nf and is_size(nf[0]) and is_peer(nf[2]):
                    rel = nf[1]
                elif nf and is_size(nf[2]) and is_peer(nf[0]):
                    rel = expr.SWAP[nf[1]]
            return rel
        wr = [p for p in ps if any(e[3][1][0] == "agg" and e[3][1][2] == "Headers" for e in p.calls(WRITE))]
        ctx.floor("C10-b", "paths writing HEADERS in " + key.split("::")[-2], len(wr), 1)
        for p in wr:
            rel = rel_of(p)
            ctx.check(rel == "<=", "C10-b", key, "HEADERS written only when size <= peer's limit",
                      "the HEADERS frame is written on a path where the section size is `%s` the peer's advertised limit (expected a "
                      "preceding `size > settings().max_field_section_size` test with the false outcome)" % rel, "", None, p.describe())
            # staleness: no suspension point between reading the peer's settings and starting the write
            # a suspension point = the poll of an awaited future (`.await` desugaring), whether or not this path saw it Pending
            def is_await(e):
                return e[0] == "yield" or (e[0] == "call" and e[2].cname == "poll" and "desugar:Await" in (e[2].mac or ""))
            ev = [(i, e) for i, e in enumerate(p.events) if (e[0] == "call" and (e[2].is_call(SETTINGS) or e[2].is_call(WRITE))) or is_await(e)]
            si = [i for i, e in ev if e[0] == "call" and e[2].is_call(SETTINGS)]
            wi = [i for i, e in ev if e[0] == "call" and e[2].is_call(WRITE) and e[3][1][0] == "agg" and e[3][1][2] == "Headers"]
            ok = bool(si) and bool(wi) and si[-1] < wi[0] and not [i for i, e in ev if is_await(e) and si[-1] < i < wi[0]]
            ctx.check(ok, "C10-b", key, "peer limit read after the last await before the write",
                      "the peer's limit is read before a suspension point that precedes the write: SETTINGS arriving while the call waits "
                      "(e.g. for a stream to open) are ignored and a section over the peer's advertised limit is sent", "", None, p.describe())
        big = [p for p in ps if p.end == "return" and p.ret_shape() == "Err(StreamError::HeaderTooBig)"]
        ctx.floor("C10-b", "HeaderTooBig returns in " + key.split("::")[-2], len(big), 1)
        for p in big:
            rel = rel_of(p)
            ok = rel == ">" and not p.calls(WRITE) and not p.has_call("handle_connection_error_on_stream")
            ctx.check(ok, "C10-b", key, "refused exactly when size > peer's limit, nothing written, not fatal",
                      "HeaderTooBig is returned on `size %s limit` (writes: %d)" % (rel, len(p.calls(WRITE))), "", None, p.describe())

    # ------------------------------------------------------------------ C10-c defaults and flow of the local limit
    st = ru.need(ctx, "C10-c", SETTINGS)
    if st:
        o = fl.ret_origin(prog, st)
        ok = ru.o_has_call(o, "alloc::borrow::Cow::unwrap_or_default", "::unwrap_or_default") and ru.o_has_call(o, "OnceLock::get", "::get")
        if not ok:
            # explicit form: Some(s) -> that value, None -> Settings::default()
            ps_ = [p for p in ru.all_paths(ctx, "C10-c", st, max_visits=1) if p.end == "return"]
            seen_ = set()
            ok = bool(ps_)
            for p in ps_:
                oc = p.outcomes("OnceLock<T>::get", "::get")
                seen_.add(tuple(oc[:1]))
                if oc[:1] == ["Some"]:
                    ok = ok and expr.mentions(p.ret, lambda v: v[0] == "proj" and "get@" in pa.vfmt(v) and "<Some>" in pa.vfmt(v))
                elif oc[:1] == ["None"]:
                    ok = ok and expr.mentions(p.ret, lambda v: v[0] == "call" and v[1].endswith("Default>::default") and "Settings" in v[1])
                else:
                    ok = False
            ok = ok and seen_ == {("Some",), ("None",)}
        ctx.check(ok, "C10-c", st.key, "peer settings or Settings::default()", "settings() returns %s" % fl.fmt(o)[:200], "")
    df = ru.need(ctx, "C10-c", "<h3::config::Settings as core::default::Default>::default")
    if df:
        f = fl.Flow(df, prog)
        ag = ru.aggregates(df, "h3::config::Settings")
        ok = len(ag) == 1
        v = None
        if ok:
            o = f.origin(ru.field_op(ag[0][1], "max_field_section_size"))
            v = expr.fold(("proj", o, ("0",)) if o[0] == "const" else o, consts)
            if v is None and o[0] == "proj":
                v = expr.fold(o, consts)
        ctx.check(ok and v == (1 << 62) - 1, "C10-c", df.key, "default limit is unlimited (VarInt::MAX)",
                  "the protocol default used before the peer's SETTINGS arrive is %s, RFC 9114 7.2.4.1: unlimited" % v, str(v))
    n = 0
    for b in prog.bodies:
        for bb, s in ru.aggregates(b):
            if not s.rv.fields or "max_field_section_size" not in s.rv.fields:
                continue
            if s.rv.adt == "h3::config::Settings":
                continue
            n += 1
            o = fl.Flow(b, prog).origin(ru.field_op(s, "max_field_section_size"))
            if b.name == "split" and "stream" in s.rv.fields:
                so = fl.Flow(b, prog).origin(ru.field_op(s, "stream"))
                if so[-1][-1:] == ("0",):
                    # the send half cannot receive (its stream type has no RecvStream impl): its limit is never consulted
                    ctx.ok("C10-c", b.key + ":send half of split (limit unused: no receive methods on a send-only stream)", fl.fmt(o), b.loc(s))
                    continue
            ok = o[0] == "param" and (o[2][-1:] == ("max_field_section_size",) or b.var_name(o[1]) == "max_field_section_size" or
                                      (len(o[2]) == 0 and "max_field_section_size" in [n_ for n_, pls in b.vars.items() for pl in pls if pl.key == (o[1], ())]))
            ctx.check(ok, "C10-c", b.key, "%s.max_field_section_size by pure flow" % s.rv.adt.rsplit("::", 1)[-1],
                      "%s builds %s with max_field_section_size = %s; the local limit must be handed on unchanged from the builder's value"
                      % (b.key, s.rv.adt, fl.fmt(o)), fl.fmt(o), b.loc(s))
    ctx.floor("C10-c", "handle constructions carrying the local limit", n, 8)
    # the limit the application configures is the limit: both builders store the value they are given on every path, whatever it is
    # (0 means `no field section is acceptable`, it is not `keep the default`)
    for bk in ("h3::server::builder::Builder::max_field_section_size", "h3::client::builder::Builder::max_field_section_size"):
        bb_ = ru.need(ctx, "C10-c", bk)
        if not bb_:
            continue
        for p in [p for p in ru.all_paths(ctx, "C10-c", bb_) if p.end == "return"]:
            st_ = [e for e in p.stores() if pa.vfmt(e[4]).endswith("max_field_section_size")]
            cond = [t for t in p.tests if expr.mentions(t[3], lambda n_: n_ == ("param", 2, ()))]
            ctx.check(len(st_) == 1 and st_[0][3] == ("param", 2, ()) and not cond, "C10-c", bk, "the configured value is stored as it is, on every path",
                      "%s %s: a configured limit is silently replaced or ignored for some values and the endpoint accepts field sections the "
                      "application excluded" % (bk.rsplit("::", 2)[-3] + " builder", ("stores %s" % [pa.vfmt(e[3])[:40] for e in st_]) if not cond else
                                                 "decides on the value first (%s)" % cond[0][1][:50]), "", None, p.describe())
    for b, bb, t in prog.callers_of("h3::connection::RequestStream::new"):
        o = fl.Flow(b, prog).origin(t.args[1])
        ok = o[0] == "param" and o[2][-1:] == ("max_field_section_size",)
        ctx.check(ok, "C10-c", b.key, "RequestStream::new(.., local limit, ..)", "RequestStream::new gets limit %s" % fl.fmt(o), fl.fmt(o), b.loc(t))

    # ------------------------------------------------------------------ C10-d outcomes
    rs = ru.need(ctx, "C10-d", "h3::server::request::ResolvedRequest::resolve::{closure#0}")
    if rs:
        ps = [p for p in ru.all_paths(ctx, "C10-d", rs, max_visits=1) if p.end == "return" and p.ret_shape() == "Err(StreamError::HeaderTooBig)"]
        ctx.floor("C10-d", "server header-too-big returns", len(ps), 1)
        for p in ps:
            sr = p.calls("h3::server::stream::RequestStream::send_response")
            ok = len(sr) == 1 and not p.has_call("handle_connection_error_on_stream")
            st_ = [e for e in p.calls("http::response::Builder::status", "::status")]
            code = pa.vfmt(st_[0][3][1]) if st_ else ""
            ctx.check(ok and "REQUEST_HEADER_FIELDS_TOO_LARGE" in code, "C10-d", rs.key, "server answers 431, no connection error",
                      "an oversized request leads to send_response calls=%d status=%s" % (len(sr), code), "", None, p.describe())
        res = [p for p in ru.all_paths(ctx, "C10-d", rs, max_visits=1) if p.end == "return" and p.ret_shape().startswith("Residual") and p.calls("send_response")]
        ctx.check(True, "C10-d", rs.key, "431 that cannot be sent is reported as that send's error", "", "%d paths" % len(res))
    aw = prog.one("h3::server::request::RequestResolver::accept_with_frame")
    if aw:
        ps = [p for p in ru.all_paths(ctx, "C10-d", aw) if p.end == "return"]
        tl = [p for p in ps if "HeaderTooLong" in [lab for names, lab, _ in p.variant_tests(Q + "decoder::decode_stateless")]]
        ctx.floor("C10-d", "server HeaderTooLong arm", len(tl), 1)
        for p in tl:
            ctx.check(p.ret_shape().startswith("Ok(") and not p.has_call("handle_connection_error_on_stream"), "C10-d", aw.key,
                      "too-long request is kept for the 431 answer, not fatal", "HeaderTooLong leads to %s" % p.ret_shape(), "")
    cr = ru.need(ctx, "C10-d", "h3::client::stream::RequestStream::recv_response::{closure#0}")
    if cr:
        ps = [p for p in ru.all_paths(ctx, "C10-d", cr, max_visits=1) if p.end == "return" and p.ret_shape() == "Err(StreamError::HeaderTooBig)"]
        ctx.floor("C10-d", "client header-too-big returns", len(ps), 1)
        for p in ps:
            ss = [e for e in p.calls("stop_sending")]
            codes = {c for u, c in p.code_uses()}
            ctx.check(len(ss) == 1 and codes == {"H3_REQUEST_CANCELLED"} and not p.has_call("handle_connection_error_on_stream"), "C10-d", cr.key,
                      "client: STOP_SENDING(H3_REQUEST_CANCELLED), no connection error", "oversized response: stop_sending=%d codes=%s" % (len(ss), sorted(codes)), "")
    ct = ru.need(ctx, "C10-d", "h3::client::stream::RequestStream::poll_recv_trailers")
    if ct:
        ps = [p for p in ru.all_paths(ctx, "C10-d", ct) if p.end == "return"]
        hb = [p for p in ps if "HeaderTooBig" in [t[2] for t in p.tests]]
        ctx.check(bool(hb) and all(p.has_call("stop_sending") and {c for u, c in p.code_uses()} == {"H3_REQUEST_CANCELLED"} for p in hb), "C10-d", ct.key,
                  "client trailers: STOP_SENDING(H3_REQUEST_CANCELLED)", "oversized trailers are not answered with STOP_SENDING(H3_REQUEST_CANCELLED)", "")
        ctx.check(all(pa.vfmt(p.ret).startswith("poll_recv_trailers@") for p in ps), "C10-d", ct.key, "result passed through unchanged",
                  "returns %s" % {pa.vfmt(p.ret)[:40] for p in ps}, "")
    tr = prog.one("h3::connection::RequestStream::poll_recv_trailers")
    if tr:
        ps = [p for p in ru.all_paths(ctx, "C10-d", tr, max_visits=1) if p.end == "return" and p.ret_shape() == "Ready(Err(StreamError::HeaderTooBig))"]
        ctx.check(bool(ps) and all(not p.has_call("handle_connection_error_on_stream") for p in ps), "C10-d", tr.key, "oversized trailers are not connection-fatal",
                  "HeaderTooBig trailers raise a connection error", "")
    # the limit a response is checked against is the peer's SETTINGS: what the control stream has delivered is processed BEFORE a
    # request is handed to the application (SETTINGS and the first request that arrive together: the response must already see the limit)
    sac = ru.need(ctx, "C10-b", "h3::server::connection::Connection::poll_accept_request_stream_internal")
    if sac:
        served = [p for p in ru.all_paths(ctx, "C10-b", sac, max_visits=1) if p.end == "return" and p.ret_shape().startswith("Ready(Ok(Some(")]
        ctx.floor("C10-b", "paths handing a request stream to the application", len(served), 1)
        for p in served:
            names = [e[2].cname for e in p.calls("h3::server::connection::Connection::poll_control", "h3::connection::ConnectionInner::poll_accept_bi")]
            ok = "poll_control" in names and "poll_accept_bi" in names and names.index("poll_control") < len(names) - 1 - names[::-1].index("poll_accept_bi")
            ctx.check(ok, "C10-b", sac.key, "control stream processed before a request is handed out",
                      "poll_accept_request_stream_internal returns a request stream on a path that had not processed the control stream first "
                      "(calls: %s): SETTINGS that arrived together with the request are not applied yet, and the response is checked against the "
                      "default (unlimited) field-section size instead of the peer's" % names, "", None, p.describe())
    ctx.assume("Vec/Cow len() report the byte lengths of name and value")
    # the peer's limit is whatever its SETTINGS frame said - every supported identifier is stored, whatever its value (C13-d)
    if not getattr(ctx, "nested", False):
        from rules import C13 as _c13, shared as _sh
        _c13.run(_sh.Proxy(ctx, ("C13-d",), "C10-c"))
        # .. and read back unchanged when it is turned into the peer's settings (C13-a, the receive mapping only)
        _c13.run(_sh.Proxy(ctx, ("C13-a",), "C10-c", only=("From<&h3::proto::frame::Settings>",)))
