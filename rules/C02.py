"""C02 Frame boundaries follow RFC 9114 7.1 (structural clauses)."""
from engine import flow as fl, ru, paths as pa, expr
from rules import shared

EXPLANATION = (
    "Path-table and def-use analysis of Frame::decode, FrameDecoder::decode, FrameStream::{poll_next,poll_data} and the "
    "error mappers: (a) every Ok return of a length-delimited frame passes a `no bytes left` test of the bounded payload "
    "reader; (b) no error raised after the bounded reader was created is FrameError::Incomplete (the `?` conversions are "
    "resolved to their From impls and map_err closures to what they build), so in-payload truncation is malformed, not "
    "waited on; (c) unknown frames are advanced over by exactly the decoded length and FrameDecoder loops after "
    "skipping them; (d) end of stream with buffered bytes is UnexpectedEnd in poll_next, and poll_data reports end of "
    "data only when the remaining length is 0 or in unbounded (WebTransport) mode; (e) the FrameError -> "
    "FrameProtocolError -> Code and FrameStreamError -> outcome tables equal RFC 9114's; (f) remaining_data and the "
    "decoder memo are written only by the audited functions, set from the decoded DATA length and decremented by the "
    "chunk handed out; the memo is cleared on every path that consumed bytes; (g) the bounded reader is created only "
    "after `remaining() >= len`. Independence from chunking beyond (g) (cursor arithmetic in buf.rs) is value-level "
    "and not decided.")
# every anchor of these rules lives in the h3 crate: thorough tier repeats them on the feature-less build
EXTRA_CONFIGS = ["h3-plain"]
RULES = "C02-a exact consumption; C02-b truncation malformed; C02-c unknown skipped; C02-d end of stream, who may read the transport's bare end-of-stream flag (A10); C02-e error tables; C02-f who writes segmentation state, push_bytes stores the whole transport buffer, every step of Cursor::advance moves the position by what it takes off the count; C02-b also: UnexpectedEnd -> Incomplete(bytes needed); C02-g completeness before decode, no verdict on the declared length alone; shared through a proxy: C16-a under C02-g, C03-trl/trl2 under C02-d, the Err rows of C03-srv/cli/body and of C04-a under C02-e"

FR = "h3::proto::frame::"
FS = "h3::frame::FrameStream::"
TAKE = "bytes::buf::buf_impl::Buf::take"


def on_take(v):
    return expr.mentions(v, lambda n: n[0] == "call" and n[1] == TAKE)


def run(ctx):
    prog = ctx.prog
    # the codes this property names are the registry values (the rules below speak of them by name)
    shared.error_code_values(ctx, "C02-e", ("H3_FRAME_ERROR", "H3_FRAME_UNEXPECTED"))
    consts = prog.consts
    dec = ru.need(ctx, "C02-a", FR + "Frame::decode")
    if dec:
        ps = ru.all_paths(ctx, "C02-a", dec)
        rets = [p for p in ps if p.end == "return"]
        typed = [p for p in rets if p.ret_shape().startswith("Ok(") and p.has_call(TAKE)]
        ctx.floor("C02-a", "Ok returns of length-delimited frames", len(typed), 6)
        for p in typed:
            name = p.ret_shape()[3:-1]
            left = [t for t in p.tests if t[3][0] == "call" and pa.short(t[3][1]) in ("has_remaining",) and on_take(t[3])]
            ok = any(t[2] == "false" for t in left)
            if not ok:
                # remaining() == 0 form
                for t in p.tests:
                    nf = expr.orient(expr.cmp_nf(t[3], t[2]), lambda v: v[0] == "call" and pa.short(v[1]) == "remaining" and on_take(v))
                    if nf and ((nf[1] == "==" and expr.fold(nf[2]) == 0) or (nf[1] == "<=" and expr.fold(nf[2]) == 0) or (nf[1] == "<" and expr.fold(nf[2]) == 1)):
                        ok = True
            how = "has_remaining(payload) == false"
            if not ok:
                tk = p.calls(TAKE)[0]
                # consumed by construction: copy_to_bytes(payload, len) with the reader's own limit
                for e in p.calls("copy_to_bytes"):
                    if on_take(e[3][0]) and e[3][1] == tk[3][1]:
                        ok, how = True, "copy_to_bytes(len) of the whole bounded reader"
                # or handed to a parser that only returns Ok once its input is empty
                for e in p.calls():
                    if ok or not e[3] or not on_take(e[3][0]) or e[2].ckey not in prog.by_key:
                        continue
                    cal = prog.one(e[2].ckey)
                    if cal is None:
                        continue
                    oks = [q for q in ru.all_paths(ctx, "C02-a", cal, max_visits=1) if q.end == "return" and q.ret_shape().startswith("Ok")]
                    if oks and all(any(t[3][0] == "call" and pa.short(t[3][1]) == "has_remaining" and t[2] == "false" and
                                       expr.mentions(t[3], lambda n: n == ("param", 1, ())) for t in q.tests) for q in oks):
                        ok, how = True, "%s returns Ok only when its input is exhausted" % pa.short(e[2].ckey)
            ctx.check(ok, "C02-a", dec.key, "%s accepted only when the payload is used up" % name,
                      "%s is returned Ok without checking that the length-bounded payload reader is empty: a payload longer than "
                      "the frame's fields is accepted and the trailing bytes are then read as the next frame header "
                      "(RFC 9114 7.1 requires H3_FRAME_ERROR)" % name, how, None, p.describe())
        # C02-b
        after = [p for p in rets if p.has_call(TAKE) and (p.ret_shape().startswith("Err") or p.ret_shape().startswith("Residual"))]
        ctx.floor("C02-b", "error returns after the payload reader exists", len(after), 8)
        for p in after:
            if p.ret_shape().startswith("Residual"):
                shapes, how = ru.residual_error_shapes(ctx, p)
            else:
                shapes, how = {p.ret_shape()[4:-1]}, "constructed"
            bad = [s for s in shapes if "Incomplete" in s or s.startswith("any:")]
            last = [e for e in p.calls() if not e[2].is_call("from_residual", "branch", "map_err")]
            where = pa.short(last[-1][2].ckey) if last else "?"
            ctx.check(not bad, "C02-b", dec.key, "error after %s via %s is not Incomplete" % (where, how.split("::")[-1][:40]),
                      "an error raised while reading inside the frame's declared length (after %s) is reported as %s via %s: "
                      "the decoder treats it as `wait for more bytes` although the whole payload is buffered, so a frame whose "
                      "payload is shorter than its fields is waited on forever instead of H3_FRAME_ERROR"
                      % (where, sorted(shapes), how), str(sorted(shapes)), None, p.describe())
        # C02-g
        for p in [p for p in rets if p.has_call(TAKE)][:40]:
            e = p.calls(TAKE)[0]
            ln = e[3][1]
            nf = [expr.orient(expr.cmp_nf(t[3], t[2]), lambda v: v[0] == "call" and pa.short(v[1]) == "remaining" and not on_take(v))
                  for t in p.tests if t[0] in p.blocks[:p.blocks.index(e[1]) + 1]]
            nf = [x for x in nf if x]
            ok = any(x[1] == ">=" and x[2] == ln for x in nf)
            if not ok:
                ctx.violation("C02-g", dec.key, "payload reader created only when remaining() >= len",
                              "the length-bounded reader is created on a path that has not established remaining() >= len "
                              "for the same len: a frame would be parsed from a prefix of its payload", None, p.describe())
                break
        else:
            ctx.ok("C02-g", dec.key + ":payload reader created only when remaining() >= len", "all %d paths" % len([p for p in rets if p.has_call(TAKE)]))
        inc = [p for p in rets if p.ret_shape() == "Err(FrameError::Incomplete)"]
        ctx.check(len(inc) >= 1 and all(not p.has_call(TAKE) for p in inc), "C02-g", dec.key, "short buffer -> Incomplete before any payload is read",
                  "no Incomplete return guarding the payload", "")
        data = [p for p in rets if p.ret_shape() == "Ok(Frame::Data)"]
        ctx.check(len(data) == 1 and not data[0].has_call(TAKE), "C02-g", dec.key, "DATA returns before the payload reader",
                  "DATA frame path: %s" % [p.ret_shape() for p in data], "")
        # before the payload reader exists nothing about the frame is known but its type and declared length: the only verdicts there are
        # `need more bytes`, the two unframed types (DATA, WebTransport stream) and errors reading the header itself. A refusal that
        # depends on the declared length alone (e.g. "too long for a SETTINGS frame") rejects valid frames - RFC 9114 sets no such limit
        early = [p for p in rets if not p.has_call(TAKE)]
        n_early = 0
        for p in early:
            sh = p.ret_shape()
            n_early += 1
            if sh in ("Err(FrameError::Incomplete)", "Ok(Frame::Data)", "Ok(Frame::WebTransportStream)"):
                continue
            if sh.startswith("Residual"):
                es, _ = ru.residual_error_shapes(ctx, p)
                okr = es <= {"FrameError::Incomplete", "FrameError::Malformed", "FrameError::InvalidFrameValue"} and \
                    any(pa.short(pa.source_call(t[3])[0] or "") in ("decode", "get_var", "get") for t in p.tests if t[2] in ("Break", "Err"))
                ctx.check(okr, "C02-g", dec.key, "before the payload: an error can only come from reading the frame header",
                          "Frame::decode fails with %s before the payload reader exists, not from reading the type/length varints" % sorted(es), "", None, p.describe())
                continue
            ctx.check(False, "C02-g", dec.key, "before the payload: only Incomplete / DATA / WebTransport stream may be answered",
                      "Frame::decode answers %s on a path that has not yet established that the payload is complete (tests: %s): a verdict that depends on "
                      "the declared length alone refuses well-formed frames" % (sh, [(t[1][:50], t[2]) for t in p.tests][-2:]), "", None, p.describe())
        ctx.floor("C02-g", "returns of Frame::decode before the payload reader", n_early, 3)
        # C02-c unknown arm
        unk = [p for p in rets if p.ret_shape() == "Err(FrameError::UnknownFrame)"]
        ctx.floor("C02-c", "unknown-frame paths", len(unk), 1)
        for p in unk:
            adv = [e for e in p.calls("::advance")]
            tk = p.calls(TAKE)
            ok = len(adv) == 1 and tk and adv[0][3][1] == tk[0][3][1] and on_take(adv[0][3][0])
            ctx.check(ok, "C02-c", dec.key, "unknown frame: payload.advance(len) with the decoded length",
                      "the unknown-frame arm advances by %s over %s; expected the bounded payload reader advanced by exactly the "
                      "decoded length" % ([pa.vfmt(e[3][1]) for e in adv], [pa.vfmt(e[3][0])[:40] for e in adv]), "", None, p.describe())

    # ---------------------------------------------------------------- FrameDecoder::decode
    fd = ru.need(ctx, "C02-c", "h3::frame::FrameDecoder::decode")
    if fd:
        heads = fd.loop_heads()
        ex = pa.Explorer(prog, fd, max_visits=1)
        its = []
        for h in heads:
            its += ex.paths(start=h, stop_at=heads)
        table = {}
        for p in its:
            vt = p.variant_tests(FR + "Frame::decode")
            top = [lab for names, lab, _ in vt if not names]
            errv = [lab for names, lab, _ in vt if names and names[0] == "<Err>"]
            key = (top[0] if top else "-", errv[0] if errv else "-")
            table.setdefault(key, []).append(p)
        # unknown: advance by cursor position, memo cleared, loop continues
        unk = table.get(("Err", "UnknownFrame"), [])
        ctx.floor("C02-c", "FrameDecoder unknown-frame iterations", len(unk), 1)
        for p in unk:
            adv = p.calls("h3::buf::BufList::advance", "::advance")
            ok = p.end == "stop" and len(adv) == 1 and (expr.mentions(adv[0][3][1], lambda n: n[0] == "call" and n[1].endswith("Cursor::position")) or
                                                           ("cursor@" in pa.vfmt(adv[0][3][1]) and pa.vfmt(adv[0][3][1]).endswith(".pos_total")))
            ctx.check(ok, "C02-c", fd.key, "unknown frame skipped in full, decoding continues",
                      "the UnknownFrame arm ends with %s / advances by %s; expected src.advance(cursor position) then `continue`"
                      % (p.end if p.end != "return" else p.ret_shape(), [pa.vfmt(e[3][1]) for e in adv]), "", None, p.describe())
        shared.frame_decoder_memo(ctx, "C02-f", its)
        # C02-e: error mapping FrameError -> FrameProtocolError
        want = {"InvalidStreamId": "InvalidStreamId", "InvalidPushId": "InvalidPushId", "Settings": "Settings",
                "UnsupportedFrame": "ForbiddenFrame", "InvalidFrameValue": "InvalidFrameValue", "Malformed": "Malformed"}
        for v, w in want.items():
            hit = table.get(("Err", v), [])
            shapes = {p.ret_shape() for p in hit}
            ctx.check(shapes == {"Err(FrameStreamError::Proto)"} and all(
                p.ret[3][0][3][0][2] == w for p in hit if p.ret[0] == "agg" and p.ret[3][0][0] == "agg" and p.ret[3][0][3] and p.ret[3][0][3][0][0] == "agg"),
                "C02-e", fd.key, "FrameError::%s -> Proto(%s)" % (v, w),
                "FrameError::%s is mapped to %s, expected Err(Proto(FrameProtocolError::%s))" % (v, sorted(shapes), w), "")
        inc = table.get(("Err", "Incomplete"), [])
        ctx.check(bool(inc) and all(p.ret_shape() == "Ok(None)" and not p.calls("::advance") for p in inc), "C02-e", fd.key,
                  "Incomplete -> Ok(None) without consuming", "Incomplete is mapped to %s" % {p.ret_shape() for p in inc}, "")
        okp = table.get(("Ok", "-"), [])
        ctx.check(bool(okp) and all(p.ret_shape().startswith("Ok(Some(") and p.calls("::advance") for p in okp), "C02-e", fd.key,
                  "Ok(frame) -> consumed and returned", "Ok frames lead to %s" % {p.ret_shape() for p in okp}, "")
        known = set(want) | {"Incomplete", "UnknownFrame"}
        allv = {v["name"] for v in prog.adts.get(FR + "FrameError", {}).get("variants", [])}
        ctx.check(allv == known, "C02-e", FR + "FrameError", "all variants tabled", "FrameError variants %s differ from the tabled %s"
                  % (sorted(allv), sorted(known)), "")
    # got_frame_error: FrameProtocolError -> Code
    g = ru.need(ctx, "C02-e", "h3::error::internal_error::InternalConnectionError::got_frame_error")
    if g:
        want = {"Malformed": "H3_FRAME_ERROR", "InvalidFrameValue": "H3_FRAME_ERROR", "ForbiddenFrame": "H3_FRAME_UNEXPECTED",
                "Settings": "H3_SETTINGS_ERROR", "InvalidStreamId": "H3_ID_ERROR", "InvalidPushId": "H3_ID_ERROR"}
        got = {}
        for p in [p for p in ru.all_paths(ctx, "C02-e", g) if p.end == "return"]:
            labs = [t[2] for t in p.tests if t[3][0] == "discr" and t[3][1] == ("param", 1, ())]
            code = None
            if p.ret[0] == "agg" and p.ret[3] and p.ret[3][0][0] == "const":
                code = str(p.ret[3][0][1]).rsplit("::", 1)[-1]
            for lab in (labs[0].split("|") if labs else ["?"]):
                got.setdefault(lab, set()).add(code)
        for v, c in want.items():
            ctx.check(got.get(v) == {c}, "C02-e", g.key, "%s -> %s" % (v, c),
                      "FrameProtocolError::%s is reported with code %s, RFC 9114 requires %s" % (v, got.get(v), c), c)
        ctx.check(set(got) == set(want), "C02-e", g.key, "all variants tabled", "variants handled: %s" % sorted(got), "")
    # FrameStreamError on request streams
    h = ru.need_re(ctx, "C02-e", r"HandleFrameStreamErrorOnRequestStream>::handle_frame_stream_error_on_request_stream$")
    if h:
        rows = {}
        for p in [p for p in ru.all_paths(ctx, "C02-e", h) if p.end == "return"]:
            labs = [t[2] for t in p.tests if t[3][0] == "discr" and t[3][1] == ("param", 2, ())]
            rows.setdefault(labs[0] if labs else "?", []).append(p)
        q = rows.get("Quic", [])
        ctx.check(len(q) == 1 and q[0].ret_shape() == "call:handle_quic_stream_error", "C02-e", h.key, "Quic(e) -> handle_quic_stream_error",
                  "Quic errors lead to %s" % [p.ret_shape() for p in q], "")
        q = rows.get("Proto", [])
        ok = len(q) == 1 and q[0].ret_shape() == "call:handle_connection_error_on_stream" and q[0].has_call("got_frame_error")
        ctx.check(ok, "C02-e", h.key, "Proto(e) -> connection error got_frame_error(e)", "Proto errors lead to %s" % [p.ret_shape() for p in q], "")
        q = rows.get("UnexpectedEnd", [])
        ok = len(q) == 1 and q[0].ret_shape() == "call:handle_connection_error_on_stream" and q[0].codes("new") == {"H3_FRAME_ERROR"}
        ctx.check(ok, "C02-e", h.key, "UnexpectedEnd -> connection error H3_FRAME_ERROR",
                  "UnexpectedEnd leads to %s with codes %s" % ([p.ret_shape() for p in q], [sorted(p.codes()) for p in q]), "")

    # ---------------------------------------------------------------- C02-d end of stream
    pn = ru.need(ctx, "C02-d", FS + "poll_next")
    if pn:
        ps = [p for p in ru.all_paths(ctx, "C02-d", pn, max_visits=1) if p.end == "return"]
        eos = []
        for p in ps:
            vt = p.variant_tests(FS + "try_recv")
            endtrue = any(t[3][0] != "discr" and pa.head_call(t[3])[0] == FS + "try_recv" and t[2] == "true" for t in p.tests)
            noframe = any(lab == "None" for _, lab, _ in p.variant_tests("h3::frame::FrameDecoder::decode"))
            if endtrue and noframe:
                eos.append(p)
        ctx.floor("C02-d", "end-of-stream paths of poll_next", len(eos), 2)
        for p in eos:
            hr = [t for t in p.tests if t[3][0] == "call" and pa.short(t[3][1]) == "has_remaining"]
            if hr and hr[-1][2] == "true":
                ctx.check(p.ret_shape() == "Ready(Err(FrameStreamError::UnexpectedEnd))", "C02-d", pn.key,
                          "end of stream with bytes left -> UnexpectedEnd",
                          "at end of stream with undecoded bytes buffered poll_next returns %s, expected Err(UnexpectedEnd)" % p.ret_shape(),
                          "", None, p.describe())
            elif hr:
                ctx.check(p.ret_shape() == "Ready(Ok(None))", "C02-d", pn.key, "end of stream, nothing buffered -> Ok(None)",
                          "returns %s" % p.ret_shape(), "")
            else:
                ctx.violation("C02-d", pn.key, "end of stream tests the buffer",
                              "an end-of-stream path returns %s without testing whether undecoded bytes remain" % p.ret_shape(), None, p.describe())
        # remaining_data set from the DATA length
        for p in ps:
            st = [e for e in p.stores() if "remaining_data" in pa.vfmt(e[4])]
            if p.ret_shape().startswith("Ready(Ok(Some(Frame::Data") or (p.ret_shape().startswith("Ready(Ok(Some(") and "Data" in [lab for _, lab, _ in p.variant_tests("h3::frame::FrameDecoder::decode")]):
                ok = len(st) == 1 and st[0][3][0] in ("proj", "param", "local") and "Data" in pa.vfmt(st[0][3])
                ctx.check(ok, "C02-f", pn.key, "remaining_data = decoded DATA length",
                          "on a DATA frame remaining_data is set to %s, expected the frame's decoded length unchanged" % [pa.vfmt(e[3]) for e in st], "")
    pd = ru.need(ctx, "C02-d", FS + "poll_data")
    if pd:
        ps = [p for p in ru.all_paths(ctx, "C02-d", pd) if p.end == "return"]
        nones = [p for p in ps if p.ret_shape() == "Ready(Ok(None))"]
        ctx.floor("C02-d", "end-of-data returns of poll_data", len(nones), 1)

        def is_rd(v):
            return v[0] == "param" and "".join(v[2]).endswith(".remaining_data")
        for p in nones:
            lo, hi, _ = expr.interval([(t[3], t[2]) for t in p.tests], is_rd, consts)
            umax = (1 << 64) - 1
            ok = (lo, hi) == (0, 0) or (lo == hi == umax) or any(
                expr.orient(expr.cmp_nf(t[3], t[2]), is_rd) and expr.orient(expr.cmp_nf(t[3], t[2]), is_rd)[1] == "==" and
                "usize::MAX" in pa.vfmt(expr.orient(expr.cmp_nf(t[3], t[2]), is_rd)[2]) for t in p.tests)
            ctx.check(ok, "C02-d", pd.key, "end of data only at remaining_data == 0 or in unbounded mode",
                      "poll_data reports end of data (Ok(None)) on a path where remaining_data is only known to be in [%s, %s]: a DATA "
                      "frame cut short by the end of the stream is accepted as complete" % (lo, hi), "", None, p.describe())
        somes = [p for p in ps if p.ret_shape().startswith("Ready(Ok(Some(")]
        for p in somes:
            st = [e for e in p.stores() if "remaining_data" in pa.vfmt(e[4])]
            ok = len(st) == 1
            if ok:
                v = st[0][3]
                while v[0] == "proj":
                    v = v[1]
                ok = v[0] == "binop" and v[1].startswith("Sub") and is_rd(v[2]) and v[3][0] == "call" and pa.short(v[3][1]) == "remaining"
            ctx.check(ok, "C02-f", pd.key, "remaining_data -= remaining() of the chunk handed out",
                      "when a chunk is returned remaining_data is updated as %s" % [pa.vfmt(e[3]) for e in st], "", None, p.describe())
        ctx.floor("C02-f", "chunk-returning paths of poll_data", len(somes), 1)
        tc = [e for p in ps for e in p.calls("take_chunk")]
        ctx.check(bool(tc) and all(is_rd(e[3][1]) for e in tc), "C02-f", pd.key, "chunks limited to remaining_data",
                  "take_chunk is called with %s" % {pa.vfmt(e[3][1]) for e in tc}, "")

    # ---------------------------------------------------------------- C02-f who writes
    writers = {}
    for b in prog.bodies:
        if "{" in b.key and "closure" not in b.key:
            continue
        for bb, i, s in b.all_stmts():
            if s.s == "assign" and s.place.proj:
                names = s.place.fields()
                if names and names[-1] == "remaining_data" and (s.place.adt or "") != "" or (names and names[-1] == "remaining_data"):
                    writers.setdefault("remaining_data", set()).add(b.key)
                if names and names[-1] == "expected" and "FrameDecoder" in (b.key + str(b.locals[s.place.local]["ty"])):
                    writers.setdefault("expected", set()).add(b.key)
        for bb, s in ru.aggregates(b, "h3::frame::FrameStream"):
            writers.setdefault("FrameStream{}", set()).add(b.key)
    allow_rd = {FS + "poll_next", FS + "poll_data"}
    ctx.check(writers.get("remaining_data", set()) <= allow_rd, "C02-f", "h3::frame::FrameStream.remaining_data", "who may write",
              "remaining_data is assigned in %s; audited writers are poll_next and poll_data"
              % sorted(writers.get("remaining_data", set()) - allow_rd), str(sorted(writers.get("remaining_data", set()))))
    allow_ctor = {FS + "new", FS + "split", FS + "with_bidi"}
    extra = {k for k in writers.get("FrameStream{}", set()) if k not in allow_ctor}
    ctx.check(not extra, "C02-f", "h3::frame::FrameStream", "who may construct", "FrameStream is constructed in %s" % sorted(extra),
              str(sorted(writers.get("FrameStream{}", set()))))
    # running out of bytes while a frame (or the session id behind a WebTransport signal) is being read means `wait for more`: the
    # conversion `?` applies to UnexpectedEnd yields Incomplete with the number of bytes needed, not a verdict
    ue = ru.need(ctx, "C02-b", "<h3::proto::frame::FrameError as core::convert::From<h3::proto::coding::UnexpectedEnd>>::from")
    if ue:
        ps_ = [p for p in ru.all_paths(ctx, "C02-b", ue) if p.end == "return"]
        ok = len(ps_) == 1 and ps_[0].ret_shape() == "FrameError::Incomplete" and ps_[0].ret[0] == "agg" and ps_[0].ret[3] and pa.vfmt(ps_[0].ret[3][0]).startswith("param_1")
        ctx.check(ok, "C02-b", ue.key, "UnexpectedEnd -> Incomplete(bytes needed)",
                  "the conversion yields %s: an identifier that is split over two chunks (e.g. the session id of a WebTransport bidirectional stream) "
                  "becomes a frame error instead of `need more bytes`" % [pa.vfmt(p.ret)[:50] for p in ps_], "")
    # the look-ahead cursor the frame decoder reads through (buf.rs Cursor over the chunk list): position() is what FrameDecoder later
    # consumes from the real buffer, so every step of advance() adds to pos_total exactly what it takes off the count (conservation):
    # crossing a chunk boundary adds the rest of that chunk and takes the same amount off; the last step adds what is left
    ca = ru.need(ctx, "C02-f", "<h3::buf::Cursor as bytes::buf::buf_impl::Buf>::advance")
    if ca:
        heads_ = ca.loop_heads()
        exc = pa.Explorer(prog, ca, max_visits=1)
        nstep = 0

        def addend(v, base):
            while v[0] == "proj" and tuple(n_.lstrip(".") for n_ in v[2]) == ("0",):
                v = v[1]
            if v[0] == "binop" and v[1].replace("WithOverflow", "") == "Add" and base in (v[2], v[3]):
                return v[3] if v[2] == base else v[2]
            return None

        def subtrahend(v, base):
            while v[0] == "proj" and tuple(n_.lstrip(".") for n_ in v[2]) == ("0",):
                v = v[1]
            if v[0] == "binop" and v[1].replace("WithOverflow", "") == "Sub" and v[2] == base:
                return v[3]
            return None
        for h_ in heads_:
            for p in exc.paths(start=h_, stop_at=heads_):
                tot = [e for e in p.stores() if pa.vfmt(e[4]).endswith(".pos_total")]
                if not tot:
                    continue
                nstep += 1
                x = addend(tot[-1][3], ("param", 1, ("pos_total",))) or addend(tot[-1][3], ("param", 1, (".pos_total",)))
                if p.end == "stop":
                    y = subtrahend(p.env.get(2, ("?",)), ("param", 2, ()))
                    ok = len(tot) == 1 and x is not None and y is not None and x == y
                    what = "a step that goes on adds %s to the position and takes %s off the count" % (pa.vfmt(x)[:50] if x else "?", pa.vfmt(y)[:50] if y else "?")
                else:
                    ok = len(tot) == 1 and x == ("param", 2, ())
                    what = "the last step adds %s to the position, the count left is %s" % (pa.vfmt(x)[:50] if x else "?", "param_2")
                ctx.check(ok, "C02-f", ca.key, "every step of Cursor::advance moves the position by what it takes off the count",
                          "%s: position() over- or under-counts what was read whenever one advance crosses a chunk boundary, and the frame decoder "
                          "then consumes the wrong number of bytes from the stream" % what, "", None, p.describe())
        ctx.floor("C02-f", "steps of Cursor::advance that move the position", nstep, 2)
    # what the transport delivers reaches the frame reader in full
    shared.push_bytes_takes_everything(ctx, "C02-f")
    # the transport's bare end-of-stream flag says nothing about frames that are buffered and not yet handed out: only the frame
    # reader combines it with the buffer (FrameStream::is_eos / try_recv); a verdict taken from the flag alone skips those frames
    eosc = sorted({c.key for c, bb, t in prog.callers_of("h3::stream::BufRecvStream::is_eos")})
    ctx.check(set(eosc) <= {"h3::frame::FrameStream::is_eos", "h3::frame::FrameStream::try_recv"} and bool(eosc), "C02-d", "h3::stream::BufRecvStream::is_eos",
              "who may read the transport's end-of-stream flag",
              "BufRecvStream::is_eos (the FIN flag, whatever is still buffered) is read in %s: outside the frame reader a decision taken from it "
              "skips the frames buffered behind an already-seen FIN (a truncated last frame is then not reported as H3_FRAME_ERROR)" % eosc, str(eosc))
    ctx.check(writers.get("expected", set()) <= {"h3::frame::FrameDecoder::decode"}, "C02-f", "h3::frame::FrameDecoder.expected", "who may write",
              "FrameDecoder.expected is assigned in %s" % sorted(writers.get("expected", set())), str(sorted(writers.get("expected", set()))))
    # constructors: new starts at 0, split's receive half keeps the state
    b = ru.need(ctx, "C02-f", FS + "new")
    if b:
        for bb, s in ru.aggregates(b, "h3::frame::FrameStream"):
            o = fl.Flow(b, prog).origin(ru.field_op(s, "remaining_data"))
            ctx.check(ru.const_int(o) == 0, "C02-f", b.key, "new stream starts with no data owed", "remaining_data starts at %s" % fl.fmt(o), "")
    b = ru.need(ctx, "C02-f", FS + "split")
    if b:
        f = fl.Flow(b, prog)
        recv = [s for bb, s in ru.aggregates(b, "h3::frame::FrameStream") if f.origin(ru.field_op(s, "stream"))[-1][-1:] == ("1",)]
        ctx.check(len(recv) == 1, "C02-f", b.key, "one receive half", "could not identify the receive half built by split()", "")
        for s in recv:
            for fld in ("decoder", "remaining_data"):
                o = f.origin(ru.field_op(s, fld))
                ctx.check(o == ("param", 1, (fld,)), "C02-f", b.key, "receive half keeps %s" % fld,
                          "split() gives the receive half %s = %s instead of self.%s: splitting in the middle of a DATA frame makes the "
                          "rest of the payload parse as frame headers" % (fld, fl.fmt(o), fld), fl.fmt(o), b.loc(s))
    ctx.assume("BufList/Cursor arithmetic (buf.rs) delivers the buffered bytes in order: value-level, not decided")
    # clauses of other properties that frame boundaries depend on (run through a filtering proxy, reported under this property):
    # the varint decoder every frame header goes through (C16-a) and the look-ahead for a frame behind the trailers (C03-trl2),
    # which is where a truncated last frame is either seen or silently accepted
    if not getattr(ctx, "nested", False):
        from rules import C03 as _c03, C16 as _c16
        _c16.run(shared.Proxy(ctx, ("C16-a",), "C02-g"))
        _c03.run(shared.Proxy(ctx, ("C03-trl",), "C02-d"))
        # a frame reader's error (truncated frame, malformed frame) reaches the error table from every place that reads frames
        # off a request stream: the Err rows of the C03 dispatch tables
        _c03.run(shared.Proxy(ctx, ("C03-srv", "C03-cli", "C03-body"), "C02-e", constructs=("Err ->", "Err and None rows")))
        # .. and on the control stream: the frame reader's error rows of the control dispatch table (C04-a)
        from rules import C04 as _c04
        _c04.run(shared.Proxy(ctx, ("C04-a",), "C02-e", constructs=("Err:",)))
