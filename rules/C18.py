"""C18 HTTP Datagrams carry their stream ID and payload unchanged (structural clauses)."""
from engine import flow as fl, ru, paths as pa
from rules import shared
from rules import C16 as _c16

EXPLANATION = (
    "Static def-use and path analysis of h3-datagram's Datagram::{encode,decode}, DatagramSender::send_datagram "
    "and DatagramReader::read_datagram on the MIR of the current tree: (a) the header array stored in the "
    "EncodedDatagram is the one VarInt::encode wrote and the varint is stream_id/4, len is that varint's size, "
    "payload is the caller's; (b) decode multiplies the decoded varint by the same constant, range-checks through "
    "StreamId::try_from, keeps the rest of the buffer as payload, and both failures carry H3_DATAGRAM_ERROR; "
    "(c) the reader reports decode failures connection-level. Decides these structural clauses, not the value-level "
    "round trip nor the EncodedDatagram chunk/advance arithmetic.")
RULES = "C18-a encode header flow; C18-b inverse constants + error code, the varint is decoded from the input buffer itself; C18-c reader error routing; C18-d sender uses its own stream id, the Quinn handler sends the whole encoded datagram; C18-e header/payload cursor of the encoded buffer (extracted-expression evaluation over small states); shared: varint form tables under C18-a; shared through a proxy: C16-a under C18-b"

DG = "h3_datagram::datagram::Datagram"
ENC = "h3_datagram::datagram::EncodedDatagram"
VARINT = "h3::proto::varint::VarInt"


def run(ctx):
    # the codes this property names are the registry values (the rules below speak of them by name)
    shared.error_code_values(ctx, "C18-b", ("H3_DATAGRAM_ERROR",))
    # the quarter stream id in front of every datagram is a varint: size() and encode() must agree with RFC 9000 (shared with C16)
    _c16.varint_form_tables(ctx, "C18-a")
    prog = ctx.prog
    # ---------------- C18-a
    enc = ru.need(ctx, "C18-a", DG + "::encode")
    div_const = None
    if enc:
        f = fl.Flow(enc, prog)
        aggs = ru.aggregates(enc, ENC)
        ctx.floor("C18-a", "EncodedDatagram constructions in encode", len(aggs), 1)
        for bb, s in aggs:
            loc = enc.loc(s)
            sid = ru.field_op(s, "stream_id")
            root = f.root_local(sid) if sid is not None else None
            writers = f.may_writers(root.local) if (root is not None and root.is_local()) else []
            wenc = [(b, t) for b, t in writers if t.is_call(VARINT + "::encode")]
            ok = bool(wenc)
            ctx.check(ok, "C18-a", enc.key, "EncodedDatagram.stream_id<-buffer written by VarInt::encode",
                      "the array stored in EncodedDatagram.stream_id (%s) is not a buffer that VarInt::encode wrote "
                      "(writers of that buffer: %s); the encoded quarter stream id never reaches the output"
                      % (sid, [t.ckey for _, t in writers] or "none"),
                      "stored array is local _%s, written by VarInt::encode" % (root.local if root else "?"), loc)
            # the varint written is From<StreamId>(self.stream_id) / 4
            for b, t in wenc:
                o = f.origin(t.args[0])
                good = (o[0] == "call" and o[1].endswith("core::ops::arith::Div<u64>>::div")
                        and ru.o_has_call(o[2][0], "core::convert::From<h3::proto::stream::StreamId>>::from")
                        and any(p == (1, ("stream_id",)) for p in fl.params_in(o[2][0]))
                        and not fl.has_arith(o[2][0]))
                div_const = ru.const_int(o[2][1]) if o[0] == "call" and len(o[2]) > 1 else None
                ctx.check(good and div_const == 4, "C18-a", enc.key, "varint = VarInt::from(self.stream_id) / 4",
                          "the varint written to the header is %s, expected VarInt::from(self.stream_id) / 4" % fl.fmt(o),
                          fl.fmt(o), enc.loc(t))
                # len = size() of the same varint
                ln = ru.field_op(s, "len")
                lo = f.origin(ln)
                same = lo[0] == "call" and lo[1] == VARINT + "::size" and lo[2] and lo[2][0] == o
                ctx.check(same, "C18-a", enc.key, "EncodedDatagram.len = size() of the written varint",
                          "len is %s, expected VarInt::size of the varint that was encoded" % fl.fmt(lo), fl.fmt(lo), loc)
            po = f.origin(ru.field_op(s, "pos"))
            ctx.check(ru.const_int(po) == 0, "C18-a", enc.key, "EncodedDatagram.pos = 0",
                      "pos starts at %s, expected 0" % fl.fmt(po), "", loc)
            pl = f.origin(ru.field_op(s, "payload"))
            ctx.check(ru.o_is_param_field(pl, "payload"), "C18-a", enc.key, "EncodedDatagram.payload = self.payload",
                      "payload is %s, expected self.payload" % fl.fmt(pl), "", loc)

    # ---------------- C18-b
    dec = ru.need(ctx, "C18-b", DG + "::decode")
    if dec:
        f = fl.Flow(dec, prog)
        tf = ru.calls(dec, "<h3::proto::stream::StreamId as core::convert::TryFrom<u64>>::try_from")
        ctx.floor("C18-b", "StreamId::try_from range checks in decode", len(tf), 1)
        mul_const = None
        for bb, t in tf:
            o = f.origin(t.args[0])
            # Mul(u64::from(VarInt::decode(&mut buf)), 4)
            good = False
            if o[0] == "proj" and o[1][0] == "binop":
                o = o[1]
            if o[0] == "binop" and o[1] in ("Mul", "MulWithOverflow"):
                a, b = o[2], o[3]
                if ru.const_int(a) is not None:
                    a, b = b, a
                mul_const = ru.const_int(b)
                good = ru.o_has_call(a, VARINT + "::decode") and not fl.has_arith(a)
            ctx.check(good and mul_const == 4, "C18-b", dec.key, "stream id = decoded quarter id * 4",
                      "StreamId::try_from receives %s, expected (decoded varint) * 4" % fl.fmt(o), fl.fmt(o), dec.loc(t))
        if div_const is not None and mul_const is not None:
            ctx.check(div_const == mul_const, "C18-b", dec.key, "encode divisor == decode multiplier",
                      "encode divides by %s but decode multiplies by %s" % (div_const, mul_const),
                      "both %s" % div_const)
        # result fields
        for bb, s in ru.aggregates(dec, DG):
            so = f.origin(ru.field_op(s, "stream_id"))
            ctx.check(ru.o_has_call(so, "TryFrom<u64>>::try_from"), "C18-b", dec.key,
                      "Datagram.stream_id = range-checked id",
                      "decoded stream_id is %s, not the result of StreamId::try_from" % fl.fmt(so), fl.fmt(so), dec.loc(s))
            po = f.origin(ru.field_op(s, "payload"))
            ctx.check(po == ("param", 1, ()), "C18-b", dec.key, "Datagram.payload = rest of the input buffer",
                      "decoded payload is %s, expected the input buffer after the varint" % fl.fmt(po), "", dec.loc(s))
        # error codes on every failing path
        ps = ru.all_paths(ctx, "C18-b", dec)
        eps = ru.err_paths(ps)
        ctx.floor("C18-b", "error return paths of decode", len(eps), 2)
        for p in eps:
            codes = pa.path_codes(prog, p)
            ctx.check(codes == {"H3_DATAGRAM_ERROR"}, "C18-b", dec.key,
                      "error path via bb%d -> H3_DATAGRAM_ERROR" % p.blocks[-3 if len(p.blocks) > 3 else 0],
                      "a failing decode path carries codes %s, expected exactly H3_DATAGRAM_ERROR" % sorted(codes),
                      "H3_DATAGRAM_ERROR", None, p.describe())
        oks = [p for p in ps if p.end == "return" and p.ret_shape().startswith("Ok")]
        for p in oks:
            ctx.check(p.has_call("TryFrom<u64>>::try_from") and p.has_call(VARINT + "::decode"), "C18-b", dec.key,
                      "Ok path passes varint decode and range check",
                      "an Ok return of decode does not pass VarInt::decode and StreamId::try_from", "", None, p.describe())
        ctx.floor("C18-b", "Ok return paths of decode", len(oks), 1)
        # the quarter stream id is read FROM the input buffer itself, so that what is left in it is exactly the payload: the varint
        # decoder gets the buffer (not a view of its first chunk), and nothing else moves the cursor
        for p in oks:
            dv = p.calls(VARINT + "::decode")
            ok = len(dv) == 1 and dv[0][3] and dv[0][3][0] == ("param", 1, ()) and not p.calls("::advance")
            ctx.check(ok, "C18-b", dec.key, "the varint is decoded from the input buffer itself, nothing else advances it",
                      "Datagram::decode reads the quarter stream id from %s%s: the payload no longer begins right behind the identifier the peer wrote "
                      "(a non-minimal encoding leaves header bytes in the payload; an identifier split over two chunks is refused)"
                      % ([pa.vfmt(e[3][0])[:50] for e in dv], " and advances the buffer separately" if p.calls("::advance") else ""), "", None, p.describe())

    # ---------------- C18-c reader
    rd = ru.need(ctx, "C18-c", "h3_datagram::datagram_handler::DatagramReader::read_datagram::{closure#0}")
    if rd:
        ps = ru.all_paths(ctx, "C18-c", rd)
        n = 0
        for p in ps:
            if p.end != "return":
                continue
            if p.has_call(DG + "::decode"):
                n += 1
                cl = p.closures()
                routed = False
                for ck in cl:
                    for c in prog.by_key.get(ck, []):
                        if list(c.calls("CloseStream::handle_connection_error_on_stream")):
                            routed = True
                ctx.check(routed and p.ret_shape() == "call:map_err", "C18-c", rd.key,
                          "decode error -> handle_connection_error_on_stream",
                          "the result of Datagram::decode is not mapped through handle_connection_error_on_stream "
                          "(return shape %s)" % p.ret_shape(), "", None, p.describe())
            else:
                n += 1
                ctx.check(p.has_call("CloseStream::handle_quic_stream_error") and p.ret_shape().startswith("Err("),
                          "C18-c", rd.key, "transport error -> handle_quic_stream_error",
                          "a path without decode returns %s without going through handle_quic_stream_error" % p.ret_shape(),
                          "", None, p.describe())
        ctx.floor("C18-c", "return paths of read_datagram", n, 2)

    # ---------------- C18-d sender
    sd = ru.need(ctx, "C18-d", "h3_datagram::datagram_handler::DatagramSender::send_datagram")
    if sd:
        f = fl.Flow(sd, prog)
        news = ru.calls(sd, DG + "::new")
        ctx.floor("C18-d", "Datagram::new calls in send_datagram", len(news), 1)
        for bb, t in news:
            o = f.origin(t.args[0])
            ctx.check(ru.o_is_param_field(o, "stream_id"), "C18-d", sd.key, "datagram id = sender's stream id",
                      "Datagram::new receives id %s, expected self.stream_id" % fl.fmt(o), "", sd.loc(t))
            o = f.origin(t.args[1])
            ctx.check(o == ("param", 2, ()), "C18-d", sd.key, "datagram payload = caller's buffer",
                      "Datagram::new receives payload %s, expected the caller's buffer" % fl.fmt(o), "", sd.loc(t))
        sends = ru.calls(sd, "SendDatagram<B>>::send_datagram", "SendDatagram::send_datagram")
        ctx.floor("C18-d", "handler send calls", len(sends), 1)
        for bb, t in sends:
            o = f.origin(t.args[1])
            ctx.check(o[0] == "call" and o[1] == DG + "::encode", "C18-d", sd.key, "handler receives encode() of it",
                      "the handler receives %s, expected Datagram::encode(..)" % fl.fmt(o), "", sd.loc(t))
    # the Quinn handler hands the WHOLE encoded datagram to Quinn (or fails): what is copied out of it is remaining() of that buffer
    qs = prog.one("<h3_quinn::datagram::SendDatagramHandler as h3_datagram::quic_traits::SendDatagram<B>>::send_datagram") if "h3_quinn" in prog.crates else None
    if "h3_quinn" in prog.crates and qs is None:
        ctx.missing("C18-d", "<h3_quinn::datagram::SendDatagramHandler as h3_datagram::quic_traits::SendDatagram<B>>::send_datagram")
    if qs:
        nq = 0
        for p in [p for p in ru.all_paths(ctx, "C18-d", qs, max_visits=1) if p.end == "return"]:
            snd = [e for e in p.calls("quinn::connection::Connection::send_datagram", "Connection::send_datagram")]
            if not snd:
                continue
            nq += 1
            cp = p.calls("copy_to_bytes")
            ok = len(cp) == 1 and len(cp[0][3]) == 2 and cp[0][3][1][0] == "call" and pa.short(cp[0][3][1][1]) == "remaining" and cp[0][3][1][2] and \
                cp[0][3][1][2][0] == cp[0][3][0] and snd[0][3][-1][0] == "call" and snd[0][3][-1][3] == cp[0][1]
            ctx.check(ok, "C18-d", qs.key, "Quinn is given the whole encoded datagram: copy_to_bytes(buf.remaining())",
                      "the handler sends %s: a datagram cut to some other length is delivered truncated and reported as sent (Quinn itself "
                      "answers TooLarge for what does not fit)" % ([pa.vfmt(e[3][1])[:70] for e in cp] or "something that is not a copy of the buffer"), "", None, p.describe())
        ctx.floor("C18-d", "sending paths of the Quinn datagram handler", nq, 1)
    # ---------------- C18-e how the encoded buffer is consumed (chunk/advance patterns)
    shared.header_payload_cursor(ctx, "C18-e", "<h3_datagram::datagram::EncodedDatagram as bytes::buf::buf_impl::Buf>::", "stream_id")
    ctx.assume("semantics of VarInt::encode/size/decode are decided under C16")
    # the stream id a datagram is attributed to goes through the range-checked constructors (C16-a bounds of from_u64 / TryFrom<u64>)
    if not getattr(ctx, "nested", False):
        from rules import C16 as _c16x, shared as _sh
        _c16x.run(_sh.Proxy(ctx, ("C16-a",), "C18-b"))
