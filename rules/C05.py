"""C05 One connection error, seen everywhere, never lost between tasks."""
from engine import flow as fl, ru, paths as pa, expr
from engine.mir import Place

EXPLANATION = (
    "Ownership, who-may-call, def-use and ordering facts over the error cell and its users: (a) SharedState.connection_error "
    "is a private OnceLock<ErrorOrigin> whose only writer is ConnectionState::set_conn_error via get_or_init (no take, no "
    "&mut access, no impl overrides the trait's default methods); (b) at every reporter the ConnectionError handed back is "
    "converted from the value the cell returned (set_conn_error*/get_conn_error), never from the reporter's own argument; "
    "sibling reporters are discovered as constructions of ConnectionError outside the audited converters; (c) the QUIC "
    "connection is closed only from close_if_needed (with the cell's error's code), server Drop (H3_NO_ERROR) and the two "
    "pre-connection helpers; close_if_needed's callers sit behind the handled_connection_error early return and the "
    "conversion that records it; (d) every driver poll entry starts with poll_connection_error whose first test is the "
    "sticky handled error; (e) set_conn_error_and_wake stores before it wakes, every stream-side reporter uses the waking "
    "variant, and poll_connection_error reads the cell after registering the waker on every path to Pending (no lost "
    "wake-up for any interleaving). Trusted: semantics of OnceLock and AtomicWaker."
    " C05-b also reads the converter itself as a table: Internal -> Local{Application{that error's code and reason}}, transport Timeout -> Timeout, any other transport error -> Remote(the same error).")
RULES = "C05-a write-once cell (A12/A10); C05-b first error wins, converter keeps code/reason/peer error (A4/A10/A3); C05-c closed once with that code, both closing rows of close_if_needed exist (A10/A4/A2/A3); C05-d driver stickiness (A2); C05-e store-then-wake / register-then-check (A2); raw close helpers only during connection setup (C05-c)"

CS = "h3::shared_state::ConnectionState::"
CI = "h3::connection::ConnectionInner::"
CEC = "h3::error::connection_error_creators::"
CELL_READS = (CS + "set_conn_error", CS + "set_conn_error_and_wake", CS + "get_conn_error")


def from_cell(o, passthrough):
    """The origin is the value the error cell returned (possibly through pass-through helpers / unwrap / projections)."""
    k = o[0]
    if k == "call":
        if o[1] in CELL_READS:
            return True
        if o[1] in passthrough and len(o[2]) > 1:
            return from_cell(o[2][passthrough[o[1]]], passthrough)
        if o[1].rsplit("::", 1)[-1] in ("unwrap", "expect", "clone", "cloned") and o[2]:
            return from_cell(o[2][0], passthrough)
        return False
    if k == "proj":
        return from_cell(o[1], passthrough)
    if k == "phi":
        return all(from_cell(x, passthrough) for x in o[1])
    return False


def run(ctx):
    prog = ctx.prog
    # ------------------------------------------------------------------ C05-a
    st = prog.adts.get("h3::shared_state::SharedState")
    if not st:
        ctx.missing("C05-a", "h3::shared_state::SharedState")
    else:
        fields = {f["name"]: f for f in st["variants"][0]["fields"]}
        ce = fields.get("connection_error")
        ctx.check(ce is not None and ce["ty"] == "std::sync::once_lock::OnceLock<h3::error::internal_error::ErrorOrigin>" and not ce["pub"], "C05-a",
                  "h3::shared_state::SharedState.connection_error", "private write-once cell",
                  "connection_error is %s (pub=%s); expected a private OnceLock<ErrorOrigin>" % (ce and ce["ty"], ce and ce["pub"]), ce and ce["ty"])
        want = {"settings": "std::sync::once_lock::OnceLock<h3::config::Settings>",
                "connection_error": "std::sync::once_lock::OnceLock<h3::error::internal_error::ErrorOrigin>",
                "closing": "core::sync::atomic::Atomic<bool>", "waker": "futures_core::task::__internal::atomic_waker::AtomicWaker"}
        got = {n: f["ty"] for n, f in fields.items()}
        ctx.check(got == want, "C05-a", "h3::shared_state::SharedState", "fields are exactly {settings, connection_error, closing, waker}",
                  "SharedState fields are %s" % got, str(sorted(got)))
    # all accesses to the cell field
    acc = {}
    for b in prog.bodies:
        f = None
        for bb, t in b.all_terms():
            if t.t != "call" or not t.args or t.args[0].place is None:
                continue
            f = f or fl.Flow(b, prog)
            o = f.origin(t.args[0])
            txt = fl.fmt(o)
            if (txt.endswith(".connection_error") and "shared_state" in txt) or (
                    o[0] == "param" and o[2][-1:] == ("connection_error",) and b.locals[o[1]].get("adt") == "h3::shared_state::SharedState"):
                acc.setdefault(pa.short(t.ckey), set()).add(b.key)
        for bb, i, s in b.all_stmts():
            if s.s == "assign" and s.place.proj and s.place.fields()[-1:] == ["connection_error"] and not b.key.startswith("<h3::shared_state::SharedState as core::default::Default"):
                acc.setdefault("ASSIGN", set()).add(b.key)
    allowed = {"get_or_init": {CS + "set_conn_error"}, "get": {CS + "get_conn_error"}, "fmt": None, "field": None}
    for m, where in sorted(acc.items()):
        if m in ("fmt", "field", "debug_struct_field4_finish", "debug_struct_field3_finish", "debug_struct_fields_finish"):
            continue
        ctx.check(m in allowed and (allowed[m] is None or where <= allowed[m]), "C05-a", "h3::shared_state::SharedState.connection_error",
                  "access by %s only in %s" % (m, sorted(allowed.get(m) or [])),
                  "the error cell is accessed through `%s` in %s; the only audited accesses are get_or_init in set_conn_error and get in "
                  "get_conn_error" % (m, sorted(where)), str(sorted(where)))
    ctx.check("get_or_init" in acc and "get" in acc, "C05-a", "h3::shared_state::SharedState.connection_error", "writer and reader found",
              "accesses found: %s" % sorted(acc), str(sorted(acc)))
    for i in prog.impls:
        if i["trait"] == "h3::shared_state::ConnectionState":
            extra = [x for x in i["items"] if not x.endswith("::shared_state")]
            ctx.check(not extra, "C05-a", "impl ConnectionState for " + i["self_ty"], "only shared_state() is implemented",
                      "the impl overrides default methods %s of ConnectionState (the cell protocol could be bypassed)" % extra, "")
    # who may call the setters
    who = {}
    for n in ("set_conn_error", "set_conn_error_and_wake", "get_conn_error"):
        who[n] = sorted({b.key for b, bb, t in prog.callers_of(CS + n)})
    ctx.check(who["set_conn_error"] == sorted([CI + "handle_connection_error", CS + "set_conn_error_and_wake"]), "C05-a", CS + "set_conn_error",
              "who may call", "set_conn_error is called from %s" % who["set_conn_error"], str(who["set_conn_error"]))

    # ------------------------------------------------------------------ C05-b reporters
    # pass-through helpers return their argument unchanged
    passthrough = {}
    b = ru.need(ctx, "C05-b", CI + "close_if_needed")
    if b:
        o = fl.ret_origin(prog, b)
        ok = o == ("param", 2, ())
        unit = b.locals[0]["ty"] == "()"      # borrowing form: nothing is handed back, the callers keep the error they got from the cell
        ctx.check(ok or unit, "C05-b", b.key, "returns the error it was given (or nothing)", "close_if_needed returns %s, not its argument" % fl.fmt(o), "")
        if ok:
            passthrough[b.key] = 1
    conv_free = CEC + "convert_to_connection_error"
    conv_m = CI + "convert_to_connection_error"
    b = ru.need(ctx, "C05-b", conv_m)
    if b:
        f = fl.Flow(b, prog)
        cs = ru.calls(b, conv_free)
        ok = len(cs) == 1 and f.origin(cs[0][1].args[0]) == ("param", 2, ())
        ctx.check(ok, "C05-b", b.key, "converts its argument", "ConnectionInner::convert_to_connection_error does not convert its own argument", "")
        st_ = [s for bb, i, s in b.all_stmts() if s.s == "assign" and s.place.fields()[-1:] == ["handled_connection_error"]]
        ctx.check(len(st_) == 1, "C05-c", b.key, "records the handled error", "handled_connection_error is assigned %d times" % len(st_), "")
    # the converter keeps the error's identity: Internal -> Local{Application{same code, same reason}}, Timeout -> Timeout, else Remote(same error)
    cvb = ru.need(ctx, "C05-b", conv_free)
    if cvb:
        rows = {}
        for p in [p for p in ru.all_paths(ctx, "C05-b", cvb) if p.end == "return"]:
            labs = [t[2] for t in p.tests if t[3][0] == "discr"]
            rows["/".join(labs)] = p
        pin = [p for k, p in rows.items() if k.startswith("Internal")]
        ok = len(pin) == 1 and pin[0].ret_shape() == "ConnectionError::Local" and pa.vfmt(pin[0].ret) == "Local(Application(param_1<Internal>.0.code, param_1<Internal>.0.message))"
        ctx.check(ok, "C05-b", conv_free, "h3-detected error -> Local{Application{that error's code and reason}}",
                  "an internal error is reported as %s; every handle must report exactly the code the connection was closed with"
                  % [pa.vfmt(p.ret)[:100] for p in pin], "")
        pt = [p for k, p in rows.items() if k.endswith("Timeout") and "|" not in k.split("/")[-1]]
        ctx.check(len(pt) == 1 and pt[0].ret_shape() == "ConnectionError::Timeout", "C05-b", conv_free, "transport timeout -> Timeout", "rows: %s" % sorted(rows), "")
        pr_ = [p for k, p in rows.items() if k.startswith("Quic") and p not in pt]
        ok = bool(pr_) and all(p.ret_shape() == "ConnectionError::Remote" and pa.vfmt(p.ret) == "Remote(param_1<Quic>.0)" for p in pr_)
        ctx.check(ok, "C05-b", conv_free, "other transport errors -> Remote(the same error)", "rows: %s" % {k: pa.vfmt(p.ret)[:60] for k, p in rows.items()}, "")
    reporters = [CI + "handle_connection_error", CI + "poll_connection_error", CEC + "CloseStream::handle_connection_error_on_stream",
                 CEC + "CloseStream::handle_quic_stream_error"]
    for key in reporters:
        b = ru.need(ctx, "C05-b", key)
        if not b:
            continue
        f = fl.Flow(b, prog)
        convs = ru.calls(b, conv_free) + ru.calls(b, conv_m)
        ctx.check(len(convs) >= 1, "C05-b", key, "converts an error", "reporter does not call convert_to_connection_error", "")
        for bb, t in convs:
            arg = t.args[-1]
            o = f.origin(arg)
            ctx.check(from_cell(o, passthrough), "C05-b", key, "reported error is the cell's (first) error",
                      "the connection error handed back is converted from %s, not from the value the error cell returned: when another "
                      "task's error won the write-once cell this handle reports a different connection error than the driver and the peer see"
                      % fl.fmt(o)[:200], fl.fmt(o)[:120], b.loc(t))
    # sibling reporters: ConnectionError constructed outside the audited converters
    audited = {conv_free: "the converter", CEC + "CloseRawQuicConnection::handle_quic_error_raw": "no h3 connection exists yet",
               CEC + "CloseRawQuicConnection::close_raw_connection_with_h3_error": "no h3 connection exists yet",
               "<h3::error::error::ConnectionError as core::clone::Clone>::clone": "derive(Clone)"}
    n = 0
    for b in prog.bodies:
        for bb, s in ru.aggregates(b, "h3::error::error::ConnectionError"):
            n += 1
            if b.key in audited:
                continue
            o = fl.Flow(b, prog).origin(s.rv.ops[0]) if s.rv.ops else ("const", s.rv.variant)
            ctx.check(from_cell(o, passthrough), "C05-b", b.key, "ConnectionError::%s built from the cell's error" % s.rv.variant,
                      "%s constructs ConnectionError::%s from %s (its own error) instead of the connection's first error held by the cell"
                      % (b.key, s.rv.variant, fl.fmt(o)), fl.fmt(o), b.loc(s))
    ctx.floor("C05-b", "ConnectionError constructions inspected", n, 10)

    # ------------------------------------------------------------------ C05-c close sites
    closers = sorted({b.key for b, bb, t in prog.callers_of("h3::quic::OpenStreams::close")})
    want = sorted([CI + "close_connection", CEC + "CloseRawQuicConnection::close_raw_connection_with_h3_error",
                   CEC + "CloseRawQuicConnection::handle_quic_error_raw"])
    ctx.check(closers == want, "C05-c", "h3::quic::OpenStreams::close", "who may close the QUIC connection",
              "OpenStreams::close is called from %s; audited: %s" % (closers, want), str(closers))
    # the two "raw" closers bypass the error cell: they exist for connection setup, before a ConnectionInner (and its cell) exists
    for raw in ("close_raw_connection_with_h3_error", "handle_quic_error_raw"):
        who_ = sorted({b.key for b, bb, t in prog.callers_of(CEC + "CloseRawQuicConnection::" + raw)})
        ctx.check(who_ == [CI + "new::{closure#0}"], "C05-c", CEC + "CloseRawQuicConnection::" + raw, "raw close only during connection setup",
                  "%s is called from %s: closing the transport without recording the error in the cell leaves every handle (and the driver's "
                  "later calls) reporting something other than the error the connection was closed with" % (raw, who_), str(who_))
    cc = sorted({b.key for b, bb, t in prog.callers_of(CI + "close_connection")})
    want = sorted([CI + "close_if_needed", "<h3::server::connection::Connection as core::ops::drop::Drop>::drop"])
    ctx.check(cc == want, "C05-c", CI + "close_connection", "who may call close_connection",
              "close_connection is called from %s; audited: %s" % (cc, want), str(cc))
    b = prog.one("<h3::server::connection::Connection as core::ops::drop::Drop>::drop")
    if b:
        for bb, t in b.calls(CI + "close_connection"):
            o = fl.Flow(b, prog).origin(t.args[1])
            ctx.check(o == ("const", "h3::error::codes::Code::H3_NO_ERROR"), "C05-c", b.key, "server drop closes with H3_NO_ERROR",
                      "server Drop closes with %s" % fl.fmt(o), "")
    b = prog.one(CI + "close_if_needed")
    if b:
        ps = [p for p in ru.all_paths(ctx, "C05-c", b) if p.end == "return"]
        for p in ps:
            cl = p.calls(CI + "close_connection")
            v = [t[2] for t in p.tests if t[3][0] == "discr"]
            if "Internal" in v:
                ok = len(cl) == 1 and pa.vfmt(cl[0][3][1]).startswith("param_2") and ".code" in pa.vfmt(cl[0][3][1])
                ctx.check(ok, "C05-c", b.key, "internal error: closed with exactly that error's code",
                          "for an h3-detected error the connection is closed with %s, expected the stored error's own code"
                          % [pa.vfmt(e[3][1]) for e in cl], "")
            elif "InternalError" in v:
                ok = len(cl) == 1 and pa.vfmt(cl[0][3][1]).endswith("H3_INTERNAL_ERROR")
                ctx.check(ok, "C05-c", b.key, "transport-internal error: closed with H3_INTERNAL_ERROR", "closed with %s" % [pa.vfmt(e[3][1]) for e in cl], "")
            else:
                ctx.check(not cl, "C05-c", b.key, "peer/transport close: nothing to close", "close_connection called for %s" % v, "")
        # both closing rows exist: an error h3 detected itself, and the transport adapter's own internal error (the connection is still
        # up in both cases and the peer has to be told)
        rows_ = {lab: [p for p in ps if lab in [t[2] for t in p.tests if t[3][0] == "discr"] and p.calls(CI + "close_connection")] for lab in ("Internal", "InternalError")}
        ctx.check(bool(rows_["Internal"]) and bool(rows_["InternalError"]), "C05-c", b.key, "closes for an h3-detected error and for the adapter's internal error",
                  "close_if_needed has closing paths for %s only: the error is stored and reported to every handle, but the transport connection "
                  "is never closed with its code" % sorted(k for k, v_ in rows_.items() if v_), "")
        for cb, bb, t in prog.callers_of(CI + "close_if_needed"):
            o = fl.Flow(cb, prog).origin(t.args[1])
            ctx.check(from_cell(o, {}), "C05-c", cb.key, "close_if_needed(error from the cell)",
                      "close_if_needed is called with %s, not with the cell's error: the connection could be closed with a code other than "
                      "the first error's" % fl.fmt(o)[:160], "", cb.loc(t))
    # both users of close_if_needed sit behind the sticky early return
    for key in (CI + "handle_connection_error", CI + "poll_connection_error"):
        b = prog.one(key)
        if not b:
            continue
        for p in [p for p in ru.all_paths(ctx, "C05-c", b) if p.end == "return" and p.has_call(CI + "close_if_needed")]:
            g = p.tested("param_1.handled_connection_error")
            ok = bool(g) and g[0][2] == "None" and p.has_call(conv_m)
            ctx.check(ok, "C05-c", key, "closing path only when no error was handled yet, and it records the error",
                      "a path closes the connection without first seeing handled_connection_error == None or without recording the "
                      "handled error afterwards (the connection could be closed twice / with a second code)", "", None, p.describe())
        sticky = [p for p in ru.all_paths(ctx, "C05-d", b) if p.end == "return" and p.tested("param_1.handled_connection_error") and
                  p.tested("param_1.handled_connection_error")[0][2] == "Some"]
        ok = bool(sticky) and all(not p.calls(CS + "set_conn_error", CS + "get_conn_error", CI + "close_if_needed") and
                                   "handled_connection_error" in pa.vfmt(p.ret) for p in sticky)
        ctx.check(ok, "C05-d", key, "handled error is sticky: returned again, nothing else done",
                  "the path with handled_connection_error == Some does not simply return that error again", "")

    # ------------------------------------------------------------------ C05-d driver entries
    for key in (CI + "poll_control", CI + "poll_accept_recv", CI + "poll_accept_bi"):
        b = ru.need(ctx, "C05-d", key)
        if not b:
            continue
        first = None
        for bb in b.rpo():
            t = b.blocks[bb].term
            if t.t == "call" and not fl.is_transparent(t):
                first = t
                break
        ctx.check(first is not None and first.ckey == CI + "poll_connection_error", "C05-d", key, "begins with poll_connection_error",
                  "the driver entry's first call is %s, expected poll_connection_error (so an error recorded by any task is seen by every "
                  "later driver call)" % (first.ckey if first else None), "")
    # ------------------------------------------------------------------ C05-e orderings
    b = ru.need(ctx, "C05-e", CS + "set_conn_error_and_wake")
    if b:
        ps = [p for p in ru.all_paths(ctx, "C05-e", b) if p.end == "return"]
        ok = bool(ps)
        for p in ps:
            ev = [pa.short(e[2].ckey) for e in p.calls() if pa.short(e[2].ckey) in ("set_conn_error", "wake")]
            ok = ok and ev == ["set_conn_error", "wake"]
        ctx.check(ok, "C05-e", b.key, "store the error, then wake the driver",
                  "set_conn_error_and_wake does not (store, then wake) on every path: %s" % [[pa.short(e[2].ckey) for e in p.calls()] for p in ps], "")
        o = fl.ret_origin(prog, b)
        ctx.check(from_cell(o, {}), "C05-e", b.key, "returns the cell's error", "returns %s" % fl.fmt(o), "")
    # stream-side reporters must use the waking variant
    for key in (CEC + "CloseStream::handle_connection_error_on_stream", CEC + "CloseStream::handle_quic_stream_error"):
        b = prog.one(key)
        if not b:
            continue
        non = ru.calls(b, CS + "set_conn_error")
        non = [x for x in non if x[1].ckey == CS + "set_conn_error"]
        wak = [x for x in ru.calls(b, CS + "set_conn_error_and_wake")]
        ctx.check(bool(wak) and not non, "C05-e", key, "stream-side reporter wakes the driver",
                  "%s stores the connection error without waking the driver (set_conn_error instead of set_conn_error_and_wake): a "
                  "parked driver never learns about it and the connection is never closed" % key.rsplit("::", 1)[-1], "")
    # discovered: every caller of set_conn_error other than the driver's own handle_connection_error is the waking wrapper (C05-a)
    b = ru.need(ctx, "C05-e", CI + "poll_connection_error")
    if b:
        ps = [p for p in ru.all_paths(ctx, "C05-e", b) if p.end == "return" and p.ret_shape() == "Pending"]
        ctx.floor("C05-e", "Pending returns of poll_connection_error", len(ps), 1)
        for p in ps:
            ev = [pa.short(e[2].ckey) for e in p.calls() if pa.short(e[2].ckey) in ("register", "get_conn_error")]
            ok = "register" in ev and "get_conn_error" in ev and ev.index("register") < len(ev) - 1 - ev[::-1].index("get_conn_error")
            ctx.check(ok, "C05-e", b.key, "waker registered before the (last) read of the error cell",
                      "on the path to Pending the error cell is read %s registering the waker (order: %s): an error stored by a request "
                      "task between the read and the registration wakes nobody and the driver stays parked (lost wake-up)"
                      % ("before" if "register" in ev else "without", ev), str(ev), None, p.describe())
    ctx.assume("std::sync::OnceLock::get_or_init is first-writer-wins; futures AtomicWaker::register/wake do not lose a wake that follows a completed register")
