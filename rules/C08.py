"""C08 GOAWAY identifiers never grow and draw the accept/reject line exactly."""
from engine import flow as fl, ru, paths as pa, expr, dispatch as dp

EXPLANATION = (
    "Comparison normal forms, def-use and path tables at the five GOAWAY sites: (a) ConnectionInner::shutdown writes a "
    "GOAWAY and stores the identifier only when none was sent or the new one is strictly smaller (the `sent <= new` edge "
    "returns), the identifier on the wire and the stored one are the same parameter, set_closing is on the path; (b) the "
    "server's accept loop takes the rejection arm (stop_sending + reset with H3_REQUEST_REJECTED, stream not returned, "
    "not recorded as ongoing) exactly on `send_id >= sent_closing`, every other stream is recorded and returned; (c) the "
    "identifier announced by server shutdown(n) is the successor of the last accepted request advanced by n "
    "(FIRST_REQUEST when nothing was accepted), so it exceeds every request already handed out; (d) the client checks "
    "is_closing before opening a request stream, process_goaway yields H3_ID_ERROR exactly on `previous < new` and sets "
    "the closing flag and the stored identifier otherwise, and the client refuses a non-request identifier with "
    "H3_ID_ERROR before processing. Interleavings beyond what the monotone guard and the single comparison decide are "
    "not decided.")
# every anchor of these rules lives in the h3 crate: thorough tier repeats them on the feature-less build
EXTRA_CONFIGS = ["h3-plain"]
RULES = "C08-a monotone send (A2/A5/A4); C08-b accept/reject line (A5/A3), accept() ends only after an unconditional final shutdown(0) (A2); C08-c announced id is a successor (A4); C08-d client side (A2/A3/A5); shared through a proxy: C16-a under C08-c, C16-b (is_request truth table) and the Goaway rows of C04-a under C08-d"

CI = "h3::connection::ConnectionInner::"
SV = "h3::server::connection::Connection::"


def rel_between(p, is_a, is_b):
    """Relation a REL b established on path p by its (last) comparison of the two, or None."""
    out = None
    for t in p.tests:
        nf = expr.cmp_nf(t[3], t[2])
        if not nf:
            continue
        a, rel, b = nf
        if is_a(a) and is_b(b):
            out = rel
        elif is_a(b) and is_b(a):
            out = expr.SWAP[rel]
    return out


def run(ctx):
    prog = ctx.prog
    # the codes this property names are the registry values (the rules below speak of them by name)
    from rules import shared as _shc
    _shc.error_code_values(ctx, "C08-b", ("H3_REQUEST_REJECTED",))
    _shc.error_code_values(ctx, "C08-d", ("H3_ID_ERROR",))
    # ------------------------------------------------------------------ C08-a
    sh = ru.need(ctx, "C08-a", CI + "shutdown::{closure#0}")
    if sh:
        ps = [p for p in ru.all_paths(ctx, "C08-a", sh, max_visits=1)]
        wr = [p for p in ps if p.has_call("h3::stream::write")]
        ctx.floor("C08-a", "paths of shutdown that write a GOAWAY", len(wr), 2)

        def is_sent(v):
            return v[0] == "param" and "".join(v[2]).startswith(".1") and "<Some>" in "".join(v[2])

        def is_new(v):
            return v == ("param", 1, (".2",))
        for p in wr:
            d = [t for t in p.tests if t[3][0] == "discr" and t[3][1] == ("param", 1, (".1",))]
            state = d[0][2] if d else None
            if state == "Some":
                rel = rel_between(p, is_new, is_sent)
                ctx.check(rel == "<", "C08-a", sh.key, "GOAWAY re-sent only with a strictly smaller identifier",
                          "a GOAWAY is written although an earlier one was sent, on a path where the new identifier is only known to be `%s` "
                          "the one already sent: identifiers in successive GOAWAY frames could increase (RFC 9114 5.2)" % rel,
                          "new < sent", None, p.describe())
            else:
                ctx.check(state == "None", "C08-a", sh.key, "first GOAWAY: nothing sent before",
                          "a GOAWAY is written without looking at the identifier already sent", "", None, p.describe())
            w = p.calls("h3::stream::write")[0]
            fr = w[3][1]
            ok = fr[0] == "agg" and fr[2] == "Goaway" and fr[3] and expr.mentions(fr[3][0], is_new) and not expr.mentions(fr[3][0], lambda n: n[0] in ("binop",))
            ctx.check(ok, "C08-a", sh.key, "frame carries the identifier given to shutdown", "GOAWAY frame is %s" % pa.vfmt(fr), "")
            ctx.check(pa.vfmt(w[3][0]).endswith("control_send"), "C08-a", sh.key, "written to the control stream", "written to %s" % pa.vfmt(w[3][0]), "")
            st = [e for e in p.stores() if pa.vfmt(e[4]) == "param_1.1"]
            ok = len(st) == 1 and st[0][3][0] == "agg" and st[0][3][2] == "Some" and is_new(st[0][3][3][0]) and \
                p.blocks.index(st[0][1]) <= p.blocks.index(w[1])
            ctx.check(ok, "C08-a", sh.key, "the same identifier is remembered as sent", "stored: %s" % [pa.vfmt(e[3]) for e in st], "")
            ctx.check(p.has_call("ConnectionState::set_closing"), "C08-a", sh.key, "closing flag set", "set_closing is not called on the sending path", "")
        nowr = [p for p in ps if p.end == "return" and not p.has_call("h3::stream::write")]
        for p in nowr:
            rel = rel_between(p, is_sent, is_new)
            ctx.check(rel == "<=" and p.ret_shape() == "Ok(())" and not p.stores(), "C08-a", sh.key, "no GOAWAY when sent <= new",
                      "shutdown returns without sending on a path where sent %s new (stores: %d)" % (rel, len(p.stores())), "")
    # ------------------------------------------------------------------ C08-c
    so = ru.need(ctx, "C08-c", SV + "shutdown::{closure#0}")
    explicit = False
    if so:
        # explicit form: `match last_accepted { Some(id) => id + (n+1), None => FIRST_REQUEST }` evaluated on each path
        def inc_form_v(x):
            if x[0] == "call" and x[1].endswith("::saturating_add") and expr.fold(x[2][1]) == 1:
                return "n.saturating_add(1)"
            if x[0] == "proj" and x[1][0] == "binop" and x[1][1].startswith("Add") and expr.fold(x[1][3]) == 1:
                return "n + 1"
            if x[0] == "binop" and x[1].startswith("Add") and expr.fold(x[3]) == 1:
                return "n + 1"
            return None
        psx = [p for p in ru.all_paths(ctx, "C08-c", so, max_visits=1) if p.has_call(CI + "shutdown")]
        st_ = {}
        for p in psx:
            la = [t[2] for t in p.tests if t[3][0] == "discr" and pa.vfmt(t[3][1]).endswith(".last_accepted_stream")]
            if la:
                st_.setdefault(la[0], []).append(p)
        if set(st_) == {"Some", "None"}:
            explicit = True
            for p in st_["Some"]:
                a_ = p.calls(CI + "shutdown")[0][3]
                idv = a_[2]
                ok = pa.vfmt(a_[1]).endswith(".sent_closing") and idv[0] == "call" and idv[1] == "<h3::proto::stream::StreamId as core::ops::arith::Add<usize>>::add" and \
                    pa.vfmt(idv[2][0]).endswith(".last_accepted_stream<Some>.0") and inc_form_v(idv[2][1]) is not None
                ctx.check(ok, "C08-c", so.key, "announced id = last accepted + (n + 1)",
                          "server shutdown(n) derives the GOAWAY identifier from the last accepted request as %s; it must be the successor in "
                          "request-id space advanced by n (id + (n+1)), otherwise GOAWAY announces an identifier that was already handed to the "
                          "application (accept 0, shutdown(0) announces 0 and request 0 is still served)" % pa.vfmt(idv)[:160], "", None, p.describe())
            for p in st_["None"]:
                a_ = p.calls(CI + "shutdown")[0][3]
                ctx.check(pa.vfmt(a_[1]).endswith(".sent_closing") and a_[2] == ("const", "h3::proto::stream::StreamId::FIRST_REQUEST"), "C08-c", so.key,
                          "nothing accepted yet: FIRST_REQUEST, guard state = sent_closing", "server shutdown passes (%s, %s)" % (pa.vfmt(a_[1]), pa.vfmt(a_[2])[:120]), "")
    if not explicit:
        cl = ru.need(ctx, "C08-c", SV + "shutdown::{closure#0}::{closure#0}")
        if cl:
            o = fl.Flow(cl, prog).origin(fl.Place({"l": 0})) if hasattr(fl, "Place") else None
            from engine.mir import Place
            f = fl.Flow(cl, prog)
            o = f.origin(Place({"l": 0}))
            ok = o[0] == "call" and o[1] == "<h3::proto::stream::StreamId as core::ops::arith::Add<usize>>::add" and o[2][0] == ("param", 2, ())
            inc = o[2][1] if ok else None
            form = None
            if ok:
                x = inc
                # accepted successor forms: n.saturating_add(1) | n + 1 (checked) | n.checked_add(1)...  where n is the captured max_requests
                if x[0] == "call" and x[1].endswith("::saturating_add") and ru.const_int(x[2][1]) == 1:
                    form = "n.saturating_add(1)"
                elif x[0] == "proj" and x[1][0] == "binop" and x[1][1].startswith("Add") and ru.const_int(x[1][3]) == 1:
                    form = "n + 1"
                elif x[0] == "binop" and x[1].startswith("Add") and ru.const_int(x[3]) == 1:
                    form = "n + 1"
            if form is None and ok:
                # (id + n) + 1
                pass
            ctx.check(ok and form is not None, "C08-c", cl.key, "announced id = last accepted + (n + 1)",
                      "server shutdown(n) derives the GOAWAY identifier from the last accepted request as %s; it must be the successor in "
                      "request-id space advanced by n (id + (n+1)), otherwise GOAWAY announces an identifier that was already handed to the "
                      "application (accept 0, shutdown(0) announces 0 and request 0 is still served)" % fl.fmt(o), form or "", cl.loc())
        so = ru.need(ctx, "C08-c", SV + "shutdown::{closure#0}")
        if so:
            ps = [p for p in ru.all_paths(ctx, "C08-c", so, max_visits=1) if p.has_call(CI + "shutdown")]
            ctx.floor("C08-c", "paths calling ConnectionInner::shutdown", len(ps), 1)
            for p in ps[:1]:
                e = p.calls(CI + "shutdown")[0]
                a = e[3]
                ok = pa.vfmt(a[1]).endswith(".sent_closing") and a[2][0] == "call" and a[2][1] == "core::option::Option::unwrap_or" and \
                    a[2][2][1] == ("const", "h3::proto::stream::StreamId::FIRST_REQUEST") and a[2][2][0][0] == "call" and \
                    a[2][2][0][1] == "core::option::Option::map" and pa.vfmt(a[2][2][0][2][0]).endswith(".last_accepted_stream")
                if not ok and a[2][0] == "call" and a[2][1] == "core::option::Option::map_or" and len(a[2][2]) == 3:
                    # `.map_or(FIRST_REQUEST, successor)`: the same closure (checked above) under the combined adapter
                    ok = pa.vfmt(a[1]).endswith(".sent_closing") and pa.vfmt(a[2][2][0]).endswith(".last_accepted_stream") and \
                        a[2][2][1] == ("const", "h3::proto::stream::StreamId::FIRST_REQUEST") and a[2][2][2][0] == "closure" and \
                        a[2][2][2][1] == SV + "shutdown::{closure#0}::{closure#0}"
                ctx.check(ok, "C08-c", so.key, "id = last_accepted.map(successor).unwrap_or(FIRST_REQUEST), guard state = sent_closing",
                          "server shutdown passes (%s, %s)" % (pa.vfmt(a[1]), pa.vfmt(a[2])[:200]), "")
    ctx.check(prog.const("h3::proto::stream::StreamId::FIRST_REQUEST") == 0, "C08-c", "h3::proto::stream::StreamId::FIRST_REQUEST", "= stream 0",
              "FIRST_REQUEST = %s" % prog.const("h3::proto::stream::StreamId::FIRST_REQUEST"), "0")

    # ------------------------------------------------------------------ C08-b the line is drawn exactly when accept() ends
    # accept() answering None means the application stops serving: the final shutdown(0) lowers the announced identifier to the
    # first request not served, whatever a previous shutdown(n) had announced - otherwise the requests of the unused grace interval
    # are below the last GOAWAY and are never served
    acc = ru.need(ctx, "C08-b", SV + "accept::{closure#0}")
    if acc:
        ends = [p for p in ru.all_paths(ctx, "C08-b", acc, max_visits=1) if p.end == "return" and p.ret_shape() == "Ok(None)"]
        ctx.floor("C08-b", "paths of accept() that end the accept loop", len(ends), 1)
        for p in ends:
            shc = [e for e in p.calls(SV + "shutdown")]
            ok = len(shc) >= 1 and all(len(e[3]) == 2 and expr.fold(e[3][1], prog.consts) == 0 for e in shc) and \
                any(e[2].ckey == SV + "shutdown::{closure#0}" or (e[2].ckey or "").endswith("Future>::poll") for e in p.calls()[p.calls().index(shc[0]):]) if shc else False
            cond = [t for t in p.tests if "sent_closing" in t[1] or "last_accepted" in t[1]]
            ctx.check(bool(ok) and not cond, "C08-b", acc.key, "accept() ends only after the final shutdown(0) was awaited, unconditionally",
                      "accept() returns Ok(None) on a path that %s: after an earlier shutdown(n), n > 0, the last GOAWAY on the wire stays above "
                      "the requests actually served, and those of the unused grace interval are neither served nor rejected"
                      % ("tests %s first" % cond[0][1][:60] if cond and ok else "does not await shutdown(0)"), "", None, p.describe())

    # ------------------------------------------------------------------ C08-b accept loop
    ac = ru.need(ctx, "C08-b", SV + "poll_accept_request_stream_internal")
    if ac:
        heads = ac.loop_heads()
        ex = pa.Explorer(prog, ac, max_visits=1)
        its = []
        for h in heads:
            its += ex.paths(start=h, stop_at=heads)
        # iterations on which poll_accept_bi answered Ready(Ok(stream)), however the result was taken apart (`?` on the Poll, explicit arms)
        got = [p for p in its if "Ready" in p.outcomes(CI + "poll_accept_bi") and "Err" not in p.outcomes(CI + "poll_accept_bi")]
        ctx.floor("C08-b", "iterations that accepted a stream", len(got), 3)

        def is_id(v):
            return v[0] == "call" and pa.short(v[1]) == "send_id"

        def is_max(v):
            return v[0] == "param" and "sent_closing" in "".join(v[2])
        for p in got:
            sc = [t for t in p.tests if t[3][0] == "discr" and t[3][1][0] == "param" and "".join(t[3][1][2]).endswith(".sent_closing")]
            closing = sc and sc[-1][2] == "Some"
            rel = rel_between(p, is_id, is_max) if closing else None
            rejected = p.has_call("h3::quic::SendStream::reset", "::reset") or p.has_call("stop_sending")
            returned = p.end == "return" and p.ret_shape().startswith("Ready(Ok(Some(")
            if rejected:
                codes = {c for u, c in p.code_uses()}
                ok = closing and rel == ">=" and p.has_call("stop_sending") and p.has_call("::reset") and codes == {"H3_REQUEST_REJECTED"} \
                    and not returned and not p.has_call("HashSet<T, S>::insert", "::insert")
                ctx.check(ok, "C08-b", ac.key, "rejected exactly when send_id >= GOAWAY id (stop_sending + reset H3_REQUEST_REJECTED)",
                          "the rejection arm is taken on `send_id %s sent_closing` (closing=%s) with codes %s, returned=%s: RFC 9114 5.2 / the "
                          "property require rejection exactly for identifiers greater than or equal to the last GOAWAY identifier"
                          % (rel, closing, sorted(codes), returned), "send_id >= max_id", None, p.describe())
            elif returned:
                ok = (not closing) or rel == "<"
                ctx.check(ok, "C08-b", ac.key, "served only when send_id < GOAWAY id (or no GOAWAY sent)",
                          "a stream is handed to the application on `send_id %s sent_closing` after a GOAWAY was sent" % rel, "", None, p.describe())
                st = [e for e in p.stores() if "last_accepted_stream" in pa.vfmt(e[4])]
                ins = p.calls("::insert")
                # (that the stream is also entered into ongoing_streams is C09's clause, not a GOAWAY-identifier matter)
                ok = len(st) == 1 and expr.mentions(st[0][3], is_id)
                ctx.check(ok, "C08-b", ac.key, "served stream is remembered (last_accepted_stream)",
                          "a returned stream is not recorded: last_accepted=%s inserts=%s" % ([pa.vfmt(e[3]) for e in st], [pa.vfmt(e[3][1]) for e in ins]), "")
            else:
                ctx.violation("C08-b", ac.key, "accepted stream neither served nor rejected",
                              "an accepted stream is neither returned nor rejected (%s)" % (p.end if p.end != "return" else p.ret_shape()), None, p.describe())

    # ------------------------------------------------------------------ C08-d client side
    pg = ru.need(ctx, "C08-d", CI + "process_goaway")
    if pg:
        ps = [p for p in ru.all_paths(ctx, "C08-d", pg) if p.end == "return"]

        def is_prev(v):
            return expr.mentions(v, lambda n: n[0] == "call" and n[1] == "core::option::Option::map") or \
                (v[0] in ("proj", "param") and "<Some>" in pa.vfmt(v) and "param_2" in pa.vfmt(v))

        def is_idp(v):
            return v == ("param", 3, ())
        errs = [p for p in ps if p.ret_shape().startswith("Err")]
        oks = [p for p in ps if p.ret_shape().startswith("Ok")]
        ctx.check(len(errs) >= 1 and len(oks) >= 2, "C08-d", pg.key, "paths found", "process_goaway paths: %d err %d ok" % (len(errs), len(oks)), "")
        for p in errs:
            rel = rel_between(p, is_prev, is_idp)
            codes = p.codes("new")
            ctx.check(rel == "<" and codes == {"H3_ID_ERROR"} and p.has_call(CI + "handle_connection_error") and not p.stores(), "C08-d", pg.key,
                      "previous < new -> connection error H3_ID_ERROR, nothing stored",
                      "process_goaway errors on `previous %s new` with codes %s (stores: %d)" % (rel, sorted(codes), len(p.stores())), "", None, p.describe())
        for p in oks:
            rel = rel_between(p, is_prev, is_idp)
            hasprev = any(t[3][0] == "discr" and t[2] == "Some" for t in p.tests)
            ctx.check((rel == ">=" if hasprev else rel is None), "C08-d", pg.key, "accepted when no previous id or previous >= new",
                      "a GOAWAY is accepted on `previous %s new`" % rel, "", None, p.describe())
            st = [e for e in p.stores() if pa.vfmt(e[4]) == "param_2"]
            ok = len(st) == 1 and st[0][3][0] == "agg" and st[0][3][2] == "Some" and expr.mentions(st[0][3], is_idp) and p.has_call("ConnectionState::set_closing")
            ctx.check(ok, "C08-d", pg.key, "identifier stored and closing flag set",
                      "on acceptance the identifier stored is %s, set_closing=%s: a later, larger GOAWAY would not be detected / new requests "
                      "would still start" % ([pa.vfmt(e[3]) for e in st], p.has_call("ConnectionState::set_closing")), "", None, p.describe())
    pcl = ru.need(ctx, "C08-d", "h3::client::connection::Connection::poll_close")
    if pcl:
        heads = pcl.loop_heads()
        ex = pa.Explorer(prog, pcl, max_visits=1)
        its = []
        for h in heads:
            its += ex.paths(start=h, stop_at=heads)
        go = [p for p in its if "Goaway" in [t[2] for t in p.tests if t[3][0] == "discr"]]
        ctx.floor("C08-d", "client GOAWAY iterations", len(go), 3)
        for p in go:
            ir = [t for t in p.tests if t[3][0] == "call" and t[3][1] == "h3::proto::stream::StreamId::is_request"]
            if not ir:
                ctx.violation("C08-d", pcl.key, "GOAWAY id tested with is_request", "a GOAWAY is handled without the is_request test", None, p.describe())
                continue
            isreq = expr.test_holds(ir[-1], prog.consts, lambda v: 1 if (v[0] == "call" and v[1].endswith("is_request")) else None)
            if isreq:
                ctx.check(p.has_call(CI + "process_goaway"), "C08-d", pcl.key, "request id -> process_goaway", "process_goaway not called", "")
            else:
                ok = p.end == "return" and p.codes("new") == {"H3_ID_ERROR"} and not p.has_call(CI + "process_goaway")
                ctx.check(ok, "C08-d", pcl.key, "non-request id -> connection error H3_ID_ERROR",
                          "a GOAWAY whose identifier is not a client-initiated bidirectional stream id leads to %s codes %s"
                          % (p.ret_shape() if p.end == "return" else p.end, sorted(p.codes("new"))), "", None, p.describe())
            a = ir[-1][3][2][0]
            ctx.check(expr.mentions(a, lambda n: n[0] in ("proj", "param", "local") and "Goaway" in pa.vfmt(n)), "C08-d", pcl.key,
                      "is_request tests the frame's identifier", "is_request is applied to %s" % pa.vfmt(a), "")
    sr = ru.need(ctx, "C08-d", "h3::client::connection::SendRequest::send_request::{closure#0}")
    if sr:
        # the stream is opened by the poll_fn closure that calls OpenStreams::poll_open_bidi
        def opens_stream(p):
            for ck in p.closures():
                for c in prog.by_key.get(ck, []):
                    if list(c.calls("h3::quic::OpenStreams::poll_open_bidi", "poll_open_bidi")):
                        return True
            return False
        opens = [p for p in ru.all_paths(ctx, "C08-d", sr, max_visits=1) if opens_stream(p)]
        ctx.floor("C08-d", "paths of send_request that open a stream", len(opens), 1)
        for p in opens[:6]:
            ev = [pa.short(e[2].ckey) for e in p.calls() if pa.short(e[2].ckey) in ("check_peer_connection_closing", "poll_fn")]
            ev = ev[:ev.index("poll_fn") + 1] if "poll_fn" in ev else ev
            ok = "check_peer_connection_closing" in ev and ev.index("check_peer_connection_closing") < ev.index("poll_fn")
            t_ = [t for t in p.tests if pa.head_call(t[3])[0] and pa.head_call(t[3])[0].endswith("check_peer_connection_closing")]
            ok = ok and bool(t_) and t_[0][2] == "None"
            ctx.check(ok, "C08-d", sr.key, "no stream opened once the peer's GOAWAY was processed",
                      "send_request opens a stream without first seeing check_peer_connection_closing() == None (%s)" % ev, "", None, p.describe())
    cp = ru.need(ctx, "C08-d", "h3::error::connection_error_creators::CloseStream::check_peer_connection_closing")
    if cp:
        ps = [p for p in ru.all_paths(ctx, "C08-d", cp) if p.end == "return"]
        ok = len(ps) == 2
        for p in ps:
            c = [t for t in p.tests if t[3][0] == "call" and t[3][1].endswith("is_closing")]
            ok = ok and bool(c) and ((c[0][2] == "true") == p.ret_shape().startswith("Some(StreamError::RemoteClosing"))
        ctx.check(ok, "C08-d", cp.key, "closing -> Some(RemoteClosing)", "check_peer_connection_closing: %s" % [(p.ret_shape(), [(t[1][:30], t[2]) for t in p.tests]) for p in ps], "")
    ctx.assume("StreamId ordering is the derived ordering of its inner integer (C16)")
    # the identifier a GOAWAY carries is written and read as a varint: the varint codec tables (C16-a) run under this property too
    if not getattr(ctx, "nested", False):
        from rules import C16 as _c16p, shared as _shp
        _c16p.run(_shp.Proxy(ctx, ("C16-a",), "C08-c"))
        # "not a client-initiated bidirectional stream ID": the predicate the client applies to a received identifier (C16-b truth table)
        _c16p.run(_shp.Proxy(ctx, ("C16-b",), "C08-d", only=("StreamId::is_request",)))
        # every received GOAWAY reaches process_goaway (which is where `larger than an earlier one` is H3_ID_ERROR): the Goaway rows of the
        # two control-stream dispatch tables (C04-a)
        from rules import C04 as _c04p
        _c04p.run(_shp.Proxy(ctx, ("C04-a",), "C08-d", constructs=("Goaway",)))
