"""C04 Control and unidirectional stream rules are enforced with the right error."""
from engine import flow as fl, ru, paths as pa, expr, dispatch as dp
from rules import shared

EXPLANATION = (
    "Dispatch tables extracted by variant-constrained path exploration and compared exactly with RFC 9114 6.2 / 7.2 / "
    "Table 1: (a) ConnectionInner::poll_control over (frame variant x got_peer_settings) and every error / end-of-stream "
    "class of the control stream, the server's poll_next_control and the client's poll_close role filters; (b) stream-type "
    "classification (AcceptRecvStream::into_stream) and the uni-stream acceptor: second control/encoder/decoder stream -> "
    "H3_STREAM_CREATION_ERROR only when the slot is occupied, unknown types -> stop_sending without a connection error, "
    "streams closed before their type is known are dropped without a connection error, and the type/id varints are "
    "decoded only once enough bytes are buffered; (c) no path of the control pollers returns Pending (or is cancelled) "
    "after a frame was taken off the control stream without returning or storing it (no frame lost under back-pressure "
    "of the endpoint's own outgoing streams); (d) the control/QPACK stream slots and got_peer_settings are written only "
    "by the two audited functions, set_settings is called once; (e) both incremental readers clear their `bytes needed` "
    "memo after every successful decode (sibling cross-check). Arrival-order/chunking independence of the varint "
    "reader's arithmetic is value-level and not decided.")
# every anchor of these rules lives in the h3 crate: thorough tier repeats them on the feature-less build
EXTRA_CONFIGS = ["h3-plain"]
RULES = "C04-a control dispatch tables (A3); C04-b stream classification (A3); C04-c frame acted on exactly once, Pending only from the control stream itself (A8/A3); C04-d who may claim slots (A10); C04-e memo cleared (A2); C04-f varint decoded only when complete (A5); shared through a proxy: C16-a under C04-f; C02-e (got_frame_error) under C04-a; C06-b (control loops) under C04-c"

CI = "h3::connection::ConnectionInner::"
PN = "h3::frame::FrameStream::poll_next"
ALL = {"Data", "Headers", "CancelPush", "Settings", "PushPromise", "Goaway", "MaxPushId", "WebTransportStream", "Grease"}


def fatal_with(code):
    return lambda o, p: o[3] and o[1] == {code} and "Err" in o[0]


def run(ctx):
    prog = ctx.prog
    # the codes this property names are the registry values (the rules below speak of them by name)
    shared.error_code_values(ctx, "C04-a", ("H3_CLOSED_CRITICAL_STREAM", "H3_FRAME_UNEXPECTED", "H3_MISSING_SETTINGS", "H3_STREAM_CREATION_ERROR", "H3_ID_ERROR"))
    # ------------------------------------------------------------------ C04-a poll_control
    pc = ru.need(ctx, "C04-a", CI + "poll_control")
    if pc:
        ps = [p for p in ru.all_paths(ctx, "C04-a", pc, max_visits=1) if p.end == "return"]
        rows = {}
        for p in ps:
            cls = dp.classify(p, lambda r: r[0] == "call" and r[1] == PN)
            if not cls:
                continue
            fc = dp.frame_class(cls)
            g = p.tested("param_1.got_peer_settings")
            got = None
            if g:
                got = expr.test_holds(g[-1], prog.consts, lambda v: 1 if (v[0] == "param" and "got_peer_settings" in "".join(v[2])) else None)
            quic = cls.get(("Ready", "Err", "Quic"))
            for lab in ([fc] if isinstance(fc, str) else sorted(fc)):
                if lab == "Err:Quic" and quic:
                    lab = "Err:Quic:" + quic
                rows.setdefault((lab, got), []).append((p, dp.outcome(prog, p)))

        def exp(lab, got, pred, text):
            hit = [(p, o) for (l, g), lst in rows.items() for p, o in lst if l == lab and (got is None or g is got or g is None and got is None)]
            if got is not None:
                hit = [(p, o) for (l, g), lst in rows.items() for p, o in lst if l == lab and g is got]
            ok = bool(hit) and all(pred(o, p) for p, o in hit)
            summ = sorted({(o[0][:50], tuple(sorted(o[1])), o[3], o[4]) for _, o in hit}, key=str)
            ctx.check(ok, "C04-a", pc.key, "%s%s -> %s" % (lab, "" if got is None else (" & settings %s" % ("seen" if got else "not seen")), text),
                      "control stream: `%s`%s leads to %s; RFC 9114 requires: %s"
                      % (lab, "" if got is None else (" with peer SETTINGS %s" % ("already received" if got else "not yet received")),
                         summ or "no path", text), str(summ)[:300], None, hit[0][0].describe() if hit else None)
        exp("Settings", False,
            lambda o, p: o[0].startswith("Ready(Ok(") and not o[3] and "set_settings" in o[4] and
            any("got_peer_settings" in pa.vfmt(e[4]) and expr.fold(e[3]) == 1 or ("got_peer_settings" in pa.vfmt(e[4]) and pa.vfmt(e[3]) in ("true", "const true")) for e in p.stores()),
            "apply SETTINGS once, remember it, pass the frame on")
        exp("Settings", True, fatal_with("H3_FRAME_UNEXPECTED"), "connection error H3_FRAME_UNEXPECTED (second SETTINGS)")
        for v in sorted(ALL - {"Settings"}):
            exp(v, False, fatal_with("H3_MISSING_SETTINGS"), "connection error H3_MISSING_SETTINGS")
        for v in ("Goaway", "CancelPush", "MaxPushId"):
            exp(v, True, lambda o, p: o[0].startswith("Ready(Ok(") and not o[3], "pass to the role layer")
        for v in ("Data", "Headers", "PushPromise", "WebTransportStream", "Grease"):
            exp(v, True, fatal_with("H3_FRAME_UNEXPECTED"), "connection error H3_FRAME_UNEXPECTED")
        exp("None", None, fatal_with("H3_CLOSED_CRITICAL_STREAM"), "connection error H3_CLOSED_CRITICAL_STREAM (control stream closed)")
        exp("Err:Quic:StreamTerminated", None, fatal_with("H3_CLOSED_CRITICAL_STREAM"), "connection error H3_CLOSED_CRITICAL_STREAM (reset)")
        exp("Err:Quic:Unknown", None, fatal_with("H3_CLOSED_CRITICAL_STREAM"), "connection error H3_CLOSED_CRITICAL_STREAM")
        exp("Err:Quic:ConnectionErrorIncoming", None, lambda o, p: o[3] and not o[1] and "Err" in o[0], "report the transport's connection error")
        exp("Err:UnexpectedEnd", None, fatal_with("H3_FRAME_ERROR"), "connection error H3_FRAME_ERROR")
        exp("Err:Proto", None, lambda o, p: o[3] and "got_frame_error" in o[4] and not o[1], "connection error by got_frame_error (C02-e)")
        exp("Pending", None, lambda o, p: o[0] == "Pending", "Pending")
        # C04-c: after the frame is Ready(Ok(Some(..))) no Pending return
        lost = [p for p in ps if p.ret_shape() == "Pending" and
                isinstance(dp.frame_class(dp.classify(p, lambda r: r[0] == "call" and r[1] == PN)), frozenset)]
        ctx.check(not lost, "C04-c", pc.key, "no Pending after a control frame was consumed",
                  "poll_control returns Pending on a path where a frame had already been taken off the control stream (the frame is "
                  "dropped: a SETTINGS or GOAWAY received while the endpoint's own grease stream is blocked is lost)", "",
                  None, lost[0].describe() if lost else None)
        consumed = [p for p in ps if isinstance(dp.frame_class(dp.classify(p, lambda r: r[0] == "call" and r[1] == PN)), frozenset)]
        ctx.floor("C04-c", "paths of poll_control holding a consumed frame", len(consumed), 5)
        for p in consumed:
            ok = p.ret_shape().startswith("Ready(")
            if not ok:
                ctx.violation("C04-c", pc.key, "consumed frame returned or refused on every path",
                              "a path holding a consumed control frame ends with %s" % p.ret_shape(), None, p.describe())
        # entry: sticky error first (C05-d shares)
        first = [e for e in ps[0].calls()][:1] if ps else []
        # set_settings once
    sites = [(b.key, bb) for b, bb, t in prog.callers_of("ConnectionState::set_settings", "shared_state::ConnectionState::set_settings")]
    ctx.check(len(sites) == 1 and sites[0][0] == CI + "poll_control", "C04-d", "h3::shared_state::ConnectionState::set_settings", "one call site",
              "set_settings is called from %s; it must be applied exactly once, in poll_control's first-SETTINGS arm" % sites, str(sites))

    # ------------------------------------------------------------------ role filters
    sv = ru.need(ctx, "C04-a", "h3::server::connection::Connection::poll_next_control")
    if sv:
        ps = [p for p in ru.all_paths(ctx, "C04-a", sv, max_visits=1) if p.end == "return"]
        rows = {}
        for p in ps:
            cls = dp.classify(p, lambda r: r[0] == "call" and r[1] == CI + "poll_control")
            fr = cls.get(("Ready", "?")) or cls.get(("Ready", "Ok")) or cls.get(("?",))
            if fr is None:
                lab = "Pending" if cls.get(()) == "Pending" else ("Err" if p.ret_shape().startswith("Residual") else None)
                if lab:
                    rows.setdefault(lab, []).append((p, dp.outcome(prog, p)))
                continue
            for lab in fr.split("|"):
                rows.setdefault(lab, []).append((p, dp.outcome(prog, p)))

        def exps(lab, pred, text):
            hit = rows.get(lab, [])
            ok = bool(hit) and all(pred(o, p) for p, o in hit)
            summ = sorted({(o[0][:50], tuple(sorted(o[1])), o[3], o[4]) for _, o in hit}, key=str)
            ctx.check(ok, "C04-a", sv.key, "server: %s -> %s" % (lab, text),
                      "server control stream: %s leads to %s; expected: %s" % (lab, summ or "no path", text), str(summ)[:200],
                      None, hit[0][0].describe() if hit else None)
        exps("Settings", lambda o, p: o[0].startswith("Ready(Ok(") and not o[3], "ignored (already applied)")
        exps("Goaway", lambda o, p: "process_goaway" in o[4] and not o[3], "process_goaway")
        exps("MaxPushId", lambda o, p: o[0].startswith("Ready(Ok(") and not o[3], "ignored")
        exps("CancelPush", lambda o, p: o[0].startswith("Ready(Ok(") and not o[3], "ignored")
        for v in ("Data", "Headers", "PushPromise", "WebTransportStream", "Grease"):
            exps(v, fatal_with("H3_FRAME_UNEXPECTED"), "connection error H3_FRAME_UNEXPECTED")
        exps("Pending", lambda o, p: o[0] == "Pending", "Pending")
    cl = ru.need(ctx, "C04-a", "h3::client::connection::Connection::poll_close")
    if cl:
        heads = cl.loop_heads()
        ex = pa.Explorer(prog, cl, max_visits=1)
        its = []
        for h in heads:
            its += ex.paths(start=h, stop_at=heads)
        rows = {}
        for p in its:
            cls = dp.classify(p, lambda r: r[0] == "call" and r[1] == CI + "poll_control")
            fr = cls.get(("Ready", "Ok"))
            lab = None
            if fr:
                for lab in fr.split("|"):
                    rows.setdefault(lab, []).append((p, dp.outcome(prog, p)))
            elif cls.get(("Ready",)) == "Err":
                rows.setdefault("Err", []).append((p, dp.outcome(prog, p)))
        ctx.floor("C04-a", "client poll_close iterations classified", sum(len(v) for v in rows.values()), 6)

        def expc(lab, pred, text):
            hit = rows.get(lab, [])
            ok = bool(hit) and all(pred(o, p) for p, o in hit)
            summ = sorted({(str(o[0])[:50], tuple(sorted(o[1])), o[3], o[4]) for _, o in hit}, key=str)
            ctx.check(ok, "C04-a", cl.key, "client: %s -> %s" % (lab, text),
                      "client control stream: %s leads to %s; expected: %s" % (lab, summ or "no path", text), str(summ)[:200],
                      None, hit[0][0].describe() if hit else None)
        expc("Settings", lambda o, p: p.end == "stop" and not o[3], "ignored (already applied), keep polling")
        expc("Goaway", lambda o, p: (p.end == "stop" and "process_goaway" in o[4]) or (p.end == "return" and (o[1] == {"H3_ID_ERROR"} or "process_goaway" in o[4])),
             "is_request check then process_goaway (C08), keep polling")
        for v in ("MaxPushId", "CancelPush", "Data", "Headers", "PushPromise", "WebTransportStream", "Grease"):
            expc(v, lambda o, p: p.end == "return" and o[3] and o[1] == {"H3_FRAME_UNEXPECTED"}, "connection error H3_FRAME_UNEXPECTED")
        expc("Err", lambda o, p: p.end == "return" and not o[1], "return the connection error")
        # C04-c at the role layers: an iteration that consumed a frame never ends the call with Pending
        for p in its:
            cls = dp.classify(p, lambda r: r[0] == "call" and r[1] == CI + "poll_control")
            if cls.get(("Ready", "Ok")) and p.end == "return":
                ctx.check(p.ret_shape() != "Pending", "C04-c", cl.key, "client: consumed frame not dropped on Pending",
                          "poll_close returns Pending in an iteration that had consumed a control frame", "", None, p.describe())

    # ------------------------------------------------------------------ C04-b stream classification
    it = ru.need(ctx, "C04-b", "h3::stream::AcceptRecvStream::into_stream")
    if it:
        ps = [p for p in ru.all_paths(ctx, "C04-b", it) if p.end == "return"]
        consts = prog.consts
        want = {0: "Control", 1: "Push", 2: "Encoder", 3: "Decoder", 0x54: "WebTransportUni", 0x21: "Unknown", 4: "Unknown", 0x40: "Unknown"}
        for ty, w in sorted(want.items()):
            def sub(v, ty=ty):
                if v[0] in ("proj", "param") and expr.mentions(v, lambda n: n[0] == "param" and n[2][:1] == (".ty",)) and not (v[0] == "call"):
                    names = v[2] if v[0] == "param" else v[2]
                    if names and names[-1] in (".0", "0"):
                        return ty
                if v[0] == "proj" and v[2] and v[2][-1] == ".0" and v[1][0] == "call" and pa.short(v[1][1]) in ("expect", "unwrap"):
                    return ty
                return None
            hit = {p.ret_shape().split("::")[-1] for p in expr.decide(ps, consts, sub)}
            ctx.check(hit == {w}, "C04-b", it.key, "stream type %#x -> %s" % (ty, w),
                      "stream type %#x is classified as %s, RFC 9114 6.2 / the extension registry says %s" % (ty, sorted(hit), w), w)
    par = ru.need(ctx, "C04-b", CI + "poll_accept_recv")
    if par:
        ex = pa.Explorer(prog, par, max_visits=1)
        heads = par.loop_heads()
        rows = {}
        for bb, t in par.calls("AcceptRecvStream::into_stream"):
            for p in ex.paths(start=t.target, stop_at=heads):
                v = [x for x in p.tests if x[3][0] == "discr" and pa.head_call(x[3])[0] is None and x[2] in
                     ("Control", "Push", "Encoder", "Decoder", "WebTransportUni", "Unknown") or "|" in x[2] and "Control" not in x[2] and x[3][0] == "discr"]
                lab = p.tests[0][2] if p.tests else "?"
                for l in lab.split("|"):
                    rows.setdefault(l, []).append((p, dp.outcome(prog, p)))

        def occ(p, slot):
            """True/False: did the path establish that the slot was already occupied?"""
            for t in p.tests:
                txt = t[1]
                if slot in txt:
                    if "is_some" in txt:
                        return t[2] == "true"
                    if "replace" in txt:
                        return t[2] == "Some"
            return None
        for var, slot in (("Control", "control_recv"), ("Encoder", "encoder_recv"), ("Decoder", "decoder_recv")):
            hit = rows.get(var, [])
            ctx.check(len(hit) >= 2, "C04-b", par.key, "%s: both slot states explored" % var, "paths for %s: %d" % (var, len(hit)), "")
            for p, o in hit:
                oc = occ(p, slot)
                if oc is True:
                    ctx.check(o[3] and o[1] == {"H3_STREAM_CREATION_ERROR"} and p.end == "return", "C04-b", par.key,
                              "second %s stream -> H3_STREAM_CREATION_ERROR" % var,
                              "a second %s stream leads to %s codes %s" % (var, o[0], sorted(o[1])), "", None, p.describe())
                elif oc is False:
                    ctx.check(not o[3] and p.end == "stop", "C04-b", par.key, "first %s stream accepted" % var,
                              "the first %s stream leads to %s (fatal=%s)" % (var, o[0], o[3]), "", None, p.describe())
                else:
                    ctx.violation("C04-b", par.key, "%s arm depends on the slot being occupied" % var,
                                  "the %s arm reaches %s without testing whether the %s slot is occupied" % (var, o[0], slot), None, p.describe())
        for p, o in rows.get("Unknown", []):
            ok = (not o[3]) and p.end == "stop" and "stop_sending" in o[4]
            ctx.check(ok, "C04-b", par.key, "unknown stream type: stop_sending, no connection error",
                      "an unknown unidirectional stream type leads to %s fatal=%s markers=%s; RFC 9114 6.2: MUST NOT be a connection "
                      "error" % (o[0], o[3], o[4]), "", None, p.describe())
        ctx.check(bool(rows.get("Unknown")), "C04-b", par.key, "unknown arm present", "no arm for unknown stream types", "")
        for p, o in rows.get("Push", []):
            ctx.check(not o[3], "C04-b", par.key, "push stream: no connection error raised here", "push arm: %s" % (o,), "")
        # poll_type results
        rows2 = {}
        for bb, t in par.calls("AcceptRecvStream::poll_type"):
            for p in ex.paths(start=bb, stop_at=heads | {b2 for b2, _ in par.calls("AcceptRecvStream::into_stream")}):
                cls = dp.classify(p, lambda r: r[0] == "call" and r[1] == "h3::stream::AcceptRecvStream::poll_type")
                lab = cls.get(())
                if lab == "Ready":
                    r = cls.get(("Ready",))
                    lab = "Ready:" + (r or "?")
                    if r == "Err":
                        lab += ":" + (cls.get(("Ready", "Err")) or "?")
                rows2.setdefault(lab, []).append((p, dp.outcome(prog, p)))
        chk = {
            "Ready:Err:EndOfStream": (lambda o, p: not o[3] and p.end == "stop", "drop the stream, no connection error"),
            "Ready:Err:IncomingError": (lambda o, p: o[3] and p.end == "return", "report the transport's connection error"),
            "Ready:Err:InternalError": (lambda o, p: o[3] and p.end == "return", "connection error"),
            "Pending": (lambda o, p: not o[3] and p.end == "stop", "keep the stream for the next poll"),
            "Ready:Ok": (lambda o, p: not o[3], "resolve the stream"),
        }
        for lab, (pred, text) in chk.items():
            hit = rows2.get(lab, [])
            ok = bool(hit) and all(pred(o, p) for p, o in hit)
            ctx.check(ok, "C04-b", par.key, "poll_type %s -> %s" % (lab, text),
                      "stream whose type read ended with %s leads to %s; expected: %s"
                      % (lab, sorted({(str(o[0])[:40], o[3], p.end) for p, o in hit}) or "no path", text), "", None, hit[0][0].describe() if hit else None)

    # HTTP/2-reserved and unknown frame types are recognised whatever their payload (shared with C03)
    shared.frame_type_table(ctx, "C04-type")
    # ------------------------------------------------------------------ C04-d who may claim the slots
    writers = {}
    for b in prog.bodies:
        for bb, i, s in b.all_stmts():
            if s.s == "assign" and s.place.proj:
                n = s.place.fields()
                if n and n[-1] in ("control_recv", "got_peer_settings"):
                    writers.setdefault(n[-1], set()).add(b.key)
        for bb, t in b.all_terms():
            if t.t == "call" and t.cname in ("replace", "take", "insert", "get_or_insert") and t.args and t.args[0].place is not None:
                n = t.args[0].place.fields()
                o = fl.Flow(b, prog).origin(t.args[0]) if not n else None
                txt = ".".join(n) if n else fl.fmt(o)
                for f_ in ("encoder_recv", "decoder_recv", "control_recv"):
                    if f_ in txt:
                        writers.setdefault(f_, set()).add(b.key)
    allow = {"control_recv": {CI + "poll_accept_recv"}, "got_peer_settings": {CI + "poll_control"},
             "encoder_recv": {CI + "poll_accept_recv"}, "decoder_recv": {CI + "poll_accept_recv"}}
    for f_, al in allow.items():
        w = writers.get(f_, set())
        ctx.check(bool(w) and w <= al, "C04-d", "h3::connection::ConnectionInner." + f_, "who may write",
                  "%s is written in %s; audited writer: %s" % (f_, sorted(w), sorted(al)), str(sorted(w)))

    # ------------------------------------------------------------------ C04-e / C04-f the two incremental readers
    # the driver of the control stream is never parked by anything but the control stream itself: a Pending answer of
    # poll_control means "no control frame yet" (the stream's poll_next answered Pending, or no control stream was accepted yet
    # although the accept loop was driven). Subordinate work it drives on the side (the grease stream) must not gate it.
    pc = ru.need(ctx, "C04-c", CI + "poll_control")
    if pc:
        pend = [p for p in ru.all_paths(ctx, "C04-c", pc, max_visits=1) if p.end == "return" and p.ret_shape() == "Pending"]
        ctx.floor("C04-c", "Pending paths of poll_control", len(pend), 2)
        for p in pend:
            pn = p.outcomes("h3::frame::FrameStream::poll_next", "FrameStream::poll_next")
            none_yet = [t[2] for t in p.tests if t[3][0] == "discr" and pa.vfmt(t[3][1]).endswith(".control_recv")]
            ok = p.has_call(CI + "poll_accept_recv") and (pn[:1] == ["Pending"] or none_yet[-1:] == ["None"])
            last = [pa.short(pa.source_call(t[3])[0] or "?") + "=" + t[2] for t in p.tests if t[3][0] == "discr"][-2:]
            ctx.check(ok, "C04-c", pc.key, "Pending only when the control stream itself is pending (or none was accepted yet)",
                      "poll_control answers Pending on a path that did not get Pending from the control stream's poll_next (last decisions: %s): "
                      "while that other operation is blocked (e.g. the grease stream's write under flow control) the peer's SETTINGS / GOAWAY / "
                      "MAX_PUSH_ID are not read" % last, "", None, p.describe())
    shared.frame_decoder_memo(ctx, "C04-e")
    nv = ru.need(ctx, "C04-e", "h3::stream::AcceptRecvStream::poll_next_varint")
    if nv:
        heads = nv.loop_heads()
        ex = pa.Explorer(prog, nv, max_visits=1)
        its = []
        for h in heads:
            its += ex.paths(start=h, stop_at=heads)
        dec = [p for p in its if p.has_call("h3::proto::varint::VarInt::decode")]
        ctx.floor("C04-e", "iterations of poll_next_varint that decode", len(dec), 1)
        for p in dec:
            if p.ret_shape().startswith("Ready(Ok("):
                st = [e for e in p.stores() if "expected" in pa.vfmt(e[4])]
                ok = bool(st) and st[-1][3][0] == "agg" and st[-1][3][2] == "None" and st[-1][1] in p.blocks and \
                    p.blocks.index(st[-1][1]) > p.blocks.index(p.calls("h3::proto::varint::VarInt::decode")[0][1])
                ctx.check(ok, "C04-e", nv.key, "memo cleared after a decoded varint",
                          "poll_next_varint returns a decoded varint without resetting `expected`: the width of the stream-type varint is "
                          "reused for the push/session id that follows (a longer id split across chunks raises a spurious "
                          "H3_INTERNAL_ERROR connection error)", "", None, p.describe())
            # C04-f: decode only when remaining() >= expected
            nf = [expr.orient(expr.cmp_nf(t[3], t[2]), lambda v: v[0] == "call" and pa.short(v[1]) == "remaining") for t in p.tests]
            nf = [x for x in nf if x]
            ok = any(x[1] == ">=" and "expected" in pa.vfmt(x[2]) for x in nf)
            ctx.check(ok, "C04-f", nv.key, "varint decoded only when remaining() >= expected",
                      "VarInt::decode is reached on a path that has not established remaining() >= expected: a stream closed or reset "
                      "in the middle of its type varint becomes an H3_INTERNAL_ERROR connection error instead of being dropped",
                      "", None, p.describe())
        # first byte peeked only when at least one byte is buffered
        for p in its:
            pk = [e for e in p.calls("h3::proto::varint::VarInt::encoded_size")]
            if not pk:
                continue
            nf = [expr.orient(expr.cmp_nf(t[3], t[2]), lambda v: v[0] == "call" and pa.short(v[1]) == "remaining") for t in p.tests
                  if t[0] in p.blocks[:p.blocks.index(pk[0][1]) + 1]]
            nf = [x for x in nf if x]
            ok = any((x[1] == ">=" and expr.fold(x[2]) == 1) or (x[1] == ">" and expr.fold(x[2]) == 0) for x in nf)
            ctx.check(ok, "C04-f", nv.key, "first byte peeked only when remaining() >= 1",
                      "buf.chunk()[0] is read on a path without remaining() >= 1: a stream that ends before its type byte panics", "", None, p.describe())
        ctx.floor("C04-f", "first-byte peeks checked in poll_next_varint", len([p for p in its if p.calls("h3::proto::varint::VarInt::encoded_size")]), 4)
        # table poll_read result -> action
        rows = {}
        for p in its:
            cls = dp.classify(p, lambda r: r[0] == "call" and r[1].endswith("BufRecvStream::poll_read"))
            if not cls:
                continue
            lab = cls.get(())
            if lab == "Ready":
                r = cls.get(("Ready",))
                lab = "Ready:%s" % r
                if r == "Err":
                    lab += ":" + (cls.get(("Ready", "Err")) or "?")
            rows.setdefault(lab, []).append(p)
        ce = rows.get("Ready:Err:ConnectionErrorIncoming", [])
        ctx.check(bool(ce) and all(p.ret_shape().startswith("Ready(Err(PollTypeError::IncomingError") for p in ce), "C04-b", nv.key,
                  "transport connection error -> IncomingError", "rows: %s" % {k: len(v) for k, v in rows.items()}, "")
        for lab in ("Ready:Err:StreamTerminated", "Ready:Err:Unknown"):
            hit = rows.get(lab, [])
            bad = [p for p in hit if p.end == "return" and "IncomingError" in p.ret_shape()]
            ctx.check(bool(hit) and not bad, "C04-b", nv.key, "%s is not a connection-level error" % lab.split(":")[-1],
                      "%s on an untyped stream is turned into %s" % (lab, [p.ret_shape() for p in bad]), "")
    ctx.assume("FrameStream::poll_next segments the control stream as decided under C02")
    # stream types, frame types, lengths and identifiers on the control and unidirectional streams are varints: the varint codec tables (C16-a) run under this property too
    if not getattr(ctx, "nested", False):
        from rules import C16 as _c16p, shared as _shp
        _c16p.run(_shp.Proxy(ctx, ("C16-a",), "C04-f"))
        # which code a frame error of the control stream is raised with (reserved HTTP/2 types -> H3_FRAME_UNEXPECTED, malformed ->
        # H3_FRAME_ERROR, ..) is the error table of C02-e
        from rules import C02 as _c02p
        _c02p.run(_shp.Proxy(ctx, ("C02-e",), "C04-a", only=("got_frame_error",)))
        # the driver keeps reading the control stream for as long as it is polled: a Pending that did not come from a callee (C06-b) on
        # the two control loops means frames - and rule violations - behind it are never looked at
        from rules import C06 as _c06p
        _c06p.run(_shp.Proxy(ctx, ("C06-b",), "C04-c", only=("Connection::poll_control", "ConnectionInner::poll_control", "Connection::poll_next_control", "Connection::poll_close")))
