"""C15 Huffman strings and prefixed integers: tables, integer bound, codec entry points."""
import json
import os
from fractions import Fraction
from engine import flow as fl, ru, paths as pa, expr
from engine.mir import Place

EXPLANATION = (
    "Table agreement and bound computation over h3::qpack::prefix_string and prefix_int: (a) the 256-entry Huffman "
    "encode table (const initialiser) has, for every symbol, the code length of RFC 7541 Appendix B and the canonical "
    "code those lengths determine; the multi-level decode tree (const nodes linked by Partial references) is walked "
    "structurally and must reach each symbol exactly once along exactly the encode table's code, with the EOS code "
    "ending in the empty EOF node; Kraft sum with EOS is 1. (b) From the constants and comparison read out of "
    "prefix_int::decode (step, continuation mask, `power >= MAX_POWER` -> Overflow) the maximum number of continuation "
    "groups and the largest shift are computed and the accumulator is shown not to wrap a u64; every byte is fetched "
    "through the bounds-checked BufExt::get; every call site passes a literal prefix size within range. (c) "
    "prefix_string::{encode,decode} pass size-1 to the integer codec, use the lowest flag bit as the Huffman flag on "
    "both sides, and check the declared length against the buffer before copying. Round trips for all strings are "
    "value-level and not decided. (d) check_eof's mask is all ones for every count; DecodeIter::next ends the string only where "
    "the table walk met the end of the input, on a decision that depends on the window position read before the walk and on the "
    "input bytes (padding consumed by the walk is examined too), and bounds the accepted leftover below eight bits - the last "
    "clause is violated by the current tree and listed as a known finding (ff decodes to the empty string)."
    " C15-a also tabulates HuffmanDecoder::decode_next by the decisions its paths make: the only clean end is fetch_value's Ok(None); a code without a table entry (EOS) is an error; symbols and sub-tables come from the entry found.")
# every anchor of these rules lives in the h3 crate: thorough tier repeats them on the feature-less build
EXTRA_CONFIGS = ["h3-plain"]
RULES = "C15-a Huffman tables vs RFC 7541 App. B, decode_next row table (A11/A3); C15-b integer accumulator bound and truncation, error inventory of prefix_int::decode (A6/A15/A3); C15-c codec entry points, error inventory of prefix_string::decode (A11/A3); C15-d end-of-input padding mask evaluated over count 1..8 (extracted-expression evaluation), the end of a string is decided from where the last symbol ended: None only after the walk met the end of the input, decision depends on the pre-walk position and the input bytes (MIR taint), leftover bounded below eight bits (known finding); C15-c also: declared length, H flag and written octets of string encode belong to the same form; Huffman errors propagate"

HERE = os.path.dirname(os.path.dirname(os.path.abspath(__file__)))
REF = json.load(open(os.path.join(HERE, "ref", "rfc7541_huffman_lengths.json")))
P = "h3::qpack::prefix_string::"
PI = "h3::qpack::prefix_int::"


def canonical(lengths):
    """Canonical Huffman codes (as bit strings) from code lengths; index 256 = EOS."""
    order = sorted(range(len(lengths)), key=lambda s: (lengths[s], s))
    codes = {}
    code = 0
    prev = lengths[order[0]]
    for s in order:
        code <<= (lengths[s] - prev)
        prev = lengths[s]
        codes[s] = format(code, "0%db" % lengths[s])
        code += 1
    return codes


def huffman_errors_propagate(ctx, rule="C15-c"):
    """prefix_string::decode hands a Huffman decoding error on (shared with C11-c): every item of the hpack_decode() iterator
    is examined, an Err item ends the function with that error, and no adapter that drops errors sits on the iterator."""
    prog = ctx.prog
    sd = ru.need(ctx, rule, P + "decode")
    if not sd:
        return
    ps = [p for p in ru.all_paths(ctx, rule, sd, max_visits=1) if p.has_call("hpack_decode")]
    ctx.floor(rule, "Huffman paths of prefix_string::decode", len(ps), 2)
    errp = [p for p in ps if p.end == "return" and not p.ret_shape().startswith("Ok(") and
            any(t[2] in ("Break", "Err") and "next@" in t[1] and "<Some>.0" in t[1] for t in p.tests)]
    ctx.check(bool(errp), rule, sd.key, "an Err item of the Huffman iterator ends decode with that error",
              "prefix_string::decode has no path that returns an error because an item of hpack_decode() was Err: invalid padding, an EOS "
              "symbol or a truncated code is dropped and the string is accepted (possibly shortened)", "")
    dropping = ("flatten", "map_while", "filter_map", "flat_map", "take_while", "scan")
    bad = sorted({t.cname for bb, t in sd.all_terms() if t.t == "call" and t.cname in dropping and (t.ckey or "").startswith(("core::iter", "<"))} |
                 {pa.short(a[1]) for p in ps for e in p.calls() for a in e[3] if a[0] == "fn" and a[1] in ("core::result::Result::ok", "core::result::Result::unwrap_or_default")})
    ctx.check(not bad, rule, sd.key, "no error-dropping adapter on the Huffman iterator",
              "prefix_string::decode runs the Huffman iterator through %s, which silently discards Err items" % bad, "")
    okp = [p for p in ps if p.end == "return" and p.ret_shape().startswith("Ok(")]
    for p in okp:
        ex_ = [t[2] for t in p.tests if t[3][0] == "discr" and "next@" in t[1] and "<Some>" not in t[1]]
        ctx.check(ex_[-1:] == ["None"], rule, sd.key, "Ok only when the Huffman iterator is exhausted",
                  "an Ok return on the Huffman path does not follow the iterator's None (decisions on next(): %s)" % ex_[-2:], "", None, p.describe())


def huffman_decode_rows(ctx, rule="C15-a"):
    """Row table of HuffmanDecoder::decode_next (shared with C11: a string literal with an EOS code is not a valid field section)."""
    prog = ctx.prog
    # ------------------------------------------------------------ C15-a walking the decode tables
    # decode_next: end of input comes only from fetch_value (which checks the padding, C15-d); a code that leads to no table
    # entry (the EOS code, RFC 7541 5.2) is an error, never a clean end; symbols and sub-tables are taken from the entry found
    dn = ru.need(ctx, rule, P + "decode::HuffmanDecoder::decode_next")
    if dn:
        ps = [p for p in ru.all_paths(ctx, rule, dn, max_visits=1) if p.end == "return"]
        ctx.floor(rule, "returning paths of decode_next", len(ps), 5)
        seen = set()
        for p in ps:
            fv = p.outcomes("HuffmanDecoder::fetch_value")       # the same chain for `match`, `?` and `.ok_or_else(..)?`
            got = p.outcomes("::get")
            sh = p.ret_shape()
            if not fv and not p.has_call("HuffmanDecoder::fetch_value"):
                # fetch_value written in place: read_bits Ok(v) is Ok(Some(v)); read_bits Err hands over to check_eof (padding check, C15-d)
                rb = p.outcomes("decode::read_bits")
                fv = ["Ok", "Some"] if rb[:1] == ["Ok"] else (p.outcomes("HuffmanDecoder::check_eof") if rb[:1] == ["Err"] else [])
            if fv[:1] == ["Err"]:
                row, ok = "fetch_value Err", (sh.startswith("Err(") or sh.startswith("Residual(")) and ("fetch_value" in pa.vfmt(p.ret) or "check_eof" in pa.vfmt(p.ret))
            elif fv[:2] == ["Ok", "None"]:
                row, ok = "fetch_value Ok(None)", sh == "Ok(None)"
            elif got[:1] == ["None"]:
                row, ok = "no table entry", sh.startswith("Err(") or sh.startswith("Residual(")
            elif got[:2] == ["Some", "Sym"]:
                row, ok = "symbol", sh.startswith("Ok(Some(") and "<Sym>.0" in pa.vfmt(p.ret)
            elif got[:2] == ["Some", "Partial"]:
                row, ok = "sub-table", sh == "call:decode_next" and "<Partial>.0" in pa.vfmt(p.ret)
            else:
                row, ok = "unrecognised (%s / %s)" % (fv, got), False
            seen.add(row)
            ctx.check(ok, rule, dn.key, "decode_next row: %s" % row,
                      "decode_next returns %s on the `%s` path: the only clean end of a Huffman string is fetch_value's Ok(None) (input exhausted, "
                      "padding checked); a code without a table entry is the EOS code and must be refused (RFC 7541 5.2)" % (sh, row), "", None, p.describe())
        ctx.check(seen >= {"fetch_value Err", "fetch_value Ok(None)", "no table entry", "symbol", "sub-table"}, rule, dn.key, "all five rows present", "rows: %s" % sorted(seen), "")



def run(ctx):
    prog = ctx.prog
    consts = prog.consts
    lengths = REF["lengths"] + [REF.get("eos_length", 30)]
    ctx.check(len(lengths) == 257 and sum(Fraction(1, 2 ** l) for l in lengths) == 1, "C15-a", "ref/rfc7541_huffman_lengths.json",
              "reference lengths form a complete code (Kraft sum 1)", "reference table is not a complete prefix code", "")
    ref_codes = canonical(lengths)

    # ------------------------------------------------------------ encode table
    enc_codes = {}
    b = ru.need(ctx, "C15-a", P + "encode::HPACK_STRING")
    if b:
        o = fl.Flow(b, prog).origin(Place({"l": 0}), depth=12)
        ok = o[0] == "agg" and o[1] == "array" and len(o[2]) == 256
        ctx.check(ok, "C15-a", b.key, "256 entries", "the encode table is not a 256-element array literal", "")
        if ok:
            for sym, e in enumerate(o[2]):
                try:
                    arr = e[2][0]
                    while arr[0] == "cast":
                        arr = arr[1]
                    by = [expr.fold(x) for x in arr[2]]
                    n = expr.fold(e[2][1])
                    full, rem = divmod(n, 8)
                    assert len(by) == full + (1 if rem else 0) and all(isinstance(x, int) and 0 <= x < 256 for x in by)
                    bits = "".join(format(x, "08b") for x in by[:full])
                    if rem:
                        assert by[-1] < (1 << rem)
                        bits += format(by[-1], "0%db" % rem)
                    enc_codes[sym] = bits
                except Exception:
                    ctx.unrecognised("C15-a", b.key, "entry %d" % sym, "encode table entry %d has an unexpected shape: %s" % (sym, fl.fmt(e)[:120]))
                    continue
                ctx.check(enc_codes[sym] == ref_codes[sym], "C15-a", b.key, "symbol %d: code = RFC 7541 Appendix B" % sym,
                          "encode table symbol %d has code %s (%d bits); RFC 7541 Appendix B: %s (%d bits)"
                          % (sym, enc_codes[sym], len(enc_codes[sym]), ref_codes[sym], len(ref_codes[sym])), "%d bits" % len(ref_codes[sym]))
    # ------------------------------------------------------------ decode tree
    root = P + "decode::HPACK_STRING"
    dec_codes = {}
    eof_paths = []
    nodes_seen = set()
    problems = []

    def node(key):
        body = prog.one(key)
        if body is None:
            return None
        o = fl.Flow(body, prog).origin(Place({"l": 0}), depth=12)
        if o[0] != "agg" or not o[1].endswith("HuffmanDecoder::HuffmanDecoder") or len(o[2]) != 2:
            return None
        lookup = expr.fold(o[2][0])
        arr = o[2][1]
        while arr[0] == "cast":
            arr = arr[1]
        if arr[0] != "agg" or arr[1] != "array":
            return None
        ents = []
        for e in arr[2]:
            if e[0] == "agg" and e[1].endswith("DecodeValue::Sym"):
                ents.append(("sym", expr.fold(e[2][0])))
            elif e[0] == "agg" and e[1].endswith("DecodeValue::Partial") and e[2][0][0] == "const":
                ents.append(("node", e[2][0][1]))
            else:
                return None
        return lookup, ents

    def walk(key, prefix, depth):
        if depth > 24:
            problems.append("tree deeper than 24 levels at %s" % key)
            return
        nodes_seen.add(key)
        n = node(key)
        if n is None:
            problems.append("node %s has an unrecognised shape" % key)
            return
        lookup, ents = n
        if not ents:
            eof_paths.append((key, prefix, lookup))
            return
        if len(ents) != (1 << lookup):
            problems.append("node %s reads %d bits but has %d entries" % (key, lookup, len(ents)))
        for i, (k, v) in enumerate(ents):
            bits = prefix + format(i, "0%db" % lookup)
            if k == "sym":
                if v in dec_codes:
                    problems.append("symbol %d reachable twice (%s and %s)" % (v, dec_codes[v], bits))
                dec_codes[v] = bits
            else:
                walk(v, bits, depth + 1)
    if ru.need(ctx, "C15-a", root):
        walk(root, "", 0)
        ctx.check(not problems, "C15-a", root, "decode tree well formed", "decode tree problems: %s" % problems[:5],
                  "%d nodes" % len(nodes_seen))
        ctx.floor("C15-a", "decode tree nodes", len(nodes_seen), 60)
        for sym in range(256):
            got = dec_codes.get(sym)
            want = enc_codes.get(sym, ref_codes[sym])
            ctx.check(got == want, "C15-a", root, "symbol %d: decode path = encode code" % sym,
                      "decode tree reaches symbol %d along %s; the encode table / RFC code is %s" % (sym, got, want), "")
        ok = len(eof_paths) == 1 and eof_paths[0][1] == ref_codes[256][:len(eof_paths[0][1])] and \
            set(ref_codes[256]) == {"1"} and len(eof_paths[0][1]) + eof_paths[0][2] >= 30
        ctx.check(ok, "C15-a", root, "the only symbol-less leaf lies on the EOS code (all ones)",
                  "symbol-less leaves: %s; EOS is %s" % (eof_paths, ref_codes[256]), "")

    # ------------------------------------------------------------ C15-b prefix_int::decode accumulator bound
    d = ru.need(ctx, "C15-b", PI + "decode")
    if d:
        maxp = consts.get(PI + "MAX_POWER")
        step = shift_mask = cont = None
        rel = None
        heads = d.loop_heads()
        for bb, i, s in d.all_stmts():
            if s.s != "assign":
                continue
            rv = s.rv
            if rv.rv == "binop" and rv.op in ("Add", "AddWithOverflow") and rv.ops[1].k == "const" and rv.ops[1].ty == "usize":
                step = rv.ops[1].int
            if rv.rv == "binop" and rv.op == "BitAnd" and rv.ops[1].k == "const" and rv.ops[1].ty == "u64":
                if rv.ops[1].int == 128:
                    cont = 128
                else:
                    shift_mask = rv.ops[1].int
            if rv.rv == "binop" and rv.op in ("Ge", "Gt", "Le", "Lt") and any(o.named == PI + "MAX_POWER" for o in rv.ops):
                rel = rv.op if rv.ops[1].named == PI + "MAX_POWER" else {"Ge": "Le", "Gt": "Lt", "Le": "Ge", "Lt": "Gt"}[rv.op]
        ok = None not in (maxp, step, shift_mask, cont, rel) and len(heads) == 1
        ctx.check(ok, "C15-b", d.key, "loop constants recognised",
                  "could not read step/mask/continuation/MAX_POWER comparison from prefix_int::decode "
                  "(step=%s mask=%s cont=%s MAX_POWER=%s rel=%s loops=%d)" % (step, shift_mask, cont, maxp, rel, len(heads)),
                  "step=%s mask=%s MAX_POWER=%s rel=%s" % (step, shift_mask, maxp, rel))
        if ok:
            # iterations: power after k-th group is k*step; loop is left with Overflow when power REL MAX_POWER
            k = 0
            while True:
                k += 1
                power = k * step
                over = {"Ge": power >= maxp, "Gt": power > maxp}.get(rel)
                if over is None:
                    ctx.unrecognised("C15-b", d.key, "overflow comparison", "comparison `power %s MAX_POWER` not recognised" % rel)
                    break
                if over or k > 64:
                    break
            groups = k                      # at most this many continuation groups are summed
            maxshift = (groups - 1) * step
            total = 255 + sum(shift_mask << (i * step) for i in range(groups))
            ctx.check(maxshift < 64 and (shift_mask << maxshift) < 2 ** 64, "C15-b", d.key,
                      "largest shift %d keeps (byte & %d) << power within u64" % (maxshift, shift_mask),
                      "with MAX_POWER=%d, step %d and `%s` up to %d groups are read: the last shift is %d bits, "
                      "(byte & %d) << %d overflows a u64" % (maxp, step, rel, groups, maxshift, shift_mask, maxshift), "")
            ctx.check(total < 2 ** 64, "C15-b", d.key, "accumulator bound %d groups < 2^64" % groups,
                      "prefix mask + %d groups of %d can reach %d >= 2^64: the accumulator can wrap" % (groups, shift_mask, total),
                      "max %d" % total)
            # the Overflow error is what the comparison's true edge returns
            # the comparison's true edge returns Err(Overflow) (explored from that edge: the first iteration's
            # concrete `7 >= 63` would otherwise be folded away)
            good = False
            for bb in sorted(d.reachable()):
                blk = d.blocks[bb]
                cmpl = [s_.place.local for s_ in blk.stmts if s_.s == "assign" and s_.rv.rv == "binop" and
                        any(o_.named == PI + "MAX_POWER" for o_ in s_.rv.ops)]
                if cmpl and blk.term.t == "switch" and blk.term.op.place is not None and blk.term.op.place.local in cmpl:
                    tgt = blk.term.otherwise if rel in ("Ge", "Gt") else blk.term.targets[0][1]
                    sub = pa.Explorer(prog, d, max_visits=1).paths(start=tgt, stop_at=heads)
                    good = bool(sub) and all(p.end == "return" and p.ret_shape() == "Err(Error::Overflow)" for p in sub)
            ctx.check(good, "C15-b", d.key, "too many groups -> Err(Overflow)",
                      "the edge taken when `power %s MAX_POWER` holds does not return Err(Overflow)" % rel, "")
        # truncation: every byte through BufExt::get, whose error becomes UnexpectedEnd
        gets = ru.calls(d, "h3::proto::coding::BufExt>::get", "BufExt::get")
        raw = [t for _, t in d.all_terms() if t.t == "call" and t.cname in ("get_u8", "chunk", "advance")]
        ctx.check(len(gets) >= 2 and not raw, "C15-b", d.key, "bytes fetched only through the checked BufExt::get",
                  "prefix_int::decode reads bytes through %s" % [t.ckey for t in raw], "%d checked reads" % len(gets))
        g = ru.need(ctx, "C15-b", "<u8 as h3::proto::coding::Decode>::decode")
        if g:
            ps = [p for p in ru.all_paths(ctx, "C15-b", g) if p.end == "return"]
            okp = [p for p in ps if p.ret_shape().startswith("Ok")]
            good = bool(okp)
            for p in okp:
                nf = [expr.orient(expr.cmp_nf(t[3], t[2]), lambda v: v[0] == "call" and v[1].endswith("::remaining")) for t in p.tests]
                nf = [n for n in nf if n]
                good = good and len(nf) == 1 and nf[0][1] == ">=" and expr.fold(nf[0][2]) == 1 and p.has_call("get_u8")
            ctx.check(good, "C15-b", g.key, "get_u8 only after remaining() >= 1", "u8::decode reads without the remaining() >= 1 guard", "")
        f = ru.need(ctx, "C15-b", "<%sError as core::convert::From<h3::proto::coding::UnexpectedEnd>>::from" % PI)
        if f:
            ps = [p for p in ru.all_paths(ctx, "C15-b", f) if p.end == "return"]
            ctx.check([p.ret_shape() for p in ps] == ["Error::UnexpectedEnd"], "C15-b", f.key, "truncation -> UnexpectedEnd",
                      "conversion yields %s" % [p.ret_shape() for p in ps], "")
    # literal sizes at every call site
    n = 0
    for body, bb, t in list(prog.callers_of(PI + "decode")) + list(prog.callers_of(PI + "encode")):
        n += 1
        o = fl.Flow(body, prog).origin(t.args[0])
        c = ru.const_int(o)
        if c is not None:
            ctx.check(0 <= c <= 8, "C15-b", body.key, "literal prefix size %d <= 8" % c, "prefix size %d > 8 panics the assert" % c,
                      "", body.loc(t))
        elif body.key in (P + "decode", P + "encode") and o[0] in ("binop", "proj"):
            oo = o[1] if o[0] == "proj" else o
            ok = oo[0] == "binop" and oo[1].startswith("Sub") and oo[2] == ("param", 1, ()) and ru.const_int(oo[3]) == 1
            ctx.check(ok, "C15-c", body.key, "integer codec gets size - 1", "prefix_string passes %s as the integer prefix size" % fl.fmt(o),
                      "", body.loc(t))
        else:
            ctx.violation("C15-b", body.key, "non-literal prefix size", "prefix size argument is %s, not a literal" % fl.fmt(o), body.loc(t))
    ctx.floor("C15-b", "prefix_int call sites", n, 29)
    n = 0
    for body, bb, t in list(prog.callers_of(P + "decode")) + list(prog.callers_of(P + "encode")):
        n += 1
        c = ru.const_int(fl.Flow(body, prog).origin(t.args[0]))
        ctx.check(c is not None and 1 <= c <= 8, "C15-c", body.key, "literal string prefix size in 1..8",
                  "string prefix size %s is outside 1..8 (size - 1 underflows or the integer codec's assert fires)" % c, str(c), body.loc(t))
    ctx.floor("C15-c", "prefix_string call sites", n, 12)

    huffman_decode_rows(ctx, "C15-a")

    # ------------------------------------------------------------ C15-c entry points
    sd = ru.need(ctx, "C15-c", P + "decode")
    if sd:
        ps = [p for p in ru.all_paths(ctx, "C15-c", sd, max_visits=1) if p.end in ("return", "loop-cut")]
        cp = [p for p in ps if p.has_call("copy_to_bytes")]
        ctx.floor("C15-c", "paths copying the payload", len(cp), 1)
        for p in cp:
            nf = [expr.orient(expr.cmp_nf(t[3], t[2]), lambda v: v[0] == "call" and v[1].endswith("::remaining")) for t in p.tests]
            nf = [x for x in nf if x]
            e = p.calls("copy_to_bytes")[0]
            ok = len(nf) == 1 and nf[0][1] == ">=" and nf[0][2] == e[3][1]
            ctx.check(ok, "C15-c", sd.key, "copy_to_bytes(len) only after remaining() >= len",
                      "the payload is copied without the dominating `remaining() >= len` test on the same length", "", None, p.describe())
        # Huffman flag: flags & 1
        hf = set()
        for p in ps:
            for t in p.tests:
                nf = expr.cmp_nf(t[3], t[2])
                if nf and nf[0][0] == "binop" and nf[0][1] == "BitAnd":
                    hf.add((expr.fold(nf[0][3]), expr.fold(nf[2])))
        ctx.check(hf == {(1, 0)}, "C15-c", sd.key, "Huffman flag = lowest flag bit", "string decode tests %s, expected flags & 1 == 0" % hf, "")
        raw = [p for p in ps if any(expr.cmp_nf(t[3], t[2]) and expr.cmp_nf(t[3], t[2])[1] == "==" and "BitAnd" in t[1] for t in p.tests)]
        ctx.check(all(not p.has_call("hpack_decode") for p in raw) and any(p.has_call("hpack_decode") for p in ps), "C15-c", sd.key,
                  "H=0 raw copy, H=1 Huffman", "the Huffman decoder is not selected by the H flag", "")
    huffman_errors_propagate(ctx, "C15-c")
    se = ru.need(ctx, "C15-c", P + "encode")
    if se:
        ps = [p for p in ru.all_paths(ctx, "C15-c", se, max_visits=1)]
        es = [e for p in ps for e in p.calls(PI + "encode")]
        ctx.floor("C15-c", "integer encodes in string encode", len(es), 1)
        for e in es[:1]:
            fv = e[3][1]
            ok = fv[0] == "binop" and fv[1] == "BitOr" and expr.fold(fv[3]) == 1 and fv[2][0] in ("binop", "proj")
            sh = fv[2][1] if (ok and fv[2][0] == "proj") else fv[2]
            ok = ok and sh[0] == "binop" and sh[1].startswith("Shl") and sh[2] == ("param", 2, ()) and expr.fold(sh[3]) == 1
            ctx.check(ok, "C15-c", se.key, "flags << 1 | H with H = 1 (always Huffman)", "string encode writes flags %s" % pa.vfmt(fv), "")
            ln = e[3][2]
            ctx.check(expr.mentions(ln, lambda v: v[0] == "call" and v[1].endswith("::len")) and
                      expr.mentions(ln, lambda v: v[0] == "call" and v[1].endswith("hpack_encode")), "C15-c", se.key,
                      "declared length = length of the Huffman-encoded bytes", "declared length is %s" % pa.vfmt(ln), "")
    if se:
        # on every path: the declared length, the H flag and the octets written belong together (Huffman bytes with H = 1 and their
        # length, or - if a plain form were ever chosen - the raw value with H = 0 and ITS length)
        def root_(v):
            if v is None:
                return None
            if expr.mentions(v, lambda x: x[0] == "call" and x[1].endswith("hpack_encode")):
                return "huffman"
            if expr.mentions(v, lambda x: x[0] == "param" and x[1] == 3):
                return "raw"
            return None
        n_enc = 0
        for p in ru.all_paths(ctx, "C15-c", se, max_visits=1):
            ee = p.calls(PI + "encode")
            if not ee:
                continue
            n_enc += 1
            fv, lnv = ee[0][3][1], ee[0][3][2]
            hbit = expr.fold(fv[3]) if fv[0] == "binop" and fv[1] == "BitOr" else None
            its_ = [e[3][0] for e in p.calls("core::iter::traits::collect::IntoIterator::into_iter", "::into_iter", "::iter")]
            wr = root_(its_[-1]) if its_ else None
            ok = root_(lnv) is not None and (wr is None or wr == root_(lnv)) and hbit in (0, 1) and (hbit == 1) == (root_(lnv) == "huffman")
            ctx.check(ok, "C15-c", se.key, "declared length, H flag and written octets belong to the same form",
                      "string encode declares the length of the %s bytes with H = %s and writes the %s bytes: the decoder reads the wrong number of octets "
                      "and the rest of the field section is misparsed" % (root_(lnv), hbit, wr), "", None, p.describe())
        ctx.floor("C15-c", "paths of string encode that write the prefix", n_enc, 1)
    # ------------------------------------------------------------ C15-b / C15-c nothing the RFC allows is refused: error inventories
    # prefix_int::decode fails in two ways only - the input ends (the `?` on the byte fetch) and the value leaves the range (Overflow,
    # decided by the MAX_POWER comparison and nothing else: RFC 7541 5.1 does not forbid leading zero groups);
    # prefix_string::decode fails only through the integer codec, the length conversion, the declared-length test and the Huffman decoder
    pid = prog.one(PI + "decode")
    if pid:
        hs = pid.loop_heads()
        exi = pa.Explorer(prog, pid, max_visits=1)
        errs = [p for p in ru.all_paths(ctx, "C15-b", pid, max_visits=1) if p.end == "return" and not p.ret_shape().startswith("Ok")]
        for h_ in hs:
            errs += [p for p in exi.paths(start=h_, stop_at=hs) if p.end == "return" and not p.ret_shape().startswith("Ok")]
        nerr = 0
        for p in errs:
            nerr += 1
            sh = p.ret_shape()
            plain = [t for t in p.tests if t[3][0] != "discr"]
            if sh.startswith("Residual(") and p.outcomes("::get")[-1:] == ["Err"]:
                continue
            ok = sh == "Err(Error::Overflow)" and bool(plain) and "MAX_POWER" in plain[-1][1] and expr.cmp_nf(plain[-1][3], plain[-1][2]) is not None
            ctx.check(ok, "C15-b", pid.key, "prefix_int::decode fails only on truncation and on the MAX_POWER bound",
                      "prefix_int::decode returns %s on a path decided by %s: an encoding RFC 7541 5.1 allows (e.g. a non-minimal one whose last "
                      "group is zero) is refused, and with it every string length or index written that way" % (sh, [(t[1][:50], t[2]) for t in plain[-2:]]),
                      "", None, p.describe())
        ctx.floor("C15-b", "error returns of prefix_int::decode", nerr, 3)
    psd = prog.one(P + "decode")
    if psd:
        nerr = 0
        for p in [p for p in ru.all_paths(ctx, "C15-c", psd, max_visits=1) if p.end == "return" and not p.ret_shape().startswith("Ok")]:
            nerr += 1
            lt = [t for t in p.tests if t[3][0] != "discr"]
            src = "integer" if p.outcomes(PI + "decode")[-1:] == ["Err"] else \
                "length conversion" if p.outcomes("::try_from", "::try_into")[-1:] == ["Err"] else \
                "huffman" if "Err" in p.outcomes("::next") else \
                "declared length" if (p.ret_shape() == "Err(Error::UnexpectedEnd)" and lt and (lambda nf: nf is not None and nf[1] == "<" and nf[0][0] == "call" and
                                                                                               pa.short(nf[0][1]) == "remaining")(expr.cmp_nf(lt[-1][3], lt[-1][2]))) else None
            ctx.check(src is not None, "C15-c", psd.key, "prefix_string::decode fails only through the integer codec, the declared length and the Huffman decoder",
                      "prefix_string::decode returns %s on a path decided by %s, which is none of: integer codec error, length conversion, `remaining() < "
                      "len`, an error of the Huffman decoder - a string RFC 7541 5.2 allows is refused" % (p.ret_shape(), [(t[1][:50], t[2]) for t in lt[-2:]]),
                      "", None, p.describe())
        ctx.floor("C15-c", "error returns of prefix_string::decode", nerr, 4)
    # ------------------------------------------------------------ C15-d padding bits examined at end of input
    ce = ru.need(ctx, "C15-d", P + "decode::HuffmanDecoder::check_eof")
    if ce:
        ps = [p for p in ru.all_paths(ctx, "C15-d", ce) if p.end == "return"]
        # the last-byte branch is the one that reads the remaining bits (however the position test is written: `cmp` + match, if/else)
        last = [p for p in ps if p.has_call(P + "decode::read_bits")]
        acc = [p for p in last if p.ret_shape() == "Ok(None)"]
        ctx.floor("C15-d", "paths of check_eof on the last byte", len(last), 2)
        ctx.check(len(acc) >= 1, "C15-d", ce.key, "an accepting path exists for the last byte", "no Ok(None) path that examines the remaining bits", "")
        for p in acc:
            tst = [t for t in p.tests if t[3][0] == "binop" and t[3][1] == "Eq" and expr.mentions(t[3], lambda v: v[0] == "binop" and v[1] == "BitAnd")]
            ok = len(tst) == 1 and tst[0][2] == "true"
            bad = []
            if ok:
                eq = tst[0][3]
                band, mask = (eq[2], eq[3]) if eq[2][0] == "binop" and eq[2][1] == "BitAnd" else (eq[3], eq[2])
                rest = band[2] if band[3] == mask else band[3]
                while rest[0] in ("proj", "okval"):
                    rest = rest[1]
                ok = (band[2] == mask or band[3] == mask) and rest[0] == "call" and rest[1] == P + "decode::read_bits"
                cnt_arg = rest[2][3] if ok else None

                for n in range(1, 9):
                    def sub(v, n=n):
                        if v == cnt_arg:
                            return n
                        return None
                    m = expr.fold(mask, consts, sub)
                    if m != (1 << n) - 1:
                        bad.append((n, m))
            ctx.check(ok and not bad, "C15-d", ce.key, "every remaining bit of the last byte must be a one (mask = 2^count - 1 for count 1..8)",
                      "at end of input the padding test compares the %s remaining bits with a mask that is not all ones for (count, mask) = %s: "
                      "padding that is not a prefix of the EOS code (RFC 7541 5.2) is accepted" % ("read" if ok else "?", bad[:4] if ok else [(t[1][:80], t[2]) for t in tst]),
                      "mask evaluated over count 1..8", None, p.describe())
        for p in last:
            if p.ret_shape() != "Ok(None)":
                ctx.check(p.ret_shape().startswith("Err("), "C15-d", ce.key, "anything else on the last byte is an error", "returns %s" % p.ret_shape(), "")
    # ------------------------------------------------------------ C15-d the end of a string is decided from the last symbol's end
    # check_eof looks only at the bits of the lookup that could not be satisfied; what earlier lookups of the same, incomplete code
    # consumed - and everything, when the next lookup starts exactly at the end of the input - is not seen by it. The place that turns
    # `end of input` into `end of string` (DecodeIter::next -> None) therefore has to examine the input from where the last symbol ended.
    DN = P + "decode::HuffmanDecoder::decode_next"
    di = ru.need(ctx, "C15-d", "<h3::qpack::prefix_string::decode::DecodeIter as core::iter::traits::iterator::Iterator>::next")
    if di:
        ps = [p for p in ru.all_paths(ctx, "C15-d", di, max_visits=1) if p.end == "return"]
        nones = [p for p in ps if p.ret_shape() == "None"]
        ctx.floor("C15-d", "paths of DecodeIter::next that end the string", len(nones), 1)
        for p in nones:
            ctx.check(p.outcomes(DN) == ["Ok", "None"], "C15-d", di.key, "the string ends only where the table walk met the end of the input",
                      "DecodeIter::next answers None on a path where decode_next %s: leftover bits are accepted without the end-of-input check "
                      "(check_eof) having seen them" % ("was not consulted" if not p.has_call(DN) else "answered %s" % p.outcomes(DN)), "", None, p.describe())
        cblocks = {bb for bb, t in di.calls(DN)}
        callargs = {a.place.local for bb, t in di.calls(DN) for a in t.args if a.place is not None and a.place.is_local()}

        def seeds_for(p, field, before):
            """locals assigned from a read of self.<field> in the blocks of path p that lie before (True) / anywhere (False) the walk"""
            cut = min([i for i, bb in enumerate(p.blocks) if bb in cblocks] or [len(p.blocks)])
            blocks = set(p.blocks[:cut + 1]) if before else set(p.blocks)
            out = {}
            for bb, i, st in di.all_stmts():
                if bb not in blocks or st.s != "assign" or not st.place.is_local() or st.place.local in callargs:
                    continue
                if st.rv.rv in ("ref", "rawptr") and st.rv.bk != "shared":
                    continue        # a `&mut self.bit_pos` is what the walk advances, not a remembered position
                pls = ([st.rv.place] if st.rv.place is not None else []) + [o.place for o in st.rv.ops if o.place is not None]
                if any(field in pl.fields() for pl in pls):
                    out[st.place.local] = {field}
            return out
        for p in nones:
            if p.outcomes(DN) != ["Ok", "None"]:
                continue
            seeds = seeds_for(p, "bit_pos", True)
            for l, v in seeds_for(p, "content", False).items():
                seeds.setdefault(l, set()).update(v)
            taint = ru.taint_locals(di, seeds, skip_calls=cblocks)       # what the walk returns is not a remembered position
            cut = min(i for i, bb in enumerate(p.blocks) if bb in cblocks)
            both = [bb for bb in p.blocks[cut + 1:] if di.blocks[bb].term.t == "switch" and di.blocks[bb].term.op.place is not None and
                    taint.get(di.blocks[bb].term.op.place.local, set()) >= {"bit_pos", "content"}]
            ctx.check(bool(both), "C15-d", di.key, "the leftover bits are examined from where the last symbol ended",
                      "DecodeIter::next answers None after decode_next reported the end of the input without a decision that depends both on the "
                      "position remembered BEFORE the table walk (position snapshot taken: %s) and on the input bytes: padding bits the walk "
                      "consumed on its way (e.g. the five bits 01010 or the seven bits 1111100 after the last symbol) are accepted although they "
                      "are not a prefix of the EOS code (RFC 7541 5.2)" % bool(seeds_for(p, "bit_pos", True)), "", None, p.describe())
        # .. and a padding of eight bits or more is refused: every accepting path that looks at leftover bytes bounds their number
        for p in nones:
            if p.outcomes(DN) != ["Ok", "None"]:
                continue
            lens = lambda v: (v[0] == "unop" and v[1] == "PtrMetadata") or (v[0] == "call" and pa.short(v[1]) == "len")
            if not any(expr.mentions(t[3], lens) for t in p.tests):
                continue
            lo, hi, _ = expr.interval([(t[3], t[2]) for t in p.tests], lens, consts)
            if lo == 0 and hi == 0:
                continue
            ctx.check(hi is not None and hi <= 1, "C15-d", di.key, "padding of eight or more bits is refused",
                      "DecodeIter::next accepts the end of the string on a path that allows any number of leftover bytes (between %s and %s) as long "
                      "as they are all ones: a string followed by a whole byte ff, or by the 30 ones of the EOS symbol, decodes successfully; RFC "
                      "7541 5.2 requires padding strictly longer than 7 bits, and the EOS symbol, to be decoding errors" % (lo, "any number" if hi is None or hi > (1 << 60) else hi),
                      "", None, p.describe())
    fw = ru.need(ctx, "C15-d", P + "bitwin::BitWindow::forwards")
    if fw:
        # premise of the audited `8 - rest.bit` (tables/panic_sites.toml): forwards leaves bit reduced modulo 8
        st_ = [st for bb, i, st in fw.all_stmts() if st.s == "assign" and "bit" in st.place.fields()[-1:]]
        ok = bool(st_) and st_[-1].rv.rv == "binop" and st_[-1].rv.op == "Rem" and st_[-1].rv.ops[1].int == 8
        ctx.check(ok, "C15-d", fw.key, "forwards leaves the bit offset reduced modulo 8", "the last store to `bit` in forwards is %s" % (st_[-1] if st_ else None), "")
    ctx.assume("round trips are value-level: not decided (DESIGN.md C15); C15-d decides that the padding bits examined must all be ones and that they are examined from the last symbol's end")
