"""C16 Variable-length integers and stream-ID arithmetic match RFC 9000 (form tables)."""
import json
import os
from engine import flow as fl, ru, paths as pa, expr

EXPLANATION = (
    "Path-table extraction over the MIR of h3::proto::varint and h3::proto::stream: for VarInt::size/encode the "
    "value interval implied by the comparisons on each path is mapped to the size returned / the put_uN call and tag "
    "written and compared with RFC 9000 section 16 (so the shortest form is chosen for every value and 2^62.. never "
    "returns); for VarInt::decode each tag arm is checked for its truncation test (remaining < width-1 -> "
    "UnexpectedEnd), the slice it fills and the big-endian width it reads, the mask and the tag shift; from_u64 / "
    "TryFrom bounds are read as intervals; StreamId initiator/dir/index/new are read as bit tables and compared with "
    "RFC 9000 section 2.1; Add<usize> must saturate (saturating_add, then min with VarInt::MAX >> 2) and keep dir and "
    "initiator. Thorough tier adds compile-fail witnesses for constructor privacy. Decides the tables, not the "
    "value-level round trip.")
# every anchor of these rules lives in the h3 crate: thorough tier repeats them on the feature-less build
EXTRA_CONFIGS = ["h3-plain"]
RULES = "C16-a varint form tables (A5/A6/A11); C16-b stream-id bit layout, saturating add, is_request truth table over the four kinds of id; C16-c constructor privacy"

V = "h3::proto::varint::VarInt"
S = "h3::proto::stream::StreamId"
REF = json.load(open(os.path.join(os.path.dirname(os.path.dirname(os.path.abspath(__file__))), "ref",
                                  "rfc9000_varint_streamid.json")))
FORMS = [(f["tag"], f["length"], f["max"]) for f in REF["varint_forms"]]   # (tag, len, max)
MAX = REF["stream_id"]["max"]


def is_x(v):
    return v[0] == "param" and v[1] == 1 and tuple(n.lstrip(".") for n in v[2]) in (("0",), ())


def path_interval(ctx, rule, body, p):
    lo, hi, unrec = expr.interval([(t[3], t[2]) for t in p.tests], is_x, ctx.prog.consts)
    for v, lab in unrec:
        ctx.unrecognised(rule, body.key, "comparison", "comparison %s not of a recognised form" % pa.vfmt(v))
    return lo, hi


def varint_form_tables(ctx, rule="C16-a"):
    """VarInt::size / VarInt::encode decision lists against the RFC 9000 section 16 table. Used by every property
    whose output length fields or identifiers are written through them (C13 SETTINGS, C14 frames, C18 datagrams)."""
    prog = ctx.prog
    consts = prog.consts
    # ---------------------------------------------------------- size / encode interval tables
    bounds = []
    lo = 0
    for tag, ln, mx in FORMS:
        bounds.append((lo, mx, tag, ln))
        lo = mx + 1
    for name in ("size", "encode"):
        b = ru.need(ctx, rule, "%s::%s" % (V, name))
        if not b:
            continue
        ps = ru.all_paths(ctx, rule, b)
        table = {}
        for p in ps:
            plo, phi = path_interval(ctx, rule, b, p)
            if p.end == "diverge":
                ctx.check(plo > MAX, rule, b.key, "no panic for values below 2^62",
                          "a diverging (unreachable!/panic) path is taken for values in [%s, %s]" % (plo, phi),
                          "diverges only for x >= %d" % plo, None, p.describe())
                continue
            if p.end != "return":
                ctx.unrecognised(rule, b.key, "path end " + str(p.end), "unexpected path end")
                continue
            if name == "size":
                out = expr.fold(p.ret, consts)
                outd = ("len", out)
            else:
                puts = [e for e in p.calls() if e[2].cname in ("put_u8", "put_u16", "put_u32", "put_u64")
                        and "bytes::buf::buf_mut::BufMut" in (e[2].tkey or "")]
                if len(puts) != 1:
                    ctx.violation(rule, b.key, "one write per path", "path writes %d times" % len(puts), None, p.describe())
                    continue
                e = puts[0]
                width = {"put_u8": 1, "put_u16": 2, "put_u32": 4, "put_u64": 8}[e[2].cname]
                val = e[3][1]
                # value = tag<<(8w-2) | x (as uN)
                tagbits, hasx = 0, False
                parts = []

                def flat(v):
                    if v[0] == "binop" and v[1] == "BitOr":
                        flat(v[2])
                        flat(v[3])
                    else:
                        parts.append(v)
                flat(val)
                okform = True
                for part in parts:
                    c = expr.fold(part, consts)
                    if c is not None:
                        tagbits |= c
                    else:
                        q = part
                        while q[0] == "cast":
                            q = q[1]
                        if is_x(q):
                            hasx = True
                        else:
                            okform = False
                if not (okform and hasx):
                    ctx.unrecognised(rule, b.key, "written value", "value written is %s" % pa.vfmt(val))
                    continue
                shift = 8 * width - 2
                outd = ("tag/len", tagbits >> shift if tagbits % (1 << shift) == 0 else ("bad", tagbits), width)
            table[(plo, phi)] = outd
        # compare with RFC 9000 table: each RFC interval must be covered by paths with the right outcome
        for (lo_, hi_, tag, ln) in bounds:
            hits = [(iv, o) for iv, o in table.items() if not (iv[1] < lo_ or iv[0] > hi_)]
            want = ("len", ln) if name == "size" else ("tag/len", tag, ln)
            ok = bool(hits) and all(o == want and iv[0] >= lo_ and iv[1] <= hi_ for iv, o in hits) and \
                min(iv[0] for iv, _ in hits) == lo_ and max(iv[1] for iv, _ in hits) == hi_
            ctx.check(ok, rule, b.key, "values %d..%d -> %s" % (lo_, hi_, want),
                      "for values %d..%d RFC 9000 requires %s; the code's decision list gives %s"
                      % (lo_, hi_, want, sorted(table.items(), key=str)), str(hits))



def run(ctx):
    prog = ctx.prog
    consts = prog.consts
    ctx.check(consts.get(V + "::MAX") == MAX, "C16-a", V + "::MAX", "value", "VarInt::MAX = %s, expected 2^62-1"
              % consts.get(V + "::MAX"), "2^62-1")
    ctx.check(consts.get(V + "::MAX_SIZE") == 8, "C16-a", V + "::MAX_SIZE", "value", "VarInt::MAX_SIZE = %s, expected 8"
              % consts.get(V + "::MAX_SIZE"), "8")

    varint_form_tables(ctx, "C16-a")

    # ---------------------------------------------------------- from_u64 and TryFrom bounds
    for key, okshape in ((V + "::from_u64", "Ok(VarInt::VarInt)"),
                         ("<%s as core::convert::TryFrom<u64>>::try_from" % S, "Ok(StreamId::StreamId)"),
                         ("<h3::webtransport::session_id::SessionId as core::convert::TryFrom<u64>>::try_from",
                          "Ok(SessionId::SessionId)")):
        b = ru.need(ctx, "C16-a", key)
        if not b:
            continue
        ps = [p for p in ru.all_paths(ctx, "C16-a", b) if p.end == "return"]
        for p in ps:
            plo, phi = path_interval(ctx, "C16-a", b, p)
            if p.ret_shape() == okshape:
                ctx.check(plo == 0 and phi == MAX, "C16-a", b.key, "accepts exactly 0..2^62-1",
                          "the Ok path accepts values in [%s, %s], expected [0, 2^62-1]" % (plo, phi), "[0, 2^62-1]",
                          None, p.describe())
                inner = p.ret[3][0][3][0] if p.ret[0] == "agg" and p.ret[3] and p.ret[3][0][0] == "agg" else None
                ctx.check(inner == ("param", 1, ()), "C16-a", b.key, "wraps the argument unchanged",
                          "the accepted value is stored as %s" % (pa.vfmt(inner) if inner else pa.vfmt(p.ret)), "")
            else:
                ctx.check(p.ret_shape().startswith("Err") and plo == MAX + 1, "C16-a", b.key, "refuses 2^62 and above",
                          "a non-Ok path (%s) covers [%s, %s]" % (p.ret_shape(), plo, phi), "[2^62, ..) -> Err", None,
                          p.describe())
        ctx.floor("C16-a", "paths of " + key, len(ps), 2)
    for key, tgt in (("<%s as core::convert::TryFrom<u64>>::try_from" % V, V + "::from_u64"),
                     ("<h3::proto::push::PushId as core::convert::TryFrom<u64>>::try_from",
                      "<%s as core::convert::TryFrom<u64>>::try_from" % V)):
        b = ru.need(ctx, "C16-a", key)
        if b:
            cs = ru.calls(b, tgt)
            f = fl.Flow(b, prog)
            ok = len(cs) == 1 and f.origin(cs[0][1].args[0]) == ("param", 1, ())
            ctx.check(ok, "C16-a", b.key, "range check delegated to " + tgt.rsplit("::", 2)[-2] + "::" + tgt.rsplit("::", 1)[-1],
                      "does not delegate its argument unchanged to %s" % tgt, "")

    # ---------------------------------------------------------- decode: per-tag table
    b = ru.need(ctx, "C16-a", V + "::decode")
    if b:
        ps = ru.all_paths(ctx, "C16-a", b)
        seen_tags = set()
        first = [p for p in ps if p.tested("has_remaining", "false")]
        ctx.check(len(first) == 1 and first[0].ret_shape().startswith("Err(UnexpectedEnd"), "C16-a", b.key,
                  "empty input -> UnexpectedEnd", "the path for an empty buffer returns %s"
                  % [p.ret_shape() for p in first], "")
        for p in ps:
            tagt = [t for t in p.tests if t[3][0] == "binop" and t[3][1] == "Shr" and expr.fold(t[3][3]) == 6]
            if not tagt:
                if not p.tested("has_remaining", "false"):
                    ctx.unrecognised("C16-a", b.key, "decode path without a tag test", "path %s" % p.blocks)
                continue
            lab = tagt[0][2]
            if lab == "otherwise":
                ctx.check(p.end == "diverge", "C16-a", b.key, "tags other than 0..3 impossible", "", "")
                continue
            tag = int(lab)
            seen_tags.add(tag)
            width = dict((f[0], f[1]) for f in FORMS).get(tag)
            if width is None:
                ctx.violation("C16-a", b.key, "tag %d" % tag, "unknown tag arm")
                continue
            # the mask of the first byte
            masks = [e for e in p.stores() if e[3][0] == "binop" and e[3][1] == "BitAnd"]
            mok = any(expr.fold(e[3][3]) == 0x3f or expr.fold(e[3][2]) == 0x3f for e in masks)
            ctx.check(mok, "C16-a", b.key, "tag %d: first byte masked with 0x3f" % tag,
                      "the two tag bits are not masked off the first byte (stores: %s)"
                      % [pa.vfmt(e[3]) for e in masks], "")
            rem = [t for t in p.tests if "remaining@" in t[1] and "has_remaining" not in t[1]]
            if width > 1:
                nf = [expr.orient(expr.cmp_nf(t[3], t[2]), lambda v: v[0] == "call" and v[1].endswith("::remaining")) for t in rem]
                nf = [n for n in nf if n]
                if p.ret_shape().startswith("Err"):
                    ok = len(nf) == 1 and nf[0][1] == "<" and expr.fold(nf[0][2]) == width - 1
                    ctx.check(ok, "C16-a", b.key, "tag %d: truncated -> UnexpectedEnd when remaining < %d" % (tag, width - 1),
                              "tag %d error path is taken on %s" % (tag, [(pa.vfmt(n[0]), n[1], pa.vfmt(n[2])) for n in nf]), "",
                              None, p.describe())
                else:
                    ok = len(nf) == 1 and nf[0][1] == ">=" and expr.fold(nf[0][2]) == width - 1
                    ctx.check(ok, "C16-a", b.key, "tag %d: body read only when remaining >= %d" % (tag, width - 1),
                              "tag %d success path is taken on %s" % (tag, [(pa.vfmt(n[0]), n[1], pa.vfmt(n[2])) for n in nf]),
                              "", None, p.describe())
                    cps = [e for e in p.calls("copy_to_slice")]
                    rng = pa.vfmt(cps[0][3][1]) if cps else ""
                    ctx.check(len(cps) == 1 and "Range(1, %d)" % width in rng, "C16-a", b.key,
                              "tag %d: fills bytes 1..%d" % (tag, width), "tag %d copies into %s" % (tag, rng), rng)
                    fb = [e for e in p.calls("from_be_bytes")]
                    ty = {2: "u16", 4: "u32", 8: "u64"}[width]
                    ok = len(fb) == 1 and fb[0][2].ckey == "%s::from_be_bytes" % ty
                    src = pa.vfmt(fb[0][3][0]) if fb else ""
                    ok = ok and (width == 8 or "RangeTo(%d)" % width in src)
                    ctx.check(ok, "C16-a", b.key, "tag %d: value = %s::from_be_bytes(buf[..%d])" % (tag, ty, width),
                              "tag %d reads %s from %s" % (tag, fb[0][2].ckey if fb else None, src), src[:80])
                    ctx.check(p.ret_shape() == "Ok(VarInt::VarInt)" and expr.mentions(p.ret, lambda v: v[0] == "call" and "from_be_bytes" in v[1]),
                              "C16-a", b.key, "tag %d: result wraps the value read" % tag, "returns %s" % pa.vfmt(p.ret), "")
            else:
                ctx.check(p.ret_shape() == "Ok(VarInt::VarInt)" and not rem and not p.calls("copy_to_slice"),
                          "C16-a", b.key, "tag 0: one byte, no further read", "tag 0 path: %s" % p.ret_shape(), "")
        ctx.check(seen_tags == {0, 1, 2, 3}, "C16-a", b.key, "all four tags handled",
                  "tag arms found: %s" % sorted(seen_tags), "0,1,2,3")
    b = ru.need(ctx, "C16-a", V + "::encoded_size")
    if b:
        ps = [p for p in ru.all_paths(ctx, "C16-a", b) if p.end == "return"]
        ok = len(ps) == 1
        r = ps[0].ret if ok else None
        ok = ok and r[0] == "call" and r[1].endswith("::pow") and expr.fold(r[2][0]) == 2
        sh = r[2][1] if ok else None
        while sh and sh[0] == "cast":
            sh = sh[1]
        ok = ok and sh[0] == "binop" and sh[1] == "Shr" and sh[2] == ("param", 1, ()) and expr.fold(sh[3]) == 6
        ctx.check(ok, "C16-a", b.key, "2^(first >> 6)", "encoded_size returns %s" % (pa.vfmt(r) if r else "?"), "")

    # ---------------------------------------------------------- C16-b stream id layout
    sid = REF["stream_id"]
    for name, bit, zero, one in (("initiator", sid["initiator_bit"], "Client", "Server"),
                                 ("dir", sid["direction_bit"], "Bi", "Uni")):
        b = ru.need(ctx, "C16-b", "%s::%s" % (S, name))
        if not b:
            continue
        ps = [p for p in ru.all_paths(ctx, "C16-b", b) if p.end == "return"]
        ctx.floor("C16-b", "paths of " + name, len(ps), 2)
        for p in ps:
            # find the test BitAnd(self.0, mask) ==/!= 0
            res = None
            for t in p.tests:
                nf = expr.cmp_nf(t[3], t[2])
                if not nf and t[3][0] == "binop" and t[3][1] == "BitAnd" and tuple(t[4]) == (0,) and t[2] in ("0", "false", "otherwise", "true"):
                    # `match id & mask { 0 => .., _ => .. }`: a switch on the masked value itself
                    nf = (t[3], "==" if t[2] in ("0", "false") else "!=", ("const", 0))
                if not nf:
                    continue
                a, rel, c = nf
                if a[0] != "binop":
                    a, c = c, a
                if a[0] == "binop" and a[1] == "BitAnd" and expr.fold(c) == 0 and rel in ("==", "!="):
                    m = expr.fold(a[3]) if is_x(a[2]) else (expr.fold(a[2]) if is_x(a[3]) else None)
                    res = (m, rel)
            got = p.ret_shape().split("::")[-1]
            if res is None:
                ctx.unrecognised("C16-b", b.key, "bit test", "no `self.0 & mask ==/!= 0` test on the path to %s" % got)
                continue
            want = zero if res[1] == "==" else one
            ctx.check(res[0] == (1 << bit) and got == want, "C16-b", b.key, "bit %d clear/set -> %s/%s" % (bit, zero, one),
                      "%s is returned when (id & %s) %s 0; RFC 9000 2.1: bit %d clear = %s, set = %s"
                      % (got, res[0], res[1], bit, zero, one), "%s when (id & %d) %s 0" % (got, 1 << bit, res[1]))
    for ename, vals in (("h3::proto::stream::Side", {"Client": 0, "Server": 1}), ("h3::proto::stream::Dir", {"Bi": 0, "Uni": 1})):
        a = prog.adts.get(ename)
        if not a:
            ctx.missing("C16-b", ename)
            continue
        got = {v["name"]: int(v["discr"]) for v in a["variants"]}
        ctx.check(got == vals, "C16-b", ename, "discriminants", "%s discriminants are %s, expected %s" % (ename, got, vals), str(got))
    b = ru.need(ctx, "C16-b", S + "::index")
    if b:
        o = ru.ret(prog, b)
        ok = o[0] == "binop" and o[1] == "Shr" and o[2] == ("param", 1, ("0",)) and ru.const_int(o[3]) == sid["index_shift"]
        ctx.check(ok, "C16-b", b.key, "index = id >> 2", "index() returns %s" % fl.fmt(o), fl.fmt(o))
    b = ru.need(ctx, "C16-b", S + "::new")
    if b:
        ps = [p for p in ru.all_paths(ctx, "C16-b", b) if p.end == "return"]
        r = ps[0].ret if len(ps) == 1 else None
        parts = []

        def flat(v):
            if v[0] == "binop" and v[1] == "BitOr":
                flat(v[2])
                flat(v[3])
            else:
                parts.append(v)
        if r and r[0] == "agg" and r[3]:
            flat(r[3][0])
        layout = {}
        for part in parts:
            sh = 0
            q = part
            if q[0] == "binop" and q[1] == "Shl":
                sh = expr.fold(q[3])
                q = q[2]
            while q[0] == "cast":
                q = q[1]
            if q[0] == "discr":
                q = q[1]
            if q[0] == "param":
                layout[q[1]] = sh
        ctx.check(layout == {1: 2, 2: 1, 3: 0}, "C16-b", b.key, "id = index<<2 | dir<<1 | initiator",
                  "new() composes shifts %s (param -> shift), expected {index:2, dir:1, initiator:0}; value %s"
                  % (layout, pa.vfmt(r) if r else "?"), str(layout))
    b = ru.need(ctx, "C16-b", "<%s as core::ops::arith::Add<usize>>::add" % S)
    if b:
        ps = [p for p in ru.all_paths(ctx, "C16-b", b) if p.end == "return"]
        ok = len(ps) == 1 and ps[0].ret[0] == "call" and ps[0].ret[1] == S + "::new"
        if not ok and ps and all(p.ret is not None and p.ret[0] == "call" and p.ret[1] == S + "::new" and len(p.ret[2]) == 3 for p in ps):
            # the bound written as a branch (`if wanted < largest { wanted } else { largest }`): the value is decided by the evaluation
            # over boundary values below; here only that every path keeps direction and initiator
            for p in ps:
                a0, a1, a2 = p.ret[2]
                ctx.check(a1[:3] == ("call", S + "::dir", (("param", 1, ()),)) and a2[:3] == ("call", S + "::initiator", (("param", 1, ()),)),
                          "C16-b", b.key, "direction and initiator preserved",
                          "new(.., %s, %s): expected self.dir(), self.initiator()" % (pa.vfmt(a1), pa.vfmt(a2)), "")
        elif ok:
            a0, a1, a2 = ps[0].ret[2]
            idx_ok = (a0[0] == "call" and a0[1].endswith("::min") and len(a0[2]) == 2)
            sat = cap = None
            if idx_ok:
                for x in a0[2]:
                    c = expr.fold(x, consts)
                    if c is not None:
                        cap = c
                    else:
                        sat = x
            idx_ok = idx_ok and cap == (MAX >> 2) and sat is not None and sat[0] == "call" and \
                sat[1].endswith("::saturating_add") and \
                any(x[0] == "call" and x[1] == S + "::index" and x[2] == (("param", 1, ()),) for x in sat[2]) and \
                any(x[0] == "cast" and x[1] == ("param", 2, ()) and x[2] == "u64" for x in sat[2])
            ctx.check(idx_ok, "C16-b", b.key, "index = min(saturating_add(index, n), MAX>>2)",
                      "the new index is %s; expected min(saturating_add(self.index(), rhs as u64), VarInt::MAX >> 2)" % pa.vfmt(a0),
                      pa.vfmt(a0)[:120])
            ctx.check(a1 == ("call", S + "::dir", (("param", 1, ()),), a1[3]) and a2[:3] == ("call", S + "::initiator", (("param", 1, ()),)),
                      "C16-b", b.key, "direction and initiator preserved",
                      "new(.., %s, %s): expected self.dir(), self.initiator()" % (pa.vfmt(a1), pa.vfmt(a2)), "")
        else:
            ctx.unrecognised("C16-b", b.key, "add shape", "Add<usize> does not end in StreamId::new(..): %s"
                             % [pa.vfmt(p.ret) for p in ps])
    # round trip and saturation over boundary values, evaluated on the extracted expressions (no h3 code is run)
    parts = {}
    for nm in ("new", "index", "dir", "initiator"):
        bb_ = prog.one("%s::%s" % (S, nm))
        parts[nm] = [p for p in ru.all_paths(ctx, "C16-b", bb_) if p.end == "return"] if bb_ else None
    addb = prog.one("<%s as core::ops::arith::Add<usize>>::add" % S)
    if all(parts.values()) and addb:
        def ev_new(index, d, i):
            def sub(v):
                if v == ("param", 1, ()):
                    return index
                if v[0] == "discr" and v[1] == ("param", 2, ()):
                    return d
                if v[0] == "discr" and v[1] == ("param", 3, ()):
                    return i
                return None
            r = parts["new"][0].ret
            return expr.fold(r[3][0], consts, sub)

        def ev_get(nm, idv):
            def sub(v):
                if v == ("param", 1, (".0",)) or v == ("param", 1, ("0",)):
                    return idv
                return None
            hit = expr.decide(parts[nm], consts, sub)
            outs = set()
            for p in hit:
                if nm == "index":
                    outs.add(expr.fold(p.ret, consts, sub))
                else:
                    outs.add(p.ret_shape().split("::")[-1])
            return outs
        bad = []
        top = (1 << 60) - 1
        for index in (0, 1, 2, 5, 1 << 30, top - 1, top):
            for d, dn in ((0, "Bi"), (1, "Uni")):
                for i, inn in ((0, "Client"), (1, "Server")):
                    idv = ev_new(index, d, i)
                    if idv is None or idv > MAX:
                        bad.append(("new", index, dn, inn, idv))
                        continue
                    if idv & 3 != (d << 1 | i) or idv >> 2 != index:
                        bad.append(("layout", index, dn, inn, idv))
                    if ev_get("index", idv) != {index} or ev_get("dir", idv) != {dn} or ev_get("initiator", idv) != {inn}:
                        bad.append(("accessors", index, dn, inn, ev_get("index", idv), ev_get("dir", idv), ev_get("initiator", idv)))
        ctx.check(not bad, "C16-b", S, "new/index/dir/initiator round trip over boundary indices (RFC 9000 2.1 layout)",
                  "stream id composition and accessors disagree: %s" % bad[:3], "28 ids")
        aps = [p for p in ru.all_paths(ctx, "C16-b", addb) if p.end == "return"]
        bad = []
        if aps and all(p.ret is not None and p.ret[0] == "call" and p.ret[1] == S + "::new" and p.ret[2] for p in aps):
            for index in (0, 1, top - 2, top - 1, top):
                for n in (0, 1, 2, 3, (1 << 32), (1 << 64) - 1):
                    def sub(v, index=index, n=n):
                        if v[0] == "call" and v[1] == S + "::index":
                            return index
                        if v == ("param", 2, ()):
                            return n
                        return None
                    live = expr.decide(aps, consts, sub) if len(aps) > 1 else aps
                    got = {expr.fold(p.ret[2][0], consts, sub) for p in live}
                    if got != {min(index + n, top)}:
                        bad.append((index, n, sorted(got, key=str)))
        else:
            bad.append("shape")
        ctx.check(not bad, "C16-b", addb.key, "id + n saturates at the largest index of the same kind (boundary values)",
                  "Add<usize> yields a wrong index for (index, n, got) = %s; it must be min(index + n, 2^60 - 1) so the id never exceeds 2^62 - 1" % bad[:3],
                  "30 cases")
    b = ru.need(ctx, "C16-b", S + "::is_request")
    if b and all(parts.values()):
        # truth table over the four kinds of stream id, evaluated on the extracted expressions (however the test is written:
        # `dir() == Bi && initiator() == Client`, a `match` on the pair, a mask on the raw value, `!is_push() && ..`)
        def variant_of(v, idv):
            if v[0] == "agg" and v[1] in (S.rsplit("::", 1)[0] + "::Dir", S.rsplit("::", 1)[0] + "::Side"):
                return v[2]
            if v[0] == "call" and v[1] in (S + "::dir", S + "::initiator") and v[2] and v[2][0][0] == "param" and v[2][0][1] == 1:
                outs = ev_get(pa.short(v[1]), idv)
                return next(iter(outs)) if len(outs) == 1 else None
            return None

        def ev_pred(name, idv, depth=0):
            body_ = prog.one("%s::%s" % (S, name))
            if body_ is None:
                return None

            def sub(v):
                if v == ("param", 1, (".0",)) or v == ("param", 1, ("0",)):
                    return idv
                if v[0] == "call" and pa.short(v[1]) in ("eq", "ne") and "PartialEq" in v[1] and len(v[2]) == 2:
                    a_, b_ = variant_of(v[2][0], idv), variant_of(v[2][1], idv)
                    if a_ is None or b_ is None:
                        return None
                    return int((a_ == b_) == (pa.short(v[1]) == "eq"))
                if v[0] == "call" and v[1] in (S + "::is_push", S + "::is_request") and depth < 2 and v[2] and v[2][0][0] == "param":
                    r_ = ev_pred(pa.short(v[1]), idv, depth + 1)
                    return next(iter(r_)) if r_ and len(r_) == 1 else None
                return None
            outs = set()
            for p in [p for p in ru.all_paths(ctx, "C16-b", body_) if p.end == "return"]:
                feasible = True
                for t in p.tests:
                    if t[3][0] == "discr":
                        var = variant_of(t[3][1], idv)
                        h = None if var is None or t[2] == "otherwise" else (var in t[2].split("|"))
                    else:
                        h = expr.test_holds(t, consts, sub)
                    if h is None:
                        return None
                    if h is False:
                        feasible = False
                        break
                if feasible:
                    outs.add(expr.fold(p.ret, consts, sub))
            return outs
        bad = []
        for index in (0, 1, 7, (1 << 60) - 1):
            for r in range(4):
                idv = index << 2 | r
                got = ev_pred("is_request", idv)
                if got != {int(r == 0)}:
                    bad.append((idv, got))
        ctx.check(not bad, "C16-b", b.key, "is_request = (dir == Bi && initiator == Client)",
                  "is_request must hold exactly for client-initiated bidirectional ids (id & 3 == 0); evaluated over the four kinds of id it "
                  "answers (id, result) = %s (None: the form could not be evaluated)" % bad[:4], "16 ids")

    # ---------------------------------------------------------- C16-c constructor privacy (field visibility)
    for adt, fld in ((S, "0"),):
        a = prog.adts.get(adt)
        if not a:
            ctx.missing("C16-c", adt)
            continue
        f0 = a["variants"][0]["fields"][0]
        ctx.check(not f0["pub"], "C16-c", adt, "inner integer not public",
                  "the inner field of %s is public: unchecked ids can be built outside the checked constructors" % adt, f0["vis"])
    a = prog.adts.get(V)
    if a:
        f0 = a["variants"][0]["fields"][0]
        ctx.check(not f0["pub"], "C16-c", V, "inner integer not public (pub(crate) at most)",
                  "VarInt's inner field is public: values >= 2^62 can be built outside the crate", f0["vis"])
    # every construction of VarInt(..) in the workspace has one of the audited forms
    n = 0
    CHECKED = ("h3::proto::push::PushId", "h3::proto::stream::StreamId", "h3::webtransport::session_id::SessionId", V)
    for body in prog.bodies:
        for bb, s in ru.aggregates(body, V):
            n += 1
            o = fl.inline(prog, fl.Flow(body, prog).origin(s.rv.ops[0]))
            why = None
            c = expr.fold(o, consts)
            if c is not None and 0 <= c <= MAX:
                why = "constant %d <= 2^62-1" % c
            elif o[0] == "param" and o[2] == ("0",) and (body.locals[o[1]].get("adt") in CHECKED):
                why = "re-wrap of an already range-checked %s" % body.locals[o[1]].get("adt").rsplit("::", 1)[-1]
            elif o[0] == "cast" and o[1][0] == "param" and body.local_ty(o[1][1]) in ("u8", "u16", "u32"):
                why = "widening of a %s" % body.local_ty(o[1][1])
            elif o[0] == "call" and o[1] in ("<u64 as core::convert::From<u8>>::from", "<u64 as core::convert::From<u16>>::from",
                                             "<u64 as core::convert::From<u32>>::from") and o[2][0][0] == "param":
                why = "widening conversion"
            elif o[0] == "call" and o[1] == "<u64 as core::default::Default>::default":
                why = "zero"
            elif o[0] == "binop" and o[1] == "Div" and o[2] == ("param", 1, ("0",)) and body.local_adt(1) == V:
                why = "quotient of a valid VarInt"
            elif body.key == V + "::from_u64" and o == ("param", 1, ()):
                why = "guarded by the x < 2^62 test (interval checked under C16-a)"
            elif body.key == V + "::decode":
                why = "value read by decode (widths checked under C16-a: at most 62 bits after masking)"
            elif body.key == V + "::from_u64_unchecked":
                callers = [b2.key for b2, _, _ in prog.callers_of(V + "::from_u64_unchecked")]
                if not callers:
                    why = "unsafe unchecked constructor, no caller in the workspace"
                else:
                    ctx.violation("C16-c", body.key, "unchecked constructor has callers",
                                  "from_u64_unchecked is called from %s" % callers)
                    continue
            ctx.check(why is not None, "C16-c", body.key, "VarInt(..) built from a range-checked value",
                      "VarInt(%s) is built from a value that is not known to be below 2^62 (not one of the audited "
                      "forms: checked id re-wrap, widening, constant, quotient, guarded)" % fl.fmt(o)[:160], why or "",
                      body.loc(s))
    ctx.floor("C16-c", "VarInt(..) constructions", n, 12)
    if ctx.tier == "thorough":
        from engine import witness
        witness.run(ctx, "C16-c")
