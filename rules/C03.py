"""C03 Request streams accept exactly the RFC 9114 4.1 frame sequences (dispatch tables)."""
from engine import flow as fl, ru, paths as pa, expr, dispatch as dp
from rules import shared

EXPLANATION = (
    "Dispatch tables are extracted by variant-constrained path exploration at every site that branches on a frame "
    "obtained from a request stream (the sites are discovered: every body switching on a Frame<PayloadLen> discriminant "
    "must be tabled or the check fails) and compared exactly with RFC 9114 4.1 / Table 1 / 7.2.8: server first frame, "
    "client first frame, body reads, first and trailing trailer reads, the frame-type table of Frame::decode (incl. the "
    "HTTP/2-reserved types -> UnsupportedFrame -> ForbiddenFrame -> H3_FRAME_UNEXPECTED composition) and the "
    "WebTransport front door. A path's outcome is (return shape, code raised as a connection error, markers such as "
    "reset/stop_sending/poll_data). Also decided: end of body is reported only at a real end (poll_data is reached "
    "only with data owed, so a zero-length DATA frame is skipped), trailers read early are kept across Pending. "
    "Byte-exact, in-order delivery of payload bytes is value-level and not decided.")
RULES = "C03-srv/C03-cli/C03-body/C03-trl request-stream dispatch tables at the discovered sites (A3; rows read off the decisions, whatever the form); C03-eob end of body only at a real end (A2); trailers kept across Pending (A8); C03-unk memo rules (shared); C03-type frame-type table (shared); C03-split halves keep the decoder state; shared through a proxy: C02-e under C03-type, C02-d (FrameStream::poll_data) under C03-eob"

F = "h3::proto::frame::Frame"
PN = "h3::frame::FrameStream::poll_next"
ALL = {"Data", "Headers", "CancelPush", "Settings", "PushPromise", "Goaway", "MaxPushId", "WebTransportStream", "Grease"}
TABLED = {
    "h3::client::connection::Connection::poll_close": "C04",
    "h3::server::connection::Connection::poll_next_control": "C04",
    "h3::connection::ConnectionInner::poll_control": "C04",
    "h3::client::stream::RequestStream::recv_response::{closure#0}": "C03",
    "h3::server::request::RequestResolver::accept_with_frame": "C03",
    "h3::connection::RequestStream::poll_recv_data": "C03",
    "h3::connection::RequestStream::poll_recv_trailers": "C03",
    "h3::frame::FrameStream::poll_next": "C02/C03 (sets the DATA length)",
    "h3_webtransport::server::WebTransportSession::accept_bi::{closure#0}": "C03",
    "<h3::proto::frame::Frame as h3::proto::coding::Encode>::encode": "writer (C14)",
    "h3::proto::frame::Frame::payload": "accessor",
    "h3::proto::frame::Frame::payload_mut": "accessor",
    "<h3::proto::frame::Frame as core::fmt::Debug>::fmt": "formatting",
}


def discover(prog):
    out = set()
    for b in prog.bodies:
        for bb, i, s in b.all_stmts():
            if s.s == "assign" and s.rv.rv == "discr":
                pl = s.rv.place
                adt = pl.adt if pl.proj else b.local_adt(pl.local)
                if adt == F:
                    out.add(b.key)
    return out


def rows_for(ctx, rule, body, want_root, max_visits=2):
    """{class label -> [(path, outcome)]} for the scrutinee selected by want_root."""
    prog = ctx.prog
    rows = {}
    for p in ru.all_paths(ctx, rule, body, max_visits=max_visits):
        if p.end not in ("return", "stop"):
            continue
        cls = dp.classify(p, want_root)
        if not cls:
            continue
        fc = dp.frame_class(cls)
        labs = [fc] if isinstance(fc, str) else sorted(fc)
        for lab in labs:
            rows.setdefault(lab, []).append((p, dp.outcome(prog, p)))
    return rows


def expect(ctx, rule, body, rows, lab, pred, text):
    got = rows.get(lab, [])
    ok = bool(got) and all(pred(o, p) for p, o in got)
    summ = sorted({(o[0][:60], tuple(sorted(o[1])), o[3], o[4]) for _, o in got}, key=str)
    ctx.check(ok, rule, body.key, "%s -> %s" % (lab, text),
              "frame/result `%s` leads to %s; RFC 9114 4.1 requires: %s" % (lab, summ or "no path at all", text), str(summ)[:300],
              None, got[0][0].describe() if got else None)


def unexpected(o, p):
    return o[3] and o[1] == {"H3_FRAME_UNEXPECTED"} and "Err" in o[0]


def run(ctx):
    prog = ctx.prog
    # the codes this property names are the registry values (the rules below speak of them by name)
    shared.error_code_values(ctx, "C03-type", ("H3_FRAME_UNEXPECTED", "H3_REQUEST_INCOMPLETE", "H3_FRAME_ERROR"))
    found = discover(prog)
    ctx.floor("C03", "bodies switching on a Frame discriminant", len(found), 13)
    for k in sorted(found):
        ctx.check(k in TABLED, "C03", k, "dispatch site is tabled",
                  "a new, unreviewed site branches on a received frame's type: %s (add a table for it)" % k, TABLED.get(k, ""))

    # ---------------------------------------------------------------- server first frame
    b = ru.need(ctx, "C03-srv", "h3::server::request::RequestResolver::accept_with_frame")
    if b:
        rows = rows_for(ctx, "C03-srv", b, lambda r: r == ("param", 2))
        expect(ctx, "C03-srv", b, rows, "Headers", lambda o, p: "decode_stateless" in o[4], "decode the field section")
        expect(ctx, "C03-srv", b, rows, "None",
               lambda o, p: (not o[3]) and o[0] == "Err(StreamError::StreamError)" and "reset" in o[4] and
               {c for u, c in o[2]} == {"H3_REQUEST_INCOMPLETE"},
               "reset(H3_REQUEST_INCOMPLETE) + StreamError{H3_REQUEST_INCOMPLETE}, no connection error")
        for v in sorted(ALL - {"Headers"}):
            expect(ctx, "C03-srv", b, rows, v, unexpected, "connection error H3_FRAME_UNEXPECTED")
        expect(ctx, "C03-srv", b, rows, "Err", lambda o, p: "handle_frame_stream_error_on_request_stream" in o[4] and o[0].startswith("Err("),
               "handle_frame_stream_error_on_request_stream (C02-e)")

    # ---------------------------------------------------------------- client first frame
    # rows are taken from what each path decided, not from how the result was taken apart (`.map_err(..)?.ok_or_else(..)?`
    # and an explicit `match` give the same table): a path that tests the frame's type is a frame row; a path that does not
    # is the Err row if it routes the reader's error, the None row if it raises a connection error itself
    b = ru.need(ctx, "C03-cli", "h3::client::stream::RequestStream::recv_response::{closure#0}")
    if b:
        ps = [p for p in ru.all_paths(ctx, "C03-cli", b, max_visits=1) if p.end == "return"]
        fr = {}
        n_err = n_none = 0
        for p in ps:
            ft = [t for t in p.tests if t[3][0] == "discr" and set(t[2].split("|")) <= ALL and not dp.root_of(t[3])[0] in (None,) and dp.root_of(t[3])[0][0] != "param"]
            if ft:
                for lab in ft[0][2].split("|"):
                    fr.setdefault(lab, []).append((p, dp.outcome(prog, p)))
                continue
            routed = p.calls("handle_frame_stream_error_on_request_stream") or pa.closure_calls(prog, p, "handle_frame_stream_error_on_request_stream")
            fatal = p.calls("handle_connection_error_on_stream") or pa.closure_calls(prog, p, "handle_connection_error_on_stream")
            if routed and not p.has_call("h3::qpack::decoder::decode_stateless"):
                n_err += 1
                ctx.check(not fatal, "C03-cli", b.key, "Err -> handle_frame_stream_error_on_request_stream",
                          "an error reading the first frame is both routed and raised as a connection error", "")
            elif fatal and not p.has_call("h3::qpack::decoder::decode_stateless"):
                n_none += 1
                codes = pa.path_codes(prog, p)
                ctx.check(codes == {"H3_FRAME_UNEXPECTED"} and "Err" in p.ret_shape() + pa.vfmt(p.ret)[:0] or (codes == {"H3_FRAME_UNEXPECTED"} and p.ret_shape().startswith("Residual")),
                          "C03-cli", b.key, "None -> connection error H3_FRAME_UNEXPECTED",
                          "a response stream that ends before HEADERS yields codes %s returning %s; expected connection error "
                          "H3_FRAME_UNEXPECTED" % (sorted(codes), p.ret_shape()), "")
        ctx.check(n_err >= 1 and n_none >= 1, "C03-cli", b.key, "Err and None rows present", "rows found: err=%d none=%d" % (n_err, n_none), "")
        expect(ctx, "C03-cli", b, fr, "Headers", lambda o, p: "decode_stateless" in o[4], "decode the field section")
        for v in sorted(ALL - {"Headers"}):
            expect(ctx, "C03-cli", b, fr, v, unexpected, "connection error H3_FRAME_UNEXPECTED")

    # ---------------------------------------------------------------- body
    b = ru.need(ctx, "C03-body", "h3::connection::RequestStream::poll_recv_data")
    if b:
        rows = rows_for(ctx, "C03-body", b, lambda r: r[0] == "call" and r[1] == PN)
        expect(ctx, "C03-body", b, rows, "Data", lambda o, p: (p.end == "stop" or "poll_data" in o[4] or p.end == "loop-cut") and not o[3],
               "hand the payload out through poll_data")
        expect(ctx, "C03-body", b, rows, "Headers",
               lambda o, p: o[0] == "Ready(Ok(None))" and not o[3] and any("trailers" in pa.vfmt(e[4]) for e in p.stores()),
               "end of body, frame kept as trailers")
        expect(ctx, "C03-body", b, rows, "None", lambda o, p: o[0] == "Ready(Ok(None))" and not o[3], "end of body")
        expect(ctx, "C03-body", b, rows, "Pending", lambda o, p: o[0] == "Pending", "Pending")
        expect(ctx, "C03-body", b, rows, "Err", lambda o, p: "handle_frame_stream_error_on_request_stream" in o[4], "C02-e")
        for v in sorted(ALL - {"Headers", "Data"}):
            expect(ctx, "C03-body", b, rows, v, unexpected, "connection error H3_FRAME_UNEXPECTED")
        # end of body only at a real end: poll_data is reached only when data is owed
        ps = [p for p in ru.all_paths(ctx, "C03-eob", b, max_visits=2) if p.has_call("h3::frame::FrameStream::poll_data")]
        ctx.floor("C03-eob", "paths reaching poll_data", len(ps), 2)
        for p in ps:
            hd = [t for t in p.tests if expr.mentions(t[3], lambda n: n[0] == "call" and n[1] == "h3::frame::FrameStream::has_data")]
            ok = bool(hd) and expr.test_holds(hd[-1], prog.consts,
                                              lambda v: 1 if (v[0] == "call" and v[1] == "h3::frame::FrameStream::has_data") else None) is True
            ctx.check(ok, "C03-eob", b.key, "poll_data only with data owed (has_data() last seen true)",
                      "poll_data is reached on a path whose last has_data() test was false (right after a DATA frame header of length "
                      "0): poll_data then answers `end of data` and a zero-length DATA frame is reported to the application as the end "
                      "of the body although more DATA frames may follow", "", None, p.describe())

    # ---------------------------------------------------------------- trailers
    b = ru.need(ctx, "C03-trl", "h3::connection::RequestStream::poll_recv_trailers")
    if b:
        allp = [p for p in ru.all_paths(ctx, "C03-trl", b, max_visits=1) if p.end == "return"]
        first, trailing = {}, {}
        for p in allp:
            evs = [e for e in p.calls() if e[2].is_call(PN) or e[2].is_call("h3::frame::FrameStream::is_eos")]
            seen_eos = False
            for e in evs:
                if e[2].is_call("h3::frame::FrameStream::is_eos"):
                    seen_eos = True
                    continue
                bbc = e[1]
                cls = dp.classify(p, lambda r, bbc=bbc: r[0] == "call" and r[1] == PN and r[2] == bbc)
                if not cls:
                    continue
                fc = dp.frame_class(cls)
                tgt = trailing if seen_eos else first
                for lab in ([fc] if isinstance(fc, str) else sorted(fc)):
                    tgt.setdefault(lab, []).append((p, dp.outcome(prog, p)))
        expect(ctx, "C03-trl", b, first, "Headers", lambda o, p: True, "continue with the trailers")
        expect(ctx, "C03-trl", b, first, "None", lambda o, p: o[0] == "Ready(Ok(None))" and not o[3], "no trailers")
        expect(ctx, "C03-trl", b, first, "Pending", lambda o, p: o[0] == "Pending", "Pending")
        expect(ctx, "C03-trl", b, first, "Err", lambda o, p: "handle_frame_stream_error_on_request_stream" in o[4], "C02-e")
        for v in sorted(ALL - {"Headers"}):
            expect(ctx, "C03-trl", b, first, v, unexpected, "connection error H3_FRAME_UNEXPECTED")
        # trailing read
        expect(ctx, "C03-trl2", b, trailing, "Some:*", unexpected, "any frame after the trailers: connection error H3_FRAME_UNEXPECTED")
        expect(ctx, "C03-trl2", b, trailing, "None", lambda o, p: "decode_stateless" in o[4], "end of stream: decode the trailers")
        expect(ctx, "C03-trl2", b, trailing, "Err", lambda o, p: "handle_frame_stream_error_on_request_stream" in o[4], "C02-e")
        expect(ctx, "C03-trl2", b, trailing, "Pending",
               lambda o, p: o[0] == "Pending" and any("trailers" in pa.vfmt(e[4]) and e[3][0] == "agg" and e[3][2] == "Some" for e in p.stores()),
               "Pending with the trailers saved under self (not lost, not decoded early)")
        # trailing read is skipped only at end of stream
        dec = [p for p in allp if p.has_call("h3::qpack::decoder::decode_stateless")]
        for p in dec:
            eos = [t for t in p.tests if expr.mentions(t[3], lambda n: n[0] == "call" and n[1] == "h3::frame::FrameStream::is_eos")]
            tr = [e for e in p.calls(PN)]
            ok = bool(eos) and (expr.test_holds(eos[-1], prog.consts, lambda v: 1 if (v[0] == "call" and v[1].endswith("is_eos")) else None) is True
                                or any("None" == dp.frame_class(dp.classify(p, lambda r, bbc=e[1]: r[0] == "call" and r[1] == PN and r[2] == bbc)) for e in tr[-1:]))
            ctx.check(ok, "C03-trl2", b.key, "trailers decoded only at end of stream",
                      "the trailers are decoded on a path that neither saw is_eos() nor a trailing poll_next() == None", "", None, p.describe())

    # ---------------------------------------------------------------- frame type table (shared with C04)
    shared.frame_type_table(ctx, "C03-type")
    # a request stream split into halves keeps its place in the frame sequence
    shared.frame_stream_split(ctx, "C03-split")
    shared.request_stream_split(ctx, "C03-split")

    # ---------------------------------------------------------------- WebTransport front door
    b = ru.need(ctx, "C03-wt", "h3_webtransport::server::WebTransportSession::accept_bi::{closure#0}")
    if b:
        ps = [p for p in ru.all_paths(ctx, "C03-wt", b, max_visits=1) if p.end == "return"]
        wt = [p for p in ps if p.has_call("h3::frame::FrameStream::into_inner")]
        other = [p for p in ps if p.has_call("accept_with_frame")]
        ctx.check(bool(wt) and all("WebTransportStream" in [t[2] for t in p.tests] for p in wt), "C03-wt", b.key,
                  "raw stream handed over only for a WEBTRANSPORT_STREAM frame",
                  "FrameStream::into_inner is reached without matching Frame::WebTransportStream", "")
        f = fl.Flow(b, prog)
        okflow = True
        for bb, t in b.calls("accept_with_frame"):
            o = f.origin(t.args[1])
            okflow = okflow and o[0] == "call" and "poll" in o[1].lower() or "poll_fn" in fl.fmt(o) or "resume" in fl.fmt(o) or o[0] in ("proj", "call", "phi", "resume_arg", "unknown")
        ctx.check(bool(other), "C03-wt", b.key, "everything else is delegated to accept_with_frame",
                  "no path delegates the first frame to RequestResolver::accept_with_frame", "")
        nn = [p for p in ps if not p.has_call("accept_with_frame") and not p.has_call("h3::frame::FrameStream::into_inner")
              and p.has_call("create_resolver")]
        ctx.check(all(p.ret_shape() in ("Ok(None)",) for p in nn), "C03-wt", b.key, "stream ended before any frame -> Ok(None)",
                  "paths that read a first frame and neither delegate nor hand over return %s" % {p.ret_shape() for p in nn}, "")
    # unknown frames anywhere: the frame reader skips them and keeps going (shared with C02)
    shared.frame_decoder_memo(ctx, "C03-unk")
    ctx.assume("FrameStream::poll_next delivers frames in stream order (C02)")
    # the error class of a frame that is not allowed where it arrives is decided in the error table (C02-e): run under this property too
    if not getattr(ctx, "nested", False):
        from rules import C02 as _c02
        _c02.run(shared.Proxy(ctx, ("C02-e",), "C03-type"))
        # a DATA frame cut short by the end of the stream is not a complete message: the body reader reports `end of data` only at
        # a frame boundary (C02-d)
        _c02.run(shared.Proxy(ctx, ("C02-d",), "C03-eob", only=("FrameStream::poll_data",)))
