"""C13 SETTINGS are sent, parsed and applied exactly, for every configuration."""
import json
import os
from engine import flow as fl, ru, paths as pa, expr, tables
from rules import shared, C16 as _c16

EXPLANATION = (
    "Def-use, table and bound rules over config <-> frame::Settings: (a) TryFrom<Config> inserts distinct constant "
    "identifiers, all in is_supported, none in is_forbidden, each value by pure flow from its own Config field, and the "
    "inverse map From<&frame::Settings> reads the same identifier for the same field (sibling agreement) and stores the "
    "received value unchanged (only unwrap_or*/or* - plus one map for the flags - between get(ID) and the field: no "
    "filter/and_then/arithmetic, so an advertised 0 stays 0); the declared SETTINGS length is the size of the entries "
    "written (C14-b clauses on Settings::len/encode, shared); the grease "
    "identifier has the 0x1f*N+0x21 form, stays below 2^62 and no supported/forbidden identifier is itself of that form "
    "(so the random entry can never collide); (b) the number of inserts and |is_supported| fit SETTINGS_LEN and the "
    "worst-case encoded control-stream header, computed from the varint size classes of the inserted identifiers and the "
    "value ranges insert admits, fits WRITE_BUF_ENCODE_SIZE; (c) Settings::insert returns Ok only for values <= "
    "VarInt::MAX (so the later from_u64(..).unwrap() in len()/encode cannot panic for any builder input), refuses a "
    "repeated identifier by comparing identifiers only, and refuses overflow of the table; (d) Settings::decode tests "
    "is_forbidden before insert, maps forbidden -> InvalidSettingId, truncated entries -> Malformed, repeated -> "
    "Repeated (through insert), skips unsupported identifiers; is_forbidden = {0,2,3,4,5} (RFC 9114 Table 3 / 11.2.2); "
    "all SettingsError map to H3_SETTINGS_ERROR (C02-e table); (e) set_settings has one call site and the store is a "
    "OnceLock; defaults otherwise (C10-c). The cfg(test) send_settings switch is test-only code.")
# every anchor of these rules lives in the h3 crate: thorough tier repeats them on the feature-less build
EXTRA_CONFIGS = ["h3-plain"]
RULES = "C13-a what is sent, every SettingId constant is the registered number, received values applied unchanged, shared: C14-b on Settings::len/encode (A4/A11); C13-b capacity and buffer bound (A17/A6); C13-c setup never panics (A4/A5); C13-d receive, every supported identifier stored whatever its value, the length pre-check refuses only entries shorter than two bytes (A3/A2/A11/A5); C13-e applied once (A10); shared: varint form tables under C13-a, frame reader memo under C13-d; shared through a proxy: C02-g under C13-d; C10-c (protocol defaults) under C13-a"

FRM = "h3::proto::frame::"
HERE = os.path.dirname(os.path.dirname(os.path.abspath(__file__)))
REG = json.load(open(os.path.join(HERE, "ref", "rfc9114_registries.json")))
MAXV = (1 << 62) - 1


def vsize(x):
    return 1 if x < 64 else 2 if x < 16384 else 4 if x < (1 << 30) else 8


def eq_chain_set(ctx, rule, key):
    """{(constant name or None, value)} for which a predicate written as `self == A || self == B || ..` (or on `self.0`) answers
    true, read off its paths; None when the function does not have that shape."""
    prog = ctx.prog
    b = prog.one(key)
    if b is None:
        return None
    out = set()

    def cmp_const(v):
        # (name, value) of the constant a comparison of self / self.0 is made against
        if v[0] == "call" and pa.short(v[1]) == "eq" and len(v[2]) == 2:
            ops = v[2]
        elif v[0] == "binop" and v[1] == "Eq":
            ops = (v[2], v[3])
        else:
            return None
        me = [o for o in ops if o[0] == "param" and o[1] == 1]
        co = [o for o in ops if o[0] == "const"]
        if len(me) != 1 or len(co) != 1:
            return None
        c = co[0][1]
        if isinstance(c, str):
            return (c.rsplit("::", 1)[-1], prog.consts.get(c))
        return (None, c)
    ps = [p for p in ru.all_paths(ctx, rule, b) if p.end == "return"]
    for p in ps:
        cs = [(cmp_const(t[3]), t[2]) for t in p.tests]
        if any(c is None for c, _ in cs):
            return None
        trues = [c for c, lab in cs if lab == "true"]
        r = expr.fold(p.ret, prog.consts)
        if trues:
            if len(trues) != 1 or r != 1:
                return None
            out.add(trues[0])
        elif r == 0:
            pass
        else:
            c = cmp_const(p.ret)        # `.. || self == LAST`: the last comparison is the returned value
            if c is None:
                return None
            out.add(c)
    return out


def run(ctx):
    # the codes this property names are the registry values (the rules below speak of them by name)
    shared.error_code_values(ctx, "C13-d", ("H3_SETTINGS_ERROR", "H3_MISSING_SETTINGS"))
    # constructs shared with other properties: the varint forms every SETTINGS length/identifier/value is written in, and the
    # incremental frame reader that has to hand the peer's SETTINGS frame over once it is complete
    _c16.varint_form_tables(ctx, "C13-a")
    shared.frame_decoder_memo(ctx, "C13-d")
    prog = ctx.prog
    consts = prog.consts
    SID = FRM + "SettingId::"
    # supported / forbidden sets (HIR literal tables)
    sup, forb = set(), set()
    ms = tables.match_tables(prog, SID + "is_supported")
    if len(ms) == 1 and ms[0][0][0][0] == "or":
        for x in ms[0][0][0][1]:
            v = consts.get(x[1]) if x[0] == "path" else None
            if v is None:
                ctx.unrecognised("C13-a", SID + "is_supported", "pattern", "pattern %s is not a named SettingId constant" % (x,))
            else:
                sup.add((x[1].rsplit("::", 1)[-1], v))
    else:
        alt = eq_chain_set(ctx, "C13-a", SID + "is_supported")
        if alt and all(n is not None and v is not None for n, v in alt):
            sup |= set(alt)
        else:
            ctx.missing("C13-a", SID + "is_supported table")
    ms = tables.match_tables(prog, SID + "is_forbidden")
    if len(ms) == 1 and ms[0][0][0][0] == "or":
        for x in ms[0][0][0][1]:
            if x[0] == "ctor" and isinstance(x[2][0], int):
                forb.add(x[2][0])
            else:
                ctx.unrecognised("C13-d", SID + "is_forbidden", "pattern", "pattern %s" % (x,))
    else:
        alt = eq_chain_set(ctx, "C13-d", SID + "is_forbidden")
        if alt and all(isinstance(v, int) for _, v in alt):
            forb |= {v for _, v in alt}
        else:
            ctx.missing("C13-d", SID + "is_forbidden table")
    ctx.check(forb == set(REG["settings_reserved_h2"]), "C13-d", SID + "is_forbidden", "= HTTP/2-reserved identifiers {0,2,3,4,5}",
              "is_forbidden covers %s; RFC 9114 11.2.2 reserves %s" % (sorted(forb), REG["settings_reserved_h2"]), str(sorted(forb)))
    supv = {v for _, v in sup}
    ctx.check(not (supv & forb), "C13-a", SID + "is_supported", "no supported identifier is HTTP/2-reserved", "overlap: %s" % sorted(supv & forb), "")
    ctx.check(consts.get(SID + "MAX_HEADER_LIST_SIZE") == REG["settings"]["MAX_FIELD_SECTION_SIZE"], "C13-a", SID + "MAX_HEADER_LIST_SIZE",
              "SETTINGS_MAX_FIELD_SECTION_SIZE = 0x6", "value %s" % consts.get(SID + "MAX_HEADER_LIST_SIZE"), "6")
    # every identifier h3 knows is the registered number (RFC 9114 7.2.4.1, RFC 9204 5, RFC 8441, RFC 9297, draft-ietf-webtrans-http3-02)
    for nm, want in (("QPACK_MAX_TABLE_CAPACITY", REG["qpack"]["settings"]["QPACK_MAX_TABLE_CAPACITY"] if "settings" in REG["qpack"] else 1),
                     ("QPACK_MAX_BLOCKED_STREAMS", REG["qpack"]["settings"]["QPACK_BLOCKED_STREAMS"] if "settings" in REG["qpack"] else 7),
                     ("ENABLE_CONNECT_PROTOCOL", REG["extensions"]["SETTINGS_ENABLE_CONNECT_PROTOCOL"]),
                     ("H3_DATAGRAM", REG["extensions"]["SETTINGS_H3_DATAGRAM"]),
                     ("ENABLE_WEBTRANSPORT", REG["extensions"]["SETTINGS_ENABLE_WEBTRANSPORT_draft02"]),
                     ("WEBTRANSPORT_MAX_SESSIONS", REG["extensions"]["SETTINGS_WEBTRANSPORT_MAX_SESSIONS"])):
        got = consts.get(SID + nm)
        if got is None:
            ctx.missing("C13-a", SID + nm)
            continue
        ctx.check(got == want, "C13-a", SID + nm, "= 0x%x (registered identifier)" % want,
                  "SettingId::%s is 0x%x, the registered identifier is 0x%x: the setting is announced to, and read from, the peer under another "
                  "setting's number" % (nm, got, want), "0x%x" % got)
    greaseform = [n for n, v in sup if v % 0x1f == 0x21 % 0x1f] + [v for v in forb if v % 0x1f == 0x21 % 0x1f and v >= 0x21]
    ctx.check(not greaseform, "C13-a", SID + "grease", "no real identifier has the reserved 0x1f*N+0x21 form",
              "identifiers %s are themselves of the grease form: the random grease entry could collide with them and make the SETTINGS "
              "frame fail as `Repeated`" % greaseform, "")
    # grease formula
    g = ru.need(ctx, "C13-a", SID + "grease")
    upper = None
    if g:
        ps = [p for p in ru.all_paths(ctx, "C13-a", g) if p.end == "return"]
        ok = len(ps) == 1 and ps[0].ret[0] == "agg"
        v = ps[0].ret[3][0] if ok else None
        mul = off = None
        if ok:
            x = v
            while x[0] == "proj":
                x = x[1]
            if x[0] == "binop" and x[1].startswith("Add"):
                off = expr.fold(x[3], consts)
                y = x[2]
                while y[0] == "proj":
                    y = y[1]
                if y[0] == "binop" and y[1].startswith("Mul"):
                    mul = expr.fold(y[3], consts)
                    r = y[2]
                    if r[0] == "call" and r[1].startswith("fastrand::") and r[2] and r[2][0][0] == "agg":
                        rng = r[2][0][3]
                        lo_, hi_ = expr.fold(rng[0], consts), expr.fold(rng[1], consts)
                        upper = hi_ if lo_ == 0 else None
        ok = ok and (mul, off) == (0x1f, 0x21) and upper is not None and (upper - 1) * 0x1f + 0x21 <= MAXV
        ctx.check(ok, "C13-a", g.key, "grease id = 0x1f*N+0x21 with N < %s, below 2^62" % upper,
                  "SettingId::grease computes %s (multiplier %s, offset %s, N < %s); RFC 9114 7.2.4.1 reserves 0x1f*N+0x21 and the value must "
                  "fit a varint" % (pa.vfmt(v) if v else "?", mul, off, upper), "")
    # what is sent
    tf = ru.need(ctx, "C13-a", "<h3::proto::frame::Settings as core::convert::TryFrom<h3::config::Config>>::try_from")
    sent = []
    want_map = {"MAX_HEADER_LIST_SIZE": ("max_field_section_size", False), "ENABLE_CONNECT_PROTOCOL": ("enable_extended_connect", True),
                "ENABLE_WEBTRANSPORT": ("enable_webtransport", True), "H3_DATAGRAM": ("enable_datagram", True),
                "WEBTRANSPORT_MAX_SESSIONS": ("max_webtransport_sessions", False)}
    if tf:
        f = fl.Flow(tf, prog)
        for bb, t in tf.calls(FRM + "Settings::insert"):
            ido, vo = f.origin(t.args[1]), f.origin(t.args[2])
            if ido[0] == "call" and ido[1] == SID + "grease":
                sent.append(("grease", 8, 1))
                ctx.check(ru.const_int(vo) == 0, "C13-a", tf.key, "grease entry carries value 0", "grease value %s" % fl.fmt(vo), "")
                continue
            name = ido[1].rsplit("::", 1)[-1] if ido[0] == "const" and isinstance(ido[1], str) else None
            idv = consts.get(ido[1]) if name else None
            if idv is None:
                ctx.unrecognised("C13-a", tf.key, "inserted identifier", "identifier %s is not a named constant" % fl.fmt(ido))
                continue
            fld, isbool = want_map.get(name, (None, None))
            src = vo[1] if vo[0] == "cast" else vo
            ok = fld is not None and src == ("param", 1, ("settings", fld)) and (vo[0] == "cast") == isbool
            ctx.check(ok, "C13-a", tf.key, "%s <- config.%s" % (name, fld),
                      "setting %s is sent with value %s; it must carry exactly the configured %s" % (name, fl.fmt(vo), fld or "(no audited field)"), fl.fmt(vo))
            ctx.check(idv in supv and idv not in forb, "C13-a", tf.key, "%s is a supported, non-reserved identifier" % name,
                      "identifier %s (%#x) is %s" % (name, idv, "HTTP/2-reserved" if idv in forb else "not in is_supported (the peer-side parser would drop it)"), "")
            sent.append((name, vsize(idv), 1 if isbool else 8))
        names = [n for n, _, _ in sent]
        ctx.check(len(names) == len(set(names)) and set(names) == set(want_map) | {"grease"}, "C13-a", tf.key, "each setting inserted once",
                  "settings inserted: %s" % names, str(names))
        # every insert's error is propagated (`?`) except the grease one
        ps = [p for p in ru.all_paths(ctx, "C13-a", tf) if p.end == "return" and p.ret_shape().startswith("Ok(")]
        ctx.check(bool(ps) and all(len(p.calls(FRM + "Settings::insert")) >= len(want_map) for p in ps), "C13-a", tf.key, "Ok only after all inserts",
                  "an Ok path skips an insert", "")
    inv = ru.need(ctx, "C13-a", "<h3::config::Settings as core::convert::From<&h3::proto::frame::Settings>>::from")
    if inv:
        f = fl.Flow(inv, prog)
        ag = ru.aggregates(inv, "h3::config::Settings")
        ctx.check(len(ag) == 1, "C13-a", inv.key, "one Settings built", "%d" % len(ag), "")
        for bb, s in ag:
            for name, (fld, isbool) in want_map.items():
                o = f.origin(ru.field_op(s, fld))
                gets = [n for n in fl.walk(o) if n[0] == "call" and n[1] == FRM + "Settings::get"]
                ids = {fl.fmt(n[2][1]) for n in gets}
                ok = ids == {"const(%s%s)" % (SID, name)} and (ru.o_has_call(o, "core::option::Option::unwrap_or") or
                                                                   (o[0] == "phi" and len(o[1]) == 2))     # explicit `match get(ID) { Some(v) => .., None => default }`
                ctx.check(ok, "C13-a", inv.key, "config.%s <- %s (default otherwise)" % (fld, name),
                          "received settings: field %s is read from identifiers %s; the writer sends it as %s" % (fld, sorted(ids), name), str(sorted(ids)))
                # the received value is applied AS RECEIVED: between `get(ID)` and the field no Option combinator may drop or
                # alter a present value (`filter`, `and_then`, `xor`, `take_if`, .. turn an advertised 0 into "not advertised");
                # numeric settings also admit no `map` and no arithmetic, boolean ones exactly one `map` (value -> flag)
                keep = ("unwrap_or", "unwrap_or_else", "unwrap_or_default", "or", "or_else") + (("map",) if isbool else ())
                optc = [c for c in fl.calls_in(o) if c.startswith("core::option::Option::")]
                bad = sorted(c for c in optc if c.rsplit("::", 1)[1] not in keep)
                if not isbool:
                    # a numeric value is not passed through any other function either (`.min(..)`, `clamp`, ..): only the read, the
                    # default and value-preserving conversions
                    bad += sorted(c for c in fl.calls_in(o) if not c.startswith("core::option::Option::") and c != FRM + "Settings::get"
                                  and not c.endswith("::default") and not c.endswith("::from") and not c.endswith("::into"))
                okv = not bad and (isbool or not fl.has_arith(o)) and optc.count("core::option::Option::map") <= (1 if isbool else 0)
                ctx.check(okv, "C13-a", inv.key, "config.%s takes the received value unchanged (no filtering combinator)" % fld,
                          "received settings: the value of %s passes through %s%s before it is stored in config.%s - a value the peer advertised "
                          "(e.g. 0) is replaced by the default, so the peer's setting is not applied as received"
                          % (name, bad or optc, " and arithmetic" if (not isbool and fl.has_arith(o)) else "", fld), str(bad))
        # .. and in the written-out form (`match get(ID) { Some(v) if .. => v, _ => default }`) no branch of this function may
        # depend on the VALUE of a numeric setting: only the presence test (discriminant of `get(ID)`) decides between it and the default
        numeric = {"const(%s%s)" % (SID, name) for name, (fld, isbool) in want_map.items() if not isbool}
        for bi, blk in enumerate(inv.blocks):
            if blk.term.t != "switch":
                continue
            o = f.origin(blk.term.op)
            ids = {fl.fmt(n[2][1]) for n in fl.walk(o) if n[0] == "call" and n[1] == FRM + "Settings::get"} & numeric
            ctx.check(not ids or fl.fmt(o).startswith("discr("), "C13-a", inv.key, "no branch on the value of a received numeric setting",
                      "received settings: a branch of From<&frame::Settings> tests the value of %s (%s) - some advertised values are then "
                      "not stored as received" % (sorted(ids), fl.fmt(o)[:120]), fl.fmt(o)[:80])
    # ------------------------------------------------------------------ C13-b capacity
    slen = consts.get(FRM + "SETTINGS_LEN")
    ctx.check(slen is not None and len(sent) <= slen and len(sup) <= slen, "C13-b", FRM + "SETTINGS_LEN", "table holds every sent and every supported setting",
              "SETTINGS_LEN = %s, settings sent = %d, supported identifiers = %d: a valid peer frame (or this endpoint's own) would fail as "
              "`Exceeded`" % (slen, len(sent), len(sup)), "%s >= %d, %d" % (slen, len(sent), len(sup)))
    wb = consts.get("h3::stream::WRITE_BUF_ENCODE_SIZE")
    payload = sum(a + b for _, a, b in sent)
    control = 1 + 1 + vsize(payload) + payload           # stream type CONTROL, frame type SETTINGS, length, entries
    ctx.check(consts.get("h3::proto::stream::StreamType::CONTROL") == 0 and consts.get(FRM + "FrameType::SETTINGS") == 4, "C13-b", "constants",
              "CONTROL = 0, SETTINGS = 4 (1-byte varints)", "CONTROL=%s SETTINGS=%s" % (consts.get("h3::proto::stream::StreamType::CONTROL"), consts.get(FRM + "FrameType::SETTINGS")), "")
    ctx.check(wb is not None and control <= wb, "C13-b", "h3::stream::WRITE_BUF_ENCODE_SIZE", "worst-case control-stream header fits the encode buffer",
              "the control stream header (stream type + SETTINGS with %s) can take %d bytes but WriteBuf's header buffer has %s: connection "
              "setup panics for configurations with large values (e.g. grease on, both u64 settings >= 2^30)" % (sent, control, wb),
              "%d <= %s" % (control, wb))
    # ------------------------------------------------------------------ C13-c insert guards
    ins = ru.need(ctx, "C13-c", FRM + "Settings::insert")
    if ins:
        ps = [p for p in ru.all_paths(ctx, "C13-c", ins) if p.end == "return"]
        okp = [p for p in ps if p.ret_shape().startswith("Ok(")]
        ctx.floor("C13-c", "Ok paths of insert", len(okp), 1)
        for p in okp:
            lo, hi, _ = expr.interval([(t[3], t[2]) for t in p.tests], lambda v: v == ("param", 3, ()), consts)
            ctx.check(hi == MAXV, "C13-c", ins.key, "accepted values are <= 2^62-1 (encodable as a varint)",
                      "insert accepts values up to %s: a builder value of 2^62 or more is stored and Settings::len()/encode() later panic in "
                      "VarInt::from_u64(..).unwrap() during connection setup" % hi, "<= 2^62-1", None, p.describe())
            full = [nf for nf in (expr.orient(expr.cmp_nf(t[3], t[2]), lambda v: "param_1.len" in pa.vfmt(v) and not expr.mentions(v, lambda n: n[0] == "call")) for t in p.tests)
                    if nf and expr.mentions(nf[2], lambda n: n[0] == "call" and pa.short(n[1]) == "len")]
            ctx.check(bool(full) and full[0][1] == "<", "C13-c", ins.key, "stored only when the table has room",
                      "insert writes an entry without `len < entries.len()` (found: %s)" % [nf[1] for nf in full], "")
            rep = [t for t in p.tests if t[3][0] == "call" and pa.short(t[3][1]) in ("any", "contains")]
            ok_rep = len(rep) == 1 and pa.short(rep[0][3][1]) == "any" and rep[0][2] == "false"
            if not ok_rep and not rep:
                # explicit loop over entries[..len]: the Ok path leaves it only when the iterator is exhausted, and the loop body
                # returns Repeated when an entry's identifier equals the new one (checked under C13-d below)
                ex_ = [t for t in p.tests if t[3][0] == "discr" and t[3][1][0] == "call" and pa.short(t[3][1][1]) == "next" and "param_1.entries" in t[1]]
                ok_rep = bool(ex_) and ex_[-1][2] == "None" and any(q.ret_shape() == "Err(SettingsError::Repeated)" for q in ps)
            ctx.check(ok_rep, "C13-c", ins.key, "stored only when the identifier is new",
                      "duplicate test on the Ok path: %s" % [(t[1][:50], t[2]) for t in rep], "")
            st = [e for e in p.stores()]
            ok = any("entries" in pa.vfmt(e[4]) and e[3][0] == "agg" and e[3][3] == (("param", 2, ()), ("param", 3, ())) for e in st) and \
                any(pa.vfmt(e[4]) == "param_1.len" for e in st)
            ctx.check(ok, "C13-c", ins.key, "stores (id, value) and bumps len", "stores: %s" % [(pa.vfmt(e[4]), pa.vfmt(e[3])[:40]) for e in st], "")
        errs = {p.ret_shape() for p in ps if p.ret_shape().startswith("Err(")}
        ctx.check(errs >= {"Err(SettingsError::Exceeded)", "Err(SettingsError::Repeated)", "Err(SettingsError::InvalidSettingValue)"}, "C13-c", ins.key,
                  "refusals: Exceeded, Repeated, InvalidSettingValue", "error returns: %s" % sorted(errs), "")
        cl = prog.one(ins.key + "::{closure#0}")
        if cl is None:
            # explicit loop: on the Repeated path the deciding test is `entry.0 == id` (SettingId equality, either operand order)
            okl = False
            for q in [q for q in ps if q.ret_shape() == "Err(SettingsError::Repeated)"]:
                last = q.tests[-1] if q.tests else None
                if last and last[3][0] == "call" and pa.short(last[3][1]) == "eq" and "SettingId" in last[3][1] and last[2] == "true" and len(last[3][2]) == 2:
                    a_, b__ = [pa.vfmt(x) for x in last[3][2]]
                    ent = lambda s_: "next@" in s_ and "param_1.entries" in s_ and s_.endswith(".0")
                    okl = (ent(a_) and b__ == "param_2") or (ent(b__) and a_ == "param_2")
            if okl:
                ctx.ok("C13-d", "%s:an entry repeats when its IDENTIFIER equals the new one (explicit loop)" % ins.key, "")
            else:
                ctx.unrecognised("C13-d", ins.key, "duplicate test", "the repeated-identifier test is neither an `any(|(i, _)| *i == id)` closure nor a loop returning Repeated on `entry.0 == id`")
        else:
            o = fl.Flow(cl, prog).origin(fl.Place({"l": 0})) if hasattr(fl, "Place") else None
            from engine.mir import Place
            o = fl.Flow(cl, prog).origin(Place({"l": 0}))
            ok = o[0] == "call" and pa.short(o[1]) == "eq" and "SettingId" in o[1] and len(o[2]) == 2
            if ok:
                a, b_ = o[2]
                ok = (a[0] == "param" and a[1] == 2 and a[2][-1:] == ("0",) and b_[0] == "param" and b_[1] == 1) or \
                     (b_[0] == "param" and b_[1] == 2 and b_[2][-1:] == ("0",) and a[0] == "param" and a[1] == 1)
            ctx.check(ok, "C13-d", cl.key, "an entry repeats when its IDENTIFIER equals the new one",
                      "the duplicate test compares %s; RFC 9114 7.2.4: the same identifier MUST NOT occur more than once, whatever the "
                      "values (a repeated identifier with a different value must be H3_SETTINGS_ERROR)" % fl.fmt(o), fl.fmt(o)[:120])
    # ------------------------------------------------------------------ C13-d decode
    dc = ru.need(ctx, "C13-d", FRM + "Settings::decode")
    if dc:
        heads = dc.loop_heads()
        ex = pa.Explorer(prog, dc, max_visits=1)
        its = []
        for h in heads:
            its += ex.paths(start=h, stop_at=heads)
        n_ins = 0
        for p in its:
            fb = [t for t in p.tests if t[3][0] == "call" and t[3][1] == SID + "is_forbidden"]
            sp = [t for t in p.tests if t[3][0] == "call" and t[3][1] == SID + "is_supported"]
            if p.has_call(FRM + "Settings::insert"):
                n_ins += 1
                ok = bool(fb) and fb[0][2] == "false" and bool(sp) and sp[0][2] == "true"
                ctx.check(ok, "C13-d", dc.key, "insert only for supported, non-reserved identifiers",
                          "a received setting is stored without is_forbidden == false and is_supported == true on the path", "", None, p.describe())
                e = p.calls(FRM + "Settings::insert")[0]
                ok = expr.mentions(e[3][1], lambda n: n[0] == "call" and n[1] == SID + "decode") and \
                    expr.mentions(e[3][2], lambda n: n[0] == "call" and pa.short(n[1]) == "get_var") and not \
                    expr.mentions(e[3][1], lambda n: n[0] == "binop") and not expr.mentions(e[3][2], lambda n: n[0] == "binop")
                ctx.check(ok, "C13-d", dc.key, "stores the decoded (id, value)", "insert(%s, %s)" % (pa.vfmt(e[3][1])[:40], pa.vfmt(e[3][2])[:40]), "")
                if p.end == "return":
                    ctx.check(p.ret_shape().startswith("Residual"), "C13-d", dc.key, "insert's refusal (Repeated/Exceeded) is propagated", "returns %s" % p.ret_shape(), "")
            if fb and fb[0][2] == "true":
                ctx.check(p.end == "return" and p.ret_shape() == "Err(SettingsError::InvalidSettingId)", "C13-d", dc.key,
                          "HTTP/2-reserved identifier -> InvalidSettingId", "a reserved identifier leads to %s" % (p.ret_shape() if p.end == "return" else p.end), "")
            if sp and sp[0][2] == "true" and not (fb and fb[0][2] == "true") and p.end == "stop":
                # a supported, permitted identifier: the iteration stores it, whatever its value (0 is a value like any other:
                # MAX_FIELD_SECTION_SIZE = 0 means "send me no field sections", not "no limit")
                others = [t for t in p.tests if t[3][0] != "discr" and not (t[3][0] == "call" and t[3][1] in (SID + "is_forbidden", SID + "is_supported")) and
                          expr.mentions(t[3], lambda n: n[0] == "call" and pa.short(n[1]) == "get_var")]
                ctx.check(p.has_call(FRM + "Settings::insert") and not others, "C13-d", dc.key, "every supported identifier is stored, whatever its value",
                          "an iteration for a supported identifier %s (further conditions on the value: %s): the peer's setting is dropped and the default "
                          "stays in force" % ("does not call insert" if not p.has_call(FRM + "Settings::insert") else "stores it only conditionally", [(t[1][:60], t[2]) for t in others]),
                          "", None, p.describe())
            if sp and sp[0][2] == "false":
                ctx.check(p.end == "stop" and not p.has_call(FRM + "Settings::insert"), "C13-d", dc.key, "unknown identifier ignored",
                          "an unsupported identifier leads to %s" % (p.ret_shape() if p.end == "return" else p.end), "")
            if p.end == "return" and (p.ret_shape().startswith("Residual(call:map_err)") or p.ret_shape() == "Err(SettingsError::Malformed)"):
                shapes = ru.residual_error_shapes(ctx, p)[0] if p.ret_shape().startswith("Residual") else {"SettingsError::Malformed"}
                ctx.check(shapes == {"SettingsError::Malformed"}, "C13-d", dc.key, "truncated entry -> Malformed", "truncation yields %s" % shapes, "")
        ctx.floor("C13-d", "storing iterations of Settings::decode", n_ins, 1)
        # the smallest complete entry is two one-byte varints: a verdict taken BEFORE anything is decoded may refuse only what is
        # shorter than that (remaining() <= 1)
        n_pre = 0
        for p in its:
            if p.end != "return" or p.ret_shape() != "Err(SettingsError::Malformed)" or p.calls(SID + "decode") or p.calls("get_var"):
                continue
            n_pre += 1
            lo, hi, _ = expr.interval([(t[3], t[2]) for t in p.tests], lambda v: v[0] == "call" and pa.short(v[1]) == "remaining", consts)
            ctx.check(hi is not None and hi <= 1, "C13-d", dc.key, "the length pre-check refuses only entries shorter than two bytes",
                      "Settings::decode answers Malformed before decoding anything while up to %s bytes remain: a frame whose last entry is a "
                      "complete pair of one-byte varints (e.g. `06 0c`) is refused with H3_SETTINGS_ERROR" % hi, "", None, p.describe())
        rows = {("fb", True): 0, ("sp", False): 0}
        for p in its:
            for t in p.tests:
                if t[3][0] == "call" and t[3][1] == SID + "is_forbidden" and t[2] == "true":
                    rows[("fb", True)] += 1
                if t[3][0] == "call" and t[3][1] == SID + "is_supported" and t[2] == "false":
                    rows[("sp", False)] += 1
        ctx.check(all(v >= 1 for v in rows.values()), "C13-d", dc.key, "forbidden and unsupported rows present", "rows: %s" % rows, "")
    cv = ru.need(ctx, "C13-d", "<h3::proto::frame::FrameError as core::convert::From<h3::proto::frame::SettingsError>>::from")
    if cv:
        ps = [p for p in ru.all_paths(ctx, "C13-d", cv) if p.end == "return"]
        ctx.check([p.ret_shape() for p in ps] == ["FrameError::Settings"], "C13-d", cv.key, "SettingsError -> FrameError::Settings (-> H3_SETTINGS_ERROR, C02-e)",
                  "conversion yields %s" % [p.ret_shape() for p in ps], "")
    gfe = prog.one("h3::error::internal_error::InternalConnectionError::got_frame_error")
    if gfe:
        ps = [p for p in ru.all_paths(ctx, "C13-d", gfe) if p.end == "return" and "Settings" in [t[2] for t in p.tests]]
        ok = bool(ps) and all(p.ret[0] == "agg" and str(p.ret[3][0][1]).endswith("H3_SETTINGS_ERROR") for p in ps)
        ctx.check(ok, "C13-d", gfe.key, "Settings errors -> H3_SETTINGS_ERROR", "Settings arm code: %s" % [pa.vfmt(p.ret)[:60] for p in ps], "")
    # ------------------------------------------------------------------ C13-e
    sites = sorted({b.key for b, bb, t in prog.callers_of("h3::shared_state::ConnectionState::set_settings")})
    ctx.check(sites == ["h3::connection::ConnectionInner::poll_control"], "C13-e", "set_settings", "applied at one site (first SETTINGS arm)", "call sites: %s" % sites, str(sites))
    ss = ru.need(ctx, "C13-e", "h3::shared_state::ConnectionState::set_settings")
    if ss:
        ok = len(list(ss.calls("std::sync::once_lock::OnceLock::set"))) == 1
        ctx.check(ok, "C13-e", ss.key, "stored with OnceLock::set (first wins)", "set_settings does not use OnceLock::set", "")
    pcb = prog.one("h3::connection::ConnectionInner::poll_control")
    if pcb:
        f = fl.Flow(pcb, prog)
        for bb, t in pcb.calls("h3::shared_state::ConnectionState::set_settings"):
            o = f.origin(t.args[1])
            ctx.check(ru.o_has_call(o, "<h3::config::Settings as core::convert::From<&h3::proto::frame::Settings>>::from"), "C13-e", pcb.key,
                      "applies the received frame's settings", "set_settings(%s)" % fl.fmt(o)[:100], "")
    ctx.assume("cfg(test)-only Config.send_settings is not part of the shipped code")
    # a SETTINGS frame reaches Settings::decode only through Frame::decode: no verdict there may depend on the declared length alone (C02-g)
    if not getattr(ctx, "nested", False):
        from rules import C02 as _c02s
        _c02s.run(shared.Proxy(ctx, ("C02-g",), "C13-d"))
        # the SETTINGS frame this endpoint sends declares the length of the entries it writes (Settings::len / Settings::encode, C14-b)
        from rules import C14 as _c14s
        _c14s.run(shared.Proxy(ctx, ("C14-b",), "C13-a", exclude=("Frame as h3::proto::coding::Encode", "simple_frame_encode")))
        # what holds before the peer's SETTINGS arrive (and for identifiers they omit) are the protocol defaults (C10-c)
        from rules import C10 as _c10s
        _c10s.run(shared.Proxy(ctx, ("C10-c",), "C13-a", only=("core::default::Default>::default",)))
