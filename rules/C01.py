"""C01 End-to-end message fidelity - the structural necessary conditions only."""
import re
from engine import flow as fl, ru, paths as pa, expr, tables
from rules import shared, C02 as _c02, C03 as _c03, C10 as _c10, C12 as _c12, C14 as _c14, C17 as _c17

EXPLANATION = (
    "C01 as stated (delivered message == submitted message for every message, chunking and schedule) quantifies over runtime "
    "values and is NOT decided here. What is decided is the conjunction of the structural conditions without which it cannot "
    "hold, each on the code every message passes through: (f) field mapping - the writer's and the reader's pseudo-header "
    "tables agree name by name and slot by slot (HeaderIter::next emits `:name` from the slot that Field::parse + "
    "Header::try_from fill for `:name`), received regular fields are appended (never inserted: repeated names keep every value "
    "in order), HeaderIter hands out every map entry with the name of its group, into_request_parts / into_response_parts "
    "build the http types from exactly those slots and the field map unchanged; (s) segmentation - the C02 rules (exact "
    "consumption, truncation, memo, end of stream) because a message survives re-chunking only if frame boundaries do; (q) "
    "sequence - the C03 body/end-of-body/trailers tables and the split rule (one clean end of message, trailers kept, also across split()); (v) field validation and "
    "sending order - C12-a/C12-d, and the size accounting/limit comparisons C10-a/C10-b that sender and receiver must share; (w) writer - C14-a/b/e (frame kept whole, declared length = payload, header/payload cursor "
    "under partial writes); (t) transport adapter - C17-a/b (every accepted buffer written completely, in order, kept across "
    "Pending). Sub-rules of other properties run through a filtering proxy and are reported under C01-s/q/v/w/t with their "
    "original rule id in the title. A violation of any of them breaks fidelity for some message or schedule; their absence "
    "does not prove fidelity.")
EXTRA_CONFIGS = ["h3-plain"]
RULES = ("C01-f field mapping: pseudo-header writer/reader tables agree, append not insert, iterator, into_*_parts flows (A11/A4/A3); "
         "C01-s = C02-a..g; C01-q = C03-body, C03-eob, C03-trl, C03-split; C01-v = C12-a, C12-d, C10-a, C10-b, C11-f, C11-a (static table), C15-c; C01-s also = C06-b on the frame/stream/adapter functions; C01-w = C14-a, C14-b, C14-e; C01-t = C17-a, C17-b "
         "(re-used through a filtering proxy)")

META = {
    "level": "PARTIAL - structural necessary conditions only. " + EXPLANATION,
    "note": "Does NOT decide the behaviour stated by C01 (value equality over all messages, chunkings and schedules): that quantifies over runtime values and is out of "
            "reach of a sound static argument here (DESIGN.md section 4, C01). Decides that the code every message passes through has the shape without which "
            "fidelity fails: agreeing writer/reader field tables, append-not-insert, iterator and into_*_parts flows, plus the segmentation, sequencing, writer and "
            "adapter clauses shared with C02/C03/C12/C14/C17. Trusted base as for the other checks (rustc MIR, Appendix A library model, http/bytes crates).",
}
H = "h3::proto::headers::"
SLOTS = {":method": "method", ":scheme": "scheme", ":authority": "authority", ":path": "path", ":status": "status", ":protocol": "protocol"}


Proxy = shared.Proxy


def run(ctx):
    prog = ctx.prog
    # ------------------------------------------------------------------ C01-f writer table
    it = ru.need(ctx, "C01-f", "<%sHeaderIter as core::iter::traits::iterator::Iterator>::next" % H)
    sender = {}
    if it:
        ps = [p for p in ru.all_paths(ctx, "C01-f", it, max_visits=1) if p.end == "return"]
        n_reg = 0
        for p in ps:
            txt = pa.vfmt(p.ret)
            m = re.match(r'Some\(from@bb\d+\(tuple\("(:[a-z]+)", (.*)\)\)\)$', txt)
            if m:
                v_ = re.sub(r"^as_bytes@bb\d+\((.*)\)$", r"\1", m.group(2))
                slot = re.fullmatch(r"as_str@bb\d+\(take@bb\d+\(param_1\.pseudo<Some>\.0\.([a-z_]+)\)<Some>\.0\)", v_)      # the slot's whole text, nothing derived from it
                sender.setdefault(m.group(1), set()).add(slot.group(1) if slot else "?")
                continue
            if p.ret_shape().startswith("Some("):
                n_reg += 1
                # a regular field: value of the iterator item just taken, name of its group (the item's own name when it has one)
                item = re.search(r"(next@bb\d+\(into_iter@bb\d+\(param_1\.fields\)\))<Some>\.0\.1", txt)
                ok = bool(item) and "as_str@" in txt and "param_1.last_header_name<Some>.0" in txt
                named = [t[2] for t in p.tests if t[3][0] == "discr" and item and pa.vfmt(t[3]) == "discr(%s<Some>.0.0)" % item.group(1)]
                st = [pa.vfmt(e[3]) for e in p.stores() if pa.vfmt(e[4]) == "param_1.last_header_name"]
                if named[:1] == ["Some"]:
                    ok = ok and st == ["Some(%s<Some>.0.0<Some>.0)" % item.group(1)]
                elif named[:1] == ["None"]:
                    ok = ok and not st
                else:
                    ok = False
                ctx.check(ok, "C01-f", it.key, "regular field: value of the item taken, name of its group (%s)" % ("named item" if named[:1] == ["Some"] else "repeated name"),
                          "HeaderIter::next yields %s with last_header_name stores %s: http::HeaderMap's owning iterator gives the name only with the first value "
                          "of a name, so the other values must go out under the remembered name and every item must be emitted" % (txt[:140], st), "", None, p.describe())
        ctx.floor("C01-f", "regular-field paths of HeaderIter::next", n_reg, 2)
        ctx.check({k: sorted(v) for k, v in sender.items()} == {k: [v] for k, v in SLOTS.items()}, "C01-f", it.key,
                  "writer table: each pseudo name is emitted from its own slot",
                  "HeaderIter::next emits %s; expected %s" % ({k: sorted(v) for k, v in sorted(sender.items())}, SLOTS), str(sorted(sender)))
    # ------------------------------------------------------------------ reader tables
    fp = ru.need(ctx, "C01-f", H + "Field::parse")
    name2variant = {}
    if fp:
        got_, _w, _ok = _c12.pseudo_name_table(ctx, "C01-f", fp)
        name2variant = {k.decode(): v for k, v in got_.items()}
    tf = ru.need(ctx, "C01-f", "<%sHeader as core::convert::TryFrom<alloc::vec::Vec<h3::qpack::field::HeaderField>>>::try_from" % H)
    variant2slot = {}
    if tf:
        heads = tf.loop_heads()
        ex = pa.Explorer(prog, tf, max_visits=1)
        n_hdr = 0
        for h in heads:
            for p in ex.paths(start=h, stop_at=heads):
                labs = [t[2] for t in p.tests if t[3][0] == "discr" and "parse@" in t[1]]
                fv_ = [l for l in labs if l in ("Method", "Scheme", "Authority", "Path", "Status", "Protocol", "Header")]
                var = fv_[-1] if fv_ else None
                if p.end != "stop" or var is None:
                    continue
                if var == "Header":
                    n_hdr += 1
                    ap = p.calls("http::header::map::HeaderMap<T>::append", "HeaderMap::append", "::append", "http::header::map::HeaderMap<T>::try_append", "::try_append")
                    ins = p.calls("http::header::map::HeaderMap<T>::insert", "::insert")
                    ok = len(ap) == 1 and not ins and all("<Header>.0" in pa.vfmt(a) and "parse@" in pa.vfmt(a) for a in ap[0][3][1:3]) and \
                        pa.vfmt(ap[0][3][1]).endswith(".0") and pa.vfmt(ap[0][3][2]).endswith(".1")
                    ctx.check(ok, "C01-f", tf.key, "received regular field is appended with its own (name, value)",
                              "a regular field is stored through %s(%s): `insert` (or anything but one `append` / `try_append` of the parsed pair) drops or reorders "
                              "the values of a repeated name" % ([e[2].cname for e in ap + ins], [pa.vfmt(a)[-30:] for e in ap + ins for a in e[3][1:3]]), "", None, p.describe())
                    continue
                st = [(pa.vfmt(e[4]), pa.vfmt(e[3])) for e in p.stores() if not pa.vfmt(e[4]).endswith(".len")]
                ok = len(st) == 1 and st[0][1].startswith("Some(") and ("<%s>.0" % var) in st[0][1] and "parse@" in st[0][1]
                if ok:
                    variant2slot[var] = st[0][0].rsplit(".", 1)[-1]
                ctx.check(ok, "C01-f", tf.key, "Field::%s is stored (its own payload) in one pseudo slot" % var, "Field::%s leads to stores %s" % (var, st), "", None, p.describe())
        ctx.floor("C01-f", "regular-field iterations of Header::try_from", n_hdr, 1)
    if it and fp and tf:
        for name, slot in sorted(SLOTS.items()):
            got = variant2slot.get(name2variant.get(name))
            ctx.check(sender.get(name) == {slot} and got == slot, "C01-f", "h3::proto::headers", "writer and reader agree on %s" % name,
                      "%s is written from slot %s but read into slot %s (Field::%s): the value arrives in a different part of the message than it was "
                      "sent from" % (name, sorted(sender.get(name, [])), got, name2variant.get(name)), "%s -> Field::%s -> %s" % (name, name2variant.get(name), got))
    # ------------------------------------------------------------------ http types built from the slots
    rp = ru.need(ctx, "C01-f", H + "Header::into_response_parts")
    if rp:
        okp = [p for p in ru.all_paths(ctx, "C01-f", rp) if p.end == "return" and p.ret_shape().startswith("Ok(")]
        ctx.check(len(okp) >= 1 and all(re.match(r"Ok\(tuple\(okval\(ok_or(_else)?@bb\d+\(param_1\.pseudo\.status, .*\)\), param_1\.fields\)\)$", pa.vfmt(p.ret)) or
                                        re.match(r"Ok\(tuple\(param_1\.pseudo\.status<Some>\.0, param_1\.fields\)\)$", pa.vfmt(p.ret)) for p in okp),
                  "C01-f", rp.key, "response = (the :status slot, the field map unchanged)", "into_response_parts returns %s" % [pa.vfmt(p.ret)[:120] for p in okp], "")
    rq = ru.need(ctx, "C01-f", H + "Header::into_request_parts")
    if rq:
        okp = [p for p in ru.all_paths(ctx, "C01-f", rq, max_visits=1) if p.end == "return" and p.ret_shape().startswith("Ok(")]
        ctx.floor("C01-f", "Ok paths of into_request_parts", len(okp), 4)
        for p in okp:
            r = p.ret[3][0] if p.ret[0] == "agg" else None
            parts = [pa.vfmt(x) for x in r[3]] if r is not None and r[0] == "agg" and len(r[3]) == 4 else []
            ok = len(parts) == 4 and "param_1.pseudo.method" in parts[0] and "build@" in parts[1] and parts[2] == "param_1.pseudo.protocol" and parts[3] == "param_1.fields" \
                and not expr.mentions(r[3][0], lambda v: v[0] == "const" and isinstance(v[1], str) and "Method" in v[1])
            want = {"path_and_query": "param_1.pseudo.path<Some>.0", "scheme": "param_1.pseudo.scheme<Some>.0"}
            for e in p.calls("http::uri::builder::Builder::path_and_query", "http::uri::builder::Builder::scheme", "http::uri::builder::Builder::authority"):
                src = pa.vfmt(e[3][1])
                if e[2].cname in want:
                    ok = ok and want[e[2].cname] in src
                else:
                    ok = ok and ("param_1.pseudo.authority<Some>.0" in src or 'get@' in src and '"host"' in src)
            for slot, call in (("path", "path_and_query"), ("scheme", "scheme")):
                tested = [t[2] for t in p.tests if t[1] == "discr(param_1.pseudo.%s)" % slot]
                ok = ok and (tested[:1] != ["Some"] or bool(p.calls("http::uri::builder::Builder::" + call)))
            ctx.check(ok, "C01-f", rq.key, "request = (:method slot, URI built from the :path/:scheme/:authority|Host slots, :protocol slot, field map unchanged)",
                      "into_request_parts returns %s with URI parts %s" % (parts, [(e[2].cname, pa.vfmt(e[3][1])[:60]) for e in p.calls("Builder::path_and_query", "Builder::scheme", "Builder::authority")]),
                      "", None, p.describe())
    for k, n_ in ((H + "Header::request", 3), (H + "Header::response", 2), (H + "Header::trailer", 1)):
        b = ru.need(ctx, "C01-f", k)
        if b:
            ags = ru.aggregates(b, H + "Header")
            f = fl.Flow(b, prog)
            ok = len(ags) >= 1 and all(f.origin(ru.field_op(s_, "fields")) == ("param", n_, ()) for _, s_ in ags)
            ctx.check(ok, "C01-f", k, "the caller's field map is taken as it is", "%s stores %s as fields" % (k, [fl.fmt(f.origin(ru.field_op(s_, "fields"))) for _, s_ in ags]), "")
    # ------------------------------------------------------------------ clauses shared with other properties
    _c02.run(Proxy(ctx, ("C02-",), "C01-s"))
    _c03.run(Proxy(ctx, ("C03-body", "C03-eob", "C03-trl", "C03-split"), "C01-q"))
    _c12.run(Proxy(ctx, ("C12-a", "C12-d"), "C01-v"))
    _c10.run(Proxy(ctx, ("C10-a", "C10-b"), "C01-v"))       # sender and receiver account for and compare the section size alike
    if "h3_quinn" in prog.crates:        # (anchored in the adapter / extension crates: not part of the feature-less h3-only configuration)
        _c14.run(Proxy(ctx, ("C14-a", "C14-b", "C14-e"), "C01-w", exclude=("h3_datagram",)))     # datagrams are not messages
        _c17.run(Proxy(ctx, ("C17-a", "C17-b"), "C01-t"))
    from rules import C06 as _c06, C11 as _c11, C15 as _c15
    # a body or field section that is buffered but never handed over is not delivered: the Pending-implies-registered rule on the
    # functions a message passes through; and the field-section codec clauses on the encoder side (what is written is what was given)
    _c06.run(Proxy(ctx, ("C06-b",), "C01-s", only=("h3::frame::", "h3::stream::", "h3::connection::RequestStream", "h3::client::stream", "h3::server::stream", "h3_quinn::")))
    _c11.run(Proxy(ctx, ("C11-f", "C11-a"), "C01-v"))       # .. and the static table both sides index into (RFC 9204 Appendix A)
    _c15.run(Proxy(ctx, ("C15-c",), "C01-v"))
