"""C19 WebTransport streams stay attached to their session, bytes intact (structural clauses)."""
from engine import flow as fl, ru, paths as pa
from engine.mir import Place
from rules import shared

EXPLANATION = (
    "Static def-use / path / forwarder analysis over the MIR of h3 and h3-webtransport: (a) every conversion between "
    "the CONNECT stream id and the session id is a pure re-wrap of the same u64 (From<StreamId> for SessionId and its "
    "inverse, from_varint, decode, encode), the session's id is derived from the CONNECT stream's send_id(), stream "
    "headers carry the id given to open_bi/open_uni, incoming ids come from the header varint; (b) header writers "
    "emit the stream/frame type constant then the id and the constants equal the readers' (0x41, 0x54); (c) the "
    "buffered bytes behind a header survive: FrameStream::into_inner/split and BufRecvStream::split move the buffer "
    "and decoder state to the receive side and the h3-webtransport stream types are pure forwarders; (d) the "
    "WebTransportUni arm of the uni-stream acceptor is guarded by the local enable_webtransport setting. "
    "Decides these clauses, not byte-level delivery."
    " C19-b also requires OpenBi/OpenUni to hand out the stream only on a path whose last has_remaining() test of the header buffer was false; C19-c requires both AsyncRead impls of BufRecvStream to poll the transport only with an empty buffer, to report end of stream only then, and to copy out the very chunk they took.")
RULES = "C19-a id conversions/flows (A4); C19-b header tables, a short-read session id propagated with `?`, stream handed out only after the header is written in full (A11/A2); C19-c buffer survives split/into_inner/wrappers, push_bytes stores the whole transport buffer (shared), unframed readers deliver buffered bytes before end of stream (A4/A13/A3); C19-d gating (A3); shared through a proxy: C16-a under C19-b; C04-e/C04-f (poll_next_varint) under C19-b; C17-b (poll_send) under C19-a; C02-b (UnexpectedEnd conversion) under C19-b"

SID = "h3::webtransport::session_id::SessionId"
STREAMID = "h3::proto::stream::StreamId"
WT = "h3_webtransport::server::"


def run(ctx):
    prog = ctx.prog

    # ------------------------------------------------------------ C19-a conversions are pure re-wraps
    for key, adt in (
        ("<%s as core::convert::From<%s>>::from" % (SID, STREAMID), SID),
        ("<%s as core::convert::From<%s>>::from" % (STREAMID, SID), STREAMID),
        (SID + "::from_varint", SID),
    ):
        b = ru.need(ctx, "C19-a", key)
        if b:
            o = ru.ret(prog, b)
            ctx.check(fl.is_rewrap(o, adt), "C19-a", key, "pure re-wrap of the same integer",
                      "conversion returns %s; expected a re-wrap of the argument's inner u64 with no arithmetic "
                      "(session id must equal the CONNECT stream id)" % fl.fmt(o), fl.fmt(o), b.loc())
    b = ru.need(ctx, "C19-a", SID + "::into_inner")
    if b:
        o = ru.ret(prog, b)
        ctx.check(o == ("param", 1, ("0",)), "C19-a", b.key, "into_inner returns the inner integer",
                  "into_inner returns %s" % fl.fmt(o), fl.fmt(o), b.loc())
    # wire codec of the id: decode = Self(VarInt::decode(buf)?.into_inner()), encode = VarInt::from_u64(self.0).encode
    b = ru.need(ctx, "C19-a", "<%s as h3::proto::coding::Decode>::decode" % SID)
    if b:
        f = fl.Flow(b, prog)
        aggs = ru.aggregates(b, SID)
        ctx.floor("C19-a", "SessionId constructions in decode", len(aggs), 1)
        for bb, s in aggs:
            o = fl.inline(prog, f.origin(s.rv.ops[0]))
            ok = ru.o_has_call(o, "h3::proto::varint::VarInt::decode") and not fl.has_arith(o)
            ctx.check(ok, "C19-a", b.key, "id = decoded varint unchanged",
                      "decoded session id is %s, expected the decoded varint unchanged" % fl.fmt(o), fl.fmt(o), b.loc(s))
    b = ru.need(ctx, "C19-a", "<%s as h3::proto::coding::Encode>::encode" % SID)
    if b:
        f = fl.Flow(b, prog)
        cs = ru.calls(b, "h3::proto::varint::VarInt::from_u64")
        ctx.floor("C19-a", "VarInt::from_u64 in SessionId::encode", len(cs), 1)
        for bb, t in cs:
            o = f.origin(t.args[0])
            ctx.check(o == ("param", 1, ("0",)), "C19-a", b.key, "encodes its own integer",
                      "SessionId::encode writes %s, expected self.0" % fl.fmt(o), fl.fmt(o), b.loc(t))
    # the session's id comes from the CONNECT stream
    b = ru.need(ctx, "C19-a", WT + "WebTransportSession::accept::{closure#0}")
    if b:
        f = fl.Flow(b, prog)
        aggs = ru.aggregates(b, WT + "WebTransportSession")
        ctx.floor("C19-a", "WebTransportSession constructions in accept", len(aggs), 1)
        for bb, s in aggs:
            o = fl.inline(prog, f.origin(ru.field_op(s, "session_id")))
            cs = ru.strip_unwrap(o)
            ok = (fl.is_rewrap(("agg", cs[1], cs[2]) if cs[0] == "agg" else cs, SID) is False)  # placeholder, refined below
            ok = (cs[0] == "agg" and cs[1].startswith(SID) and len(cs[2]) == 1
                  and ru.o_has_call(cs[2][0], "SendStream::send_id") and not fl.has_arith(cs[2][0])
                  and any(p[0] == 1 and p[1][:1] == ("1",) for p in fl.params_in(cs[2][0])))
            ctx.check(ok, "C19-a", b.key, "session_id = CONNECT stream's send_id()",
                      "session_id is %s; expected SessionId(send_id of the CONNECT request stream) unchanged" % fl.fmt(o),
                      fl.fmt(o), b.loc(s))
            c = f.origin(ru.field_op(s, "connect_stream"))
            ctx.check(c[0] == "param" and c[2][:1] == ("1",), "C19-a", b.key, "connect_stream = the CONNECT stream",
                      "connect_stream is %s" % fl.fmt(c), fl.fmt(c), b.loc(s))
    # ids handed to open_bi / open_uni reach the header
    for fn, fut, hdr, var in (("open_bi", "OpenBi", "BidiStreamHeader", "WebTransportBidi"),
                              ("open_uni", "OpenUni", "UniStreamHeader", "WebTransportUni")):
        b = ru.need(ctx, "C19-a", WT + "WebTransportSession::" + fn)
        if b:
            f = fl.Flow(b, prog)
            aggs = ru.aggregates(b, WT + fut)
            ctx.floor("C19-a", "%s constructions in %s" % (fut, fn), len(aggs), 1)
            for bb, s in aggs:
                o = f.origin(ru.field_op(s, "session_id"))
                ctx.check(o == ("param", 2, ()), "C19-a", b.key, "future.session_id = caller's session id",
                          "%s.session_id is %s, expected the session_id argument" % (fut, fl.fmt(o)), fl.fmt(o), b.loc(s))
        p = ru.need(ctx, "C19-a", "<%s%s as core::future::future::Future>::poll" % (WT, fut))
        if p:
            f = fl.Flow(p, prog)
            cs = list(p.calls_re(r"WriteBuf as core::convert::From<h3::stream::%s>>::from$" % hdr))
            ctx.floor("C19-a", "stream header constructions in %s::poll" % fut, len(cs), 1)
            for bb, t in cs:
                o = f.origin(t.args[0])
                ok = (o[0] == "agg" and o[1] == "h3::stream::%s::%s" % (hdr, var) and len(o[2]) == 1
                      and o[2][0][0] == "param" and o[2][0][1] == 1 and o[2][0][2][-1:] == ("session_id",))
                ctx.check(ok, "C19-a", p.key, "header = %s(self.session_id)" % var,
                          "the stream header written is %s, expected %s::%s(self.session_id)" % (fl.fmt(o), hdr, var),
                          fl.fmt(o), p.loc(t))
    # a stream is handed to the caller only once its header was written in full
    for fut in ("OpenBi", "OpenUni"):
        p_ = prog.one("<%s%s as core::future::future::Future>::poll" % (WT, fut))
        if not p_:
            continue
        rp = [p for p in ru.all_paths(ctx, "C19-b", p_, max_visits=2) if p.end == "return" and p.ret_shape().startswith("Ready(Ok(")]
        ctx.floor("C19-b", "paths of %s::poll returning the stream" % fut, len(rp), 1)
        for p in rp:
            hr = [t for t in p.tests if t[3][0] == "call" and pa.short(t[3][1]) == "has_remaining"]
            ctx.check(bool(hr) and hr[-1][2] == "false", "C19-b", p_.key, "stream returned only after the header buffer is drained",
                      "%s::poll returns the stream on a path whose last has_remaining() test of the header buffer was not false: the caller's "
                      "first bytes could precede (part of) the WebTransport stream header" % fut, "", None, p.describe())
    # incoming bidi stream: id from the frame; incoming uni: id from the header varint
    b = ru.need(ctx, "C19-a", WT + "WebTransportSession::accept_bi::{closure#0}")
    if b:
        f = fl.Flow(b, prog)
        aggs = ru.aggregates(b, WT + "AcceptedBi", "BidiStream")
        ctx.floor("C19-a", "AcceptedBi::BidiStream constructions", len(aggs), 1)
        for bb, s in aggs:
            o = f.origin(s.rv.ops[0])
            ok = o[0] in ("proj", "param") and "WebTransportStream" in o[-1] and not fl.has_arith(o)
            ctx.check(ok, "C19-a", b.key, "incoming bidi session id = WebTransportStream frame payload",
                      "session id attached to the stream is %s, expected the id carried by the WEBTRANSPORT_STREAM frame"
                      % fl.fmt(o), fl.fmt(o), b.loc(s))
            st = fl.inline(prog, f.origin(s.rv.ops[1]), depth=1)
            ok = ru.o_has_call(st, "h3::frame::FrameStream::into_inner") or (
                st[0] == "agg" and any(n[0] == "param" or n[0] == "proj" for n in fl.walk(st)))
            ctx.check(ru.o_has_call(f.origin(s.rv.ops[1]), "h3::frame::FrameStream::into_inner"), "C19-c", b.key,
                      "bidi stream built from FrameStream::into_inner",
                      "the WebTransport stream is built from %s, expected BidiStream::new(frame_stream.into_inner()) so "
                      "that bytes buffered behind the header are kept" % fl.fmt(f.origin(s.rv.ops[1])), "", b.loc(s))
    b = ru.need(ctx, "C19-a", "h3::stream::AcceptRecvStream::into_stream")
    if b:
        f = fl.Flow(b, prog)
        aggs = ru.aggregates(b, "h3::stream::AcceptedRecvStream", "WebTransportUni")
        ctx.floor("C19-a", "AcceptedRecvStream::WebTransportUni constructions", len(aggs), 1)
        for bb, s in aggs:
            o = ru.strip_unwrap(fl.inline(prog, f.origin(s.rv.ops[0])))
            ok = o[0] == "agg" and o[1].startswith(SID) and len(o[2]) == 1
            inner = o[2][0] if ok else o
            ok = ok and inner[0] == "param" and inner[1] == 1 and inner[2][:1] == ("id",) and not fl.has_arith(inner)
            ctx.check(ok, "C19-a", b.key, "incoming uni session id = second header varint",
                      "session id of an incoming uni stream is %s, expected SessionId::from_varint(self.id)" % fl.fmt(o),
                      fl.fmt(o), b.loc(s))
            st = f.origin(s.rv.ops[1])
            ctx.check(st[0] == "param" and st[2][-1:] == ("stream",), "C19-c", b.key,
                      "uni stream handed over with its buffer",
                      "the stream handed over is %s, expected self.stream (the buffered reader itself)" % fl.fmt(st), "", b.loc(s))

    # ------------------------------------------------------------ C19-b header tables
    consts = {
        "h3::proto::stream::StreamType::WEBTRANSPORT_UNI": 0x54,
        "h3::proto::stream::StreamType::WEBTRANSPORT_BIDI": 0x41,
        "h3::proto::frame::FrameType::WEBTRANSPORT_BI_STREAM": 0x41,
    }
    for k, v in consts.items():
        got = prog.const(k)
        if got is None:
            ctx.missing("C19-b", k)
        else:
            ctx.check(got == v, "C19-b", k, "constant value", "%s = %#x, expected %#x (draft-ietf-webtrans-http3)" % (k, got, v),
                      "%#x" % v)
    for hdr, var, tconst in (("UniStreamHeader", "WebTransportUni", "WEBTRANSPORT_UNI"),
                             ("BidiStreamHeader", "WebTransportBidi", "WEBTRANSPORT_BIDI")):
        b = ru.need(ctx, "C19-b", "<h3::stream::%s as h3::proto::coding::Encode>::encode" % hdr)
        if not b:
            continue
        single = len(prog.adts.get("h3::stream::" + hdr, {}).get("variants", [])) == 1
        ps = [p for p in ru.all_paths(ctx, "C19-b", b) if p.end == "return" and (single or p.tested("param_1", var))]
        ctx.floor("C19-b", "%s::%s encode paths" % (hdr, var), len(ps), 1)
        for p in ps:
            seq = []
            for e in p.calls():
                t, argv = e[2], e[3]
                if t.cname == "encode":
                    seq.append((t.ckey, pa.vfmt(argv[0])))
            want0 = ("<h3::proto::stream::StreamType as h3::proto::coding::Encode>::encode",
                     "h3::proto::stream::StreamType::" + tconst)
            ok = (len(seq) == 2 and seq[0] == want0 and seq[1][0] == "<%s as h3::proto::coding::Encode>::encode" % SID
                  and (var in seq[1][1] or single) and seq[1][1].startswith("param_1"))
            ctx.check(ok, "C19-b", b.key, "%s writes type %s then the session id" % (var, tconst),
                      "the %s header is written as %s; expected StreamType::%s followed by the session id field"
                      % (var, seq, tconst), str(seq), None, p.describe())
    # reader side: type 0x54 -> WebTransportUni ; frame 0x41 -> WebTransportStream(SessionId::decode)
    b = prog.one("h3::stream::AcceptRecvStream::into_stream")
    if b:
        ps = [p for p in ru.all_paths(ctx, "C19-b", b) if p.end == "return"]
        hit = [p for p in ps if p.ret_shape().startswith("AcceptedRecvStream::WebTransportUni")]
        ctx.floor("C19-b", "into_stream paths producing WebTransportUni", len(hit), 1)
        for p in hit:
            ok = any("StreamType::WEBTRANSPORT_UNI" in t[1] or "84" == t[2] for t in p.tests)
            # the switch is on the type's integer: label 84 (0x54) or a comparison with the named constant
            lab = [t for t in p.tests if t[2] in ("84",) or "WEBTRANSPORT_UNI" in t[1]]
            ctx.check(bool(lab), "C19-b", b.key, "type 0x54 selects WebTransportUni",
                      "the WebTransportUni result is not selected by stream type 0x54 (tests on the path: %s)"
                      % [(t[1][:60], t[2]) for t in p.tests], str([(t[1][:40], t[2]) for t in lab]), None, p.describe())
    b = ru.need(ctx, "C19-b", "h3::proto::frame::Frame::decode")
    if b:
        ps = [p for p in ru.all_paths(ctx, "C19-b", b) if p.end == "return"
              and p.ret_shape() == "Ok(Frame::WebTransportStream)"]
        ctx.floor("C19-b", "Frame::decode paths producing WebTransportStream", len(ps), 1)
        for p in ps:
            ok = p.has_call("<%s as h3::proto::coding::Decode>::decode" % SID) and any(
                "FrameType::WEBTRANSPORT_BI_STREAM" in pa.vfmt(e[3][1]) for e in p.calls("PartialEq", "::eq") if len(e[3]) > 1)
            ctx.check(ok, "C19-b", b.key, "frame type 0x41 -> WebTransportStream(SessionId::decode)",
                      "Frame::WebTransportStream is not produced by `ty == WEBTRANSPORT_BI_STREAM` + SessionId::decode",
                      "", None, p.describe())

        # a session id that is not buffered in full yet means `need more bytes`, with the count the varint decoder itself reports (through
        # the UnexpectedEnd conversion, C02-b): the error of SessionId::decode is propagated by `?`, not replaced
        ep = [p for p in ru.all_paths(ctx, "C19-b", b) if p.end == "return" and p.has_call("<%s as h3::proto::coding::Decode>::decode" % SID)
              and p.outcomes("<%s as h3::proto::coding::Decode>::decode" % SID)[-1:] == ["Err"]]
        ctx.floor("C19-b", "Frame::decode paths on which the session id could not be read", len(ep), 1)
        for p in ep:
            ctx.check(p.ret_shape() == "Residual(call:decode)", "C19-b", b.key, "a short-read session id is propagated as the decoder's own UnexpectedEnd",
                      "when the session id behind the 0x41 signal is not complete Frame::decode answers %s instead of propagating the varint decoder's "
                      "error: the number of bytes asked for is wrong and a header split over two chunks is never recognised (or the read stalls)"
                      % p.ret_shape(), "", None, p.describe())

    # ------------------------------------------------------------ C19-c bytes behind the header survive
    shared.bufrecv_poll_data(ctx, "C19-c")
    shared.push_bytes_takes_everything(ctx, "C19-c")
    # the unframed readers hand out what is buffered before they report anything else
    ars = prog.find(r"^<h3::stream::BufRecvStream as (futures_io|tokio)::.*AsyncRead>::poll_read$")
    ctx.floor("C19-c", "AsyncRead impls of BufRecvStream", len(ars), 2)
    for b in ars:
        ps = [p for p in ru.all_paths(ctx, "C19-c", b, max_visits=1) if p.end == "return"]
        n_ok = 0
        for p in ps:
            hr = [t[2] for t in p.tests if t[3][0] == "call" and pa.short(t[3][1]) == "has_remaining"]
            took = [lab for _, lab, _ in p.variant_tests("take_chunk")]
            polled = p.has_call("h3::stream::BufRecvStream::poll_read")
            if polled:
                ctx.check(hr[:1] == ["false"], "C19-c", b.key, "transport polled only when nothing is buffered",
                          "the reader polls the transport on a path where has_remaining() was %s: with bytes already buffered (e.g. the "
                          "payload that arrived together with the stream header) it may suspend without delivering them" % hr, "", None, p.describe())
            if not p.ret_shape().startswith("Ready(Ok"):
                continue
            n_ok += 1
            if not took:
                ctx.check(hr[:1] == ["false"] and polled, "C19-c", b.key, "end of stream reported only with an empty buffer",
                          "the reader returns %s without taking a chunk on a path where has_remaining() was %s and the transport was %spolled: "
                          "buffered payload (behind a stream header, or followed by FIN) would be dropped" % (p.ret_shape(), hr, "" if polled else "not "),
                          "", None, p.describe())
            elif took[-1] == "Some":
                cp = p.calls("copy_from_slice", "put_slice")
                ok = len(cp) == 1 and any("take_chunk" in pa.vfmt(a) for a in cp[0][3][1:])
                ctx.check(ok, "C19-c", b.key, "the taken chunk is what is copied out",
                          "a chunk is taken from the buffer but %s" % ("not copied to the caller" if not cp else "something else is copied: %s" % pa.vfmt(cp[0][3][-1])[:80]),
                          "", None, p.describe())
        ctx.floor("C19-c", "Ready(Ok) paths of %s" % b.key, n_ok, 4)
    b = ru.need(ctx, "C19-c", "h3::frame::FrameStream::into_inner")
    if b:
        o = ru.ret(prog, b)
        ctx.check(o == ("param", 1, ("stream",)), "C19-c", b.key, "returns the buffered stream itself",
                  "into_inner returns %s, expected self.stream (with its buffer)" % fl.fmt(o), fl.fmt(o), b.loc())
    b = ru.need(ctx, "C19-c", "<h3::stream::BufRecvStream as h3::quic::BidiStream<B>>::split")
    if b:
        f = fl.Flow(b, prog)
        aggs = ru.aggregates(b, "h3::stream::BufRecvStream")
        ctx.floor("C19-c", "BufRecvStream halves built in split", len(aggs), 2)
        recv = [s for bb, s in aggs if "split" in fl.fmt(f.origin(ru.field_op(s, "stream"))) and
                f.origin(ru.field_op(s, "stream"))[-1][-1:] == ("1",)]
        ctx.check(len(recv) == 1, "C19-c", b.key, "one receive half", "could not identify the receive half of split()", "")
        for s in recv:
            o = f.origin(ru.field_op(s, "buf"))
            ctx.check(o == ("param", 1, ("buf",)), "C19-c", b.key, "receive half keeps the buffered bytes",
                      "the receive half's buffer is %s, expected self.buf" % fl.fmt(o), fl.fmt(o), b.loc(s))
            o = f.origin(ru.field_op(s, "eos"))
            ctx.check(o == ("param", 1, ("eos",)), "C19-c", b.key, "receive half keeps the end-of-stream flag",
                      "the receive half's eos is %s, expected self.eos" % fl.fmt(o), fl.fmt(o), b.loc(s))
    b = ru.need(ctx, "C19-c", "h3::frame::FrameStream::split")
    if b:
        f = fl.Flow(b, prog)
        aggs = ru.aggregates(b, "h3::frame::FrameStream")
        ctx.floor("C19-c", "FrameStream halves built in split", len(aggs), 2)
        recv = [s for bb, s in aggs if f.origin(ru.field_op(s, "stream"))[-1][-1:] == ("1",)]
        ctx.check(len(recv) == 1, "C19-c", b.key, "one receive half", "could not identify the receive half of split()", "")
        for s in recv:
            for fld in ("decoder", "remaining_data"):
                o = f.origin(ru.field_op(s, fld))
                ctx.check(o == ("param", 1, (fld,)), "C19-c", b.key, "receive half keeps %s" % fld,
                          "the receive half's %s is %s, expected self.%s (the frame reader's position in the stream)"
                          % (fld, fl.fmt(o), fld), fl.fmt(o), b.loc(s))
    # constructors and forwarders of the h3-webtransport stream types
    for k in ("RecvStream", "SendStream", "BidiStream"):
        b = ru.need(ctx, "C19-c", "h3_webtransport::stream::%s::new" % k)
        if b:
            o = ru.ret(prog, b)
            ctx.check(fl.is_rewrap(o), "C19-c", b.key, "constructor wraps the stream unchanged",
                      "%s::new returns %s" % (k, fl.fmt(o)), fl.fmt(o), b.loc())
    fw = [b for b in prog.find(r"^<h3_webtransport::stream::(RecvStream|SendStream|BidiStream) as ")
          if "{" not in b.key and b.name not in ("fmt", "split")]
    ctx.floor("C19-c", "h3-webtransport stream trait methods", len(fw), 34)
    for b in fw:
        ok, why = ru.forwarder(prog, b)
        ctx.check(ok, "C19-c", b.key, "pure forwarder", "not a pure forwarder to the wrapped stream: %s" % why, why, b.loc())
    b = ru.need(ctx, "C19-c", "<h3_webtransport::stream::BidiStream as h3::quic::BidiStream<B>>::split")
    if b:
        f = fl.Flow(b, prog)
        o = f.origin(Place({"l": 0}))
        txt = fl.fmt(o)
        ok = (o[0] == "agg" and len(o[2]) == 2 and ru.o_has_call(o[2][0], "h3_webtransport::stream::SendStream::new")
              and ru.o_has_call(o[2][1], "h3_webtransport::stream::RecvStream::new")
              and ru.o_has_call(o, "<h3::stream::BufRecvStream as h3::quic::BidiStream<B>>::split"))
        ctx.check(ok, "C19-c", b.key, "split = (SendStream::new(send), RecvStream::new(recv)) of the inner split",
                  "split returns %s" % txt, txt[:200], b.loc())
    # accept_uni hands out the stored (id, stream) pair
    b = ru.need(ctx, "C19-c", "<%sAcceptUni as core::future::future::Future>::poll" % WT)
    if b:
        f = fl.Flow(b, prog)
        pops = ru.calls(b, "alloc::vec::Vec::pop")
        ctx.floor("C19-c", "wt_uni_streams.pop() in AcceptUni::poll", len(pops), 1)
        for bb, t in pops:
            o = f.origin(t.args[0])
            ctx.check("wt_uni_streams" in fl.fmt(o), "C19-c", b.key, "pops from wt_uni_streams",
                      "pops from %s" % fl.fmt(o), fl.fmt(o), b.loc(t))

    # ------------------------------------------------------------ C19-d gating
    b = ru.need(ctx, "C19-d", "h3::connection::ConnectionInner::poll_accept_recv")
    if b:
        ex = pa.Explorer(prog, b, max_visits=1)
        n = 0
        for bb, t in b.calls("AcceptRecvStream::into_stream"):
            ps = ex.paths(start=t.target, stop_at=b.loop_heads())
            for p in ps:
                pushes = [e for e in p.calls("alloc::vec::Vec::push") if "wt_uni_streams" in pa.vfmt(e[3][0])]
                if not pushes:
                    continue
                n += 1
                guard = p.tested("param_1.config.settings.enable_webtransport", "true")
                var = p.tested("into_stream", "WebTransportUni") or [x for x in p.tests if x[2] == "WebTransportUni"]
                ctx.check(bool(guard) and bool(var), "C19-d", b.key, "WebTransportUni stored only when enabled",
                          "a path stores an incoming stream in wt_uni_streams without testing "
                          "config.settings.enable_webtransport == true (tests: %s)" % [(x[1][:50], x[2]) for x in p.tests],
                          "guarded by enable_webtransport", None, p.describe())
                for e in pushes:
                    v = pa.vfmt(e[3][1])
                    ctx.check("WebTransportUni" in v, "C19-d", b.key, "stores the (id, stream) of the accepted stream",
                              "pushes %s" % v, v[:120])
        ctx.floor("C19-d", "paths storing WebTransport uni streams", n, 1)
    ctx.assume("quic trait implementations deliver the bytes they are given (C17 covers the Quinn adapter)")
    # session ids and WebTransport stream headers are varints: the varint codec tables (C16-a) run under this property too
    if not getattr(ctx, "nested", False):
        from rules import C16 as _c16p, shared as _shp
        _c16p.run(_shp.Proxy(ctx, ("C16-a",), "C19-b"))
        # the stream type and session id of a uni stream are read by poll_next_varint: complete-before-decode over ALL buffered chunks (C04-f)
        from rules import C04 as _c04p
        _c04p.run(_shp.Proxy(ctx, ("C04-f", "C04-e"), "C19-b", only=("poll_next_varint",)))
        # the header of every stream the server opens is written through the adapter's unframed write: what it reports as written is
        # what it took from the buffer (C17-b, poll_send), or a partial write drops or repeats part of the session id
        # the session id behind the WebTransport signal may be split over two chunks: `need more bytes`, not an error (C02-b)
        from rules import C02 as _c02p
        _c02p.run(_shp.Proxy(ctx, ("C02-b",), "C19-b", only=("From<h3::proto::coding::UnexpectedEnd>",)))
        if "h3_quinn" in ctx.prog.crates:
            from rules import C17 as _c17p
            _c17p.run(_shp.Proxy(ctx, ("C17-b",), "C19-a", only=("poll_send",)))
