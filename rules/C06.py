"""C06 No peer behaviour makes h3 panic or leaves a call pending forever (structural clauses)."""
import os
import re
import tomllib
from engine import flow as fl, ru, paths as pa, expr, callgraph, panics, wake

EXPLANATION = (
    "(a) Panic-site audit: every explicit panic construct (Option/Result unwrap/expect, panic!/assert!/unreachable!, "
    "Index::index*, the panicking bytes/slice API, MIR bounds/overflow/division asserts) in the bodies reachable through "
    "the call graph from the public receive-side and setup entry points of the four crates is enumerated; each site is "
    "discharged by a guard from a small vocabulary that precedes it on every explored path (is_some/Some-match on the "
    "same value, remaining()/has_remaining()/!is_empty()/len() tests on the same buffer, constant operands, amount = "
    "remaining() of the same buffer), or matches an entry of the audited table tables/panic_sites.toml (keyed by "
    "function and site kind with a maximum count, a class and a one-line reason), or is reported. (b) No wait without a "
    "wake-up source: in every function receiving a task Context, each path returning a Poll::Pending built there carries "
    "a Context-receiving callee established Pending on that path, a waker registration, or a callee that registers on "
    "every non-error return (one named infeasible path is excepted with its reason). (c) No path on which a "
    "Context-receiving callee answered an error ends in a Pending return. Liveness in general and arithmetic that needs "
    "relational invariants (table classes inv / rb) are not decided beyond the stated reasons.")
RULES = "C06-a panic-site audit (A14/A1/A9/A15 guards + audited table); C06-b Pending implies registered (A7); C06-c errors are not turned into Pending (A3)"

HERE = os.path.dirname(os.path.dirname(os.path.abspath(__file__)))
ENTRY = [r'^h3::server::(connection::Connection|request::RequestResolver|request::ResolvedRequest|stream::RequestStream|builder::Builder)::[a-z_]+$',
         r'^h3::client::(connection::Connection|connection::SendRequest|stream::RequestStream|builder::Builder)::[a-z_]+$',
         r'^h3::client::(builder::)?(new|builder)$', r'^h3::server::(builder::)?builder$',
         r'^h3_datagram::', r'^h3_webtransport::server::', r'^<h3_webtransport::', r'^<h3_quinn::', r'^h3_quinn::Connection::new$',
         r'^<h3::(server|client)::']

A7_EXCEPTIONS = {
    ("h3::frame::FrameStream::poll_data", "try_recv=Ready(Ok(false)) & take_chunk=None"):
        "infeasible: Ready(Ok(false)) means poll_read just pushed a chunk into the buffer list, so take_chunk on it returns Some "
        "(an empty chunk from the transport would still be returned as Some(empty) - transport contract: no empty chunks)",
}


def run(ctx):
    prog = ctx.prog
    cg = callgraph.CallGraph(prog)
    roots = cg.roots(ENTRY)
    reach = cg.reachable(roots)
    ctx.floor("C06-a", "entry points", len(roots), 200)
    ctx.floor("C06-a", "bodies reachable from the entry points", len(reach), 680)
    with open(os.path.join(HERE, "tables", "panic_sites.toml"), "rb") as fh:
        table = tomllib.load(fh)["site"]
    for e in table:
        e["_fn"] = re.compile(e["fn"])
        e["_kind"] = re.compile(e["kind"])
        e["_n"] = 0
    total = auto = tabled = 0
    per_class = {}
    for b in prog.bodies:
        if b.key not in reach or b.name == "fmt":
            continue
        for bb, t, kind, status, detail in panics.audit_body(prog, b):
            total += 1
            what = t.ckey if t.t == "call" else "%s %s" % (t.akind, t.aop or "")
            if status == "discharged":
                auto += 1
                ctx.ok("C06-a", "%s:%s:%s" % (b.key, kind, pa.short(what) if t.t == "call" else what.strip()), "guard: " + detail, b.loc(t))
                continue
            hit = [e for e in table if e["_fn"].search(b.key) and e["_kind"].search(kind)]
            if len(hit) == 1 and hit[0]["_n"] < hit[0]["max"]:
                hit[0]["_n"] += 1
                tabled += 1
                per_class[hit[0]["class"]] = per_class.get(hit[0]["class"], 0) + 1
                ctx.ok("C06-a", "%s:%s:%s" % (b.key, kind, pa.short(what) if t.t == "call" else what.strip()),
                       "audited (%s): %s" % (hit[0]["class"], hit[0]["reason"][:160]), b.loc(t))
                continue
            why = ("matches %d table entries" % len(hit)) if len(hit) != 1 else \
                "exceeds the %d sites audited for `%s` / `%s`" % (hit[0]["max"], hit[0]["fn"][:50], hit[0]["kind"])
            ctx.violation("C06-a", b.key, "%s %s" % (kind, (pa.short(what) if t.t == "call" else what.strip())),
                          "panic site not discharged by a dominating guard and not in the audited table (%s): `%s` in %s can panic for some "
                          "operand values; on a receive path this lets the peer crash the endpoint (status on the explored paths: %s)"
                          % ("no entry" if not hit else why, what, b.key, status if status != "open" else "no recognised guard on some path"), b.loc(t))
    ctx.floor("C06-a", "panic sites enumerated", total, 280)
    ctx.ok("C06-a", "summary", "%d sites: %d guard-discharged, %d audited %s" % (total, auto, tabled, per_class))
    # a guard that disappears re-opens a site: today's guard-discharged count is a floor
    ctx.floor("C06-a", "guard-discharged sites", auto, 28)
    # the dead-under-specialisation entries rely on literal zero arguments at the only reachable callers
    for key, nargs in (("h3::qpack::block::HeaderPrefix::get", (2, 3)), ("h3::qpack::block::HeaderPrefix::new", (1, 2, 3, 4))):
        callers = [(b, t) for b, bb, t in prog.callers_of(key) if b.key in reach and b.key.startswith(("h3::qpack::decoder::decode_stateless", "h3::qpack::encoder::encode_stateless"))]
        allc = [(b.key) for b, bb, t in prog.callers_of(key) if b.key in reach]
        ok = bool(callers) and all(fl.Flow(b, prog).origin(t.args[i - 1 + (1 if key.endswith("get") else 0)]) == ("const", 0) for b, t in callers for i in (nargs[-1:] if key.endswith("new") else (nargs[-1] - 1,)))
        stateless_only = all(k.startswith(("h3::qpack::decoder::decode_stateless", "h3::qpack::encoder::encode_stateless", "h3::qpack::decoder::Decoder", "h3::qpack::encoder::Encoder")) for k in allc)
        ctx.check(ok and stateless_only, "C06-a", key, "reachable callers pass the literal table size 0 (supports the `ds` table entries)",
                  "%s is called from %s with a table-size argument that is not the literal 0: the arithmetic behind its first branch becomes "
                  "peer-reachable" % (key, allc), str(allc))

    # ------------------------------------------------------------------ C06-b
    wa = wake.WakeAnalysis(prog)
    nb = npend = 0
    for b in prog.bodies:
        res = wa.check_body(b)
        if not res:
            continue
        nb += 1
        for p, ev in res:
            npend += 1
            if p is None:
                ctx.violation("C06-b", b.key, "PATH-EXPLOSION", "too many paths to analyse")
                continue
            if ev is not None:
                ctx.ok("C06-b", "%s:Pending via bb%d" % (b.key, p.blocks[-2] if len(p.blocks) > 1 else 0), ev)
                continue
            # named exceptions
            desc = None
            if b.key == "h3::frame::FrameStream::poll_data":
                tr = [t for t in p.tests if pa.head_call(t[3])[0] == "h3::frame::FrameStream::try_recv"]
                tk = [t for t in p.tests if pa.head_call(t[3])[0] and pa.head_call(t[3])[0].endswith("take_chunk")]
                if [t[2] for t in tr][:2] == ["Ready", "Ok"] and tr[-1][2] == "false" and tk and tk[-1][2] == "None":
                    desc = "try_recv=Ready(Ok(false)) & take_chunk=None"
            if desc and (b.key, desc) in A7_EXCEPTIONS:
                ctx.ok("C06-b", "%s:%s" % (b.key, desc), "excepted: " + A7_EXCEPTIONS[(b.key, desc)])
                continue
            ctx.violation("C06-b", b.key, "Pending without a registered wake-up (tests: %s)" % ",".join("%s=%s" % (pa.short(pa.head_call(t[3])[0] or t[1][:20]), t[2]) for t in p.tests[-3:]),
                          "%s returns Poll::Pending on a path that neither saw a Context-receiving callee answer Pending nor registered the waker: "
                          "nothing will wake the task and the call can stay pending for ever" % b.key, None, p.describe())
    ctx.floor("C06-b", "poll functions with Pending returns", nb, 30)
    ctx.floor("C06-b", "Pending-returning paths examined", npend, 80)

    # ------------------------------------------------------------------ C06-c
    nerr = 0
    for b in prog.bodies:
        cxs = wake.cx_params(b)
        if not cxs or b.coroutine:
            continue
        ps = wa.paths(b)
        if ps is None:
            continue
        for p in ps:
            if p.end != "return" or p.ret_shape() != "Pending":
                continue
            cx_calls = {e[1] for e in p.events if e[0] == "call" and wake._cx_arg(e[3], cxs)}
            for t in p.tests:
                if t[3][0] != "discr" or t[2] != "Err":
                    continue
                x = t[3]
                while x[0] in ("discr", "proj", "okval"):
                    x = x[1]
                if x[0] == "call" and x[3] in cx_calls:
                    nerr += 1
                    # the error may be consumed on purpose (recorded and reported elsewhere); audited list
                    if b.key in ("h3::connection::ConnectionInner::poll_grease_stream",):
                        continue
                    ctx.violation("C06-c", b.key, "error of %s swallowed into Pending" % pa.short(x[1]),
                                  "%s returns Pending on a path where %s had answered an error: the failure (end of stream, reset, connection "
                                  "close) is never reported and the caller waits for ever" % (b.key, pa.short(x[1])), None, p.describe())
    ctx.ok("C06-c", "no Context-receiving callee's error ends in a Pending return", "%d candidate paths" % nerr)
    if ctx.tier == "thorough" and "h3_quinn" in prog.crates:
        from engine import clippyx
        clippyx.run(ctx, prog)
    ctx.assume("no single Huffman-coded string literal is >= 2^29 bytes; the QUIC transport never yields an empty chunk")
