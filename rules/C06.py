"""C06 No peer behaviour makes h3 panic or leaves a call pending forever (structural clauses)."""
import os
import re
import tomllib
from engine import flow as fl, ru, paths as pa, expr, callgraph, panics, wake

EXPLANATION = (
    "(a) Panic-site audit: every explicit panic construct (Option/Result unwrap/expect, panic!/assert!/unreachable!, "
    "Index::index*, the panicking bytes/slice API, MIR bounds/overflow/division asserts) in the bodies reachable through "
    "the call graph from the public receive-side and setup entry points of the four crates is enumerated; each site is "
    "discharged by a guard from a small vocabulary that precedes it on every explored path (is_some/Some-match on the "
    "same value, remaining()/has_remaining()/!is_empty()/len() tests on the same buffer, constant operands, amount = "
    "remaining() of the same buffer), or matches an entry of the audited table tables/panic_sites.toml (keyed by "
    "function and site kind with a maximum count, a class and a one-line reason), or is reported. (b) No wait without a "
    "wake-up source: in every function receiving a task Context, each path returning a Poll::Pending built there carries "
    "a Context-receiving callee established Pending on that path, a waker registration, or a callee that registers on "
    "every non-error return (one named infeasible path is excepted with its reason). (c) No path on which a "
    "Context-receiving callee answered an error ends in a Pending return. Liveness in general and arithmetic that needs "
    "relational invariants (table classes inv / rb) are not decided beyond the stated reasons."
    " C06-a also explores HeaderPrefix::get/new with the literal table size every reachable caller passes and demands a guard (constant operands, dominating tests or interval arithmetic over the operand expression) for each site still reached, and checks the sibling agreement behind the audited `expect` of AcceptRecvStream::into_stream: every stream type for which it reads `id` is one for which poll_type answers Ready(Ok) only with `id` set.")
RULES = "C06-a panic-site audit (A14/A1/A9 guards incl. interval arithmetic + audited table; get/new explored with the table size every reachable caller passes; sibling agreement into_stream/poll_type); C06-b Pending implies registered (A7); C06-c errors are not turned into Pending (A3); premise of the audited expects in poll_accept_recv (filter on is_some); premises of the audited chunk-list arithmetic: take_chunk removes an emptied front chunk, Cursor::advance indexes the list only while count > 0; shared through a proxy: C07-b (FrameStream::try_recv) under C06-c"

HERE = os.path.dirname(os.path.dirname(os.path.abspath(__file__)))
ENTRY = [r'^h3::server::(connection::Connection|request::RequestResolver|request::ResolvedRequest|stream::RequestStream|builder::Builder)::[a-z_]+$',
         r'^h3::client::(connection::Connection|connection::SendRequest|stream::RequestStream|builder::Builder)::[a-z_]+$',
         r'^h3::client::(builder::)?(new|builder)$', r'^h3::server::(builder::)?builder$',
         r'^h3_datagram::', r'^h3_webtransport::server::', r'^<h3_webtransport::', r'^<h3_quinn::', r'^h3_quinn::Connection::new$',
         r'^<h3::(server|client)::']

A7_EXCEPTIONS = {
    ("h3::frame::FrameStream::poll_data", "try_recv=Ready(Ok(false)) & take_chunk=None"):
        "infeasible: Ready(Ok(false)) means poll_read just pushed a chunk into the buffer list, so take_chunk on it returns Some "
        "(an empty chunk from the transport would still be returned as Some(empty) - transport contract: no empty chunks)",
}


# functions audited under the argument values that every peer-reachable caller passes (checked below: literal 0 table size)
SPECIALISED = {"h3::qpack::block::HeaderPrefix::get": {3: ("const", 0)}, "h3::qpack::block::HeaderPrefix::new": {4: ("const", 0)}}


def run(ctx):
    prog = ctx.prog
    cg = callgraph.CallGraph(prog)
    roots = cg.roots(ENTRY)
    reach = cg.reachable(roots)
    ctx.floor("C06-a", "entry points", len(roots), 200)
    ctx.floor("C06-a", "bodies reachable from the entry points", len(reach), 680)
    with open(os.path.join(HERE, "tables", "panic_sites.toml"), "rb") as fh:
        table = tomllib.load(fh)["site"]
    for e in table:
        e["_fn"] = re.compile(e["fn"])
        e["_kind"] = re.compile(e["kind"])
        e["_n"] = e["_s"] = 0
    total = auto = tabled = 0
    per_class = {}
    for b in prog.bodies:
        if b.key not in reach or b.name == "fmt":
            continue
        spec = SPECIALISED.get(b.key)
        for bb, t, kind, status, detail, own_slot in panics.audit_body(prog, b, env=spec, with_slots=True):
            total += 1
            what = t.ckey if t.t == "call" else "%s %s" % (t.akind, t.aop or "")
            if spec is not None and status == "open":
                # reached with the argument values every reachable caller passes: the audited-table reason (dead under that
                # specialisation) does not cover it, only a guard can
                ctx.violation("C06-a", b.key, "%s %s" % (kind, (pa.short(what) if t.t == "call" else what.strip())),
                              "`%s` in %s is executed when the function is called the way its only peer-reachable callers call it (literal table "
                              "size 0) and no guard or operand range excludes the panic: a field-section prefix chosen by the peer can crash the "
                              "endpoint (overflow checks are on in debug builds)" % (what, b.key), b.loc(t))
                continue
            if status == "discharged":
                auto += 1
                ctx.ok("C06-a", "%s:%s:%s" % (b.key, kind, pa.short(what) if t.t == "call" else what.strip()), "guard: " + detail, b.loc(t))
                continue
            hit = [e for e in table if e["_fn"].search(b.key) and e["_kind"].search(kind)]
            if len(hit) == 1:
                # (a site that is the alternative of a counted one - same kind and callee, never on the same path - shares its slot)
                hit[0]["_n"] += 1
                hit[0]["_s"] += 1 if own_slot else 0
            if len(hit) == 1 and (hit[0]["_n"] <= hit[0]["max"] or hit[0]["_s"] <= hit[0].get("slots", hit[0]["max"])):
                tabled += 1
                per_class[hit[0]["class"]] = per_class.get(hit[0]["class"], 0) + 1
                ctx.ok("C06-a", "%s:%s:%s" % (b.key, kind, pa.short(what) if t.t == "call" else what.strip()),
                       "audited (%s): %s" % (hit[0]["class"], hit[0]["reason"][:160]), b.loc(t))
                continue
            why = ("matches %d table entries" % len(hit)) if len(hit) != 1 else \
                "exceeds the %d sites (%d on one path) audited for `%s` / `%s`" % (hit[0]["max"], hit[0].get("slots", hit[0]["max"]), hit[0]["fn"][:50], hit[0]["kind"])
            ctx.violation("C06-a", b.key, "%s %s" % (kind, (pa.short(what) if t.t == "call" else what.strip())),
                          "panic site not discharged by a dominating guard and not in the audited table (%s): `%s` in %s can panic for some "
                          "operand values; on a receive path this lets the peer crash the endpoint (status on the explored paths: %s)"
                          % ("no entry" if not hit else why, what, b.key, status if status != "open" else "no recognised guard on some path"), b.loc(t))
    ctx.floor("C06-a", "panic sites enumerated", total, 280)
    ctx.ok("C06-a", "summary", "%d sites: %d guard-discharged, %d audited %s" % (total, auto, tabled, per_class))
    # a guard that disappears re-opens a site: today's guard-discharged count is a floor
    ctx.floor("C06-a", "guard-discharged sites", auto, 34)
    # the dead-under-specialisation entries rely on literal zero arguments at the only reachable callers
    for key, nargs in (("h3::qpack::block::HeaderPrefix::get", (2, 3)), ("h3::qpack::block::HeaderPrefix::new", (1, 2, 3, 4))):
        callers = [(b, t) for b, bb, t in prog.callers_of(key) if b.key in reach and b.key.startswith(("h3::qpack::decoder::decode_stateless", "h3::qpack::encoder::encode_stateless"))]
        allc = [(b.key) for b, bb, t in prog.callers_of(key) if b.key in reach]
        ok = bool(callers) and all(fl.Flow(b, prog).origin(t.args[i - 1 + (1 if key.endswith("get") else 0)]) == ("const", 0) for b, t in callers for i in (nargs[-1:] if key.endswith("new") else (nargs[-1] - 1,)))
        stateless_only = all(k.startswith(("h3::qpack::decoder::decode_stateless", "h3::qpack::encoder::encode_stateless", "h3::qpack::decoder::Decoder", "h3::qpack::encoder::Encoder")) for k in allc)
        ctx.check(ok and stateless_only, "C06-a", key, "reachable callers pass the literal table size 0 (supports the `ds` table entries)",
                  "%s is called from %s with a table-size argument that is not the literal 0: the arithmetic behind its first branch becomes "
                  "peer-reachable" % (key, allc), str(allc))

    # the `ubc` entry for AcceptRecvStream::into_stream relies on its sibling poll_type: every type for which into_stream reads the
    # second varint (`id.expect`) must be a type for which poll_type does not answer Ready(Ok) before `id` is set
    ins = ru.need(ctx, "C06-a", "h3::stream::AcceptRecvStream::into_stream")
    pt = ru.need(ctx, "C06-a", "h3::stream::AcceptRecvStream::poll_type")
    if ins and pt:
        def ty_label(p):
            labs = [t[2] for t in p.tests if t[1].endswith(".0") and ("param_1.ty" in t[1]) and t[3][0] != "discr" and not t[1].startswith("is_")]
            return labs[0] if labs else None
        need = set()
        for p in [p for p in ru.all_paths(ctx, "C06-a", ins, max_visits=1) if p.end == "return"]:
            if len(p.calls("core::option::Option::expect")) >= 2 or any("param_1.id" in pa.vfmt(e[3][0]) for e in p.calls("core::option::Option::expect", "core::option::Option::unwrap")):
                need.add(ty_label(p))
        gets, lacks = set(), set()
        n_ok = 0
        for p in [p for p in ru.all_paths(ctx, "C06-a", pt, max_visits=1) if p.end == "return" and p.ret_shape().startswith("Ready(Ok")]:
            n_ok += 1
            ty_set = any(pa.vfmt(e[4]) == "param_1.ty" and e[3][0] == "agg" and e[3][2] == "Some" for e in p.stores()) or \
                [t[2] for t in p.tests if t[1].startswith("is_none") and "param_1.ty" in t[1]][:1] == ["false"]
            ctx.check(bool(ty_set), "C06-a", pt.key, "Ready(Ok) only with the stream type resolved", "poll_type answers Ready(Ok(())) on a path that neither found nor stored `ty`: into_stream's `ty.expect` would panic", "", None, p.describe())
            id_set = any(pa.vfmt(e[4]) == "param_1.id" and e[3][0] == "agg" and e[3][2] == "Some" for e in p.stores()) or \
                [t[2] for t in p.tests if t[1].startswith("is_none") and "param_1.id" in t[1]][-1:] == ["false"]
            (gets if id_set else lacks).add(ty_label(p))
        ctx.floor("C06-a", "Ready(Ok) paths of poll_type", n_ok, 6)
        ctx.floor("C06-a", "stream types for which into_stream reads the id", len(need), 1)
        bad = sorted(str(x) for x in need if x in lacks or x not in gets)
        ctx.check(not bad and None not in need, "C06-a", ins.key, "id.expect only for types whose second varint poll_type waits for",
                  "into_stream reads `id` (expect) for stream type value(s) %s, but poll_type answers Ready(Ok(())) for them on a path that did not set `id` "
                  "(types completed with id: %s, without: %s): a peer opening a uni stream of that type makes accept()/poll_close() panic"
                  % (bad or sorted(map(str, need)), sorted(map(str, gets)), sorted(map(str, lacks))), "need=%s gets=%s" % (sorted(map(str, need)), sorted(map(str, gets))))

    # the `ubc` entry for the two `expect("this cannot be None")` in poll_accept_recv relies on the loop visiting only filled slots:
    # the iteration over pending_recv_streams goes through `.filter(|s| s.is_some())`
    par = ru.need(ctx, "C06-a", "h3::connection::ConnectionInner::poll_accept_recv")
    if par:
        flt = [t for bb, t in par.all_terms() if t.t == "call" and t.cname == "filter" and "core::iter" in (t.tkey or t.ckey or "")]
        okf = False
        for t in flt:
            for a in t.args[1:]:
                if a.place is not None:
                    for bb2, i2, s2 in par.all_stmts():
                        if s2.s == "assign" and s2.place.is_local() and s2.place.local == a.place.local and s2.rv.rv == "aggregate" and s2.rv.agg == "closure":
                            cb = prog.one(s2.rv.def_)
                            if cb is not None and any(t2.t == "call" and t2.cname == "is_some" for _, t2 in cb.all_terms()):
                                okf = True
        exp_ = [t for bb, t in par.all_terms() if t.t == "call" and t.cname in ("expect", "unwrap") and (t.ckey or "").startswith("core::option::Option")]
        # (when the emptiness test is written into the loop body instead, the guard on the path discharges the sites by itself)
        open_ = [1 for bb, t, kind, status, detail in panics.audit_body(prog, par) if kind in ("expect", "unwrap") and status != "discharged"]
        ctx.check(okf or not open_, "C06-a", par.key, "slots are unwrapped only behind `.filter(|s| s.is_some())`",
                  "poll_accept_recv unwraps the slots of pending_recv_streams (%d expect/unwrap) but no longer iterates through a filter on is_some(): a slot "
                  "emptied earlier (a uni stream that ended or was reset before its type arrived) makes the next poll panic" % len(exp_), "")

    # premises of the audited chunk-list entries (`inv`: indices are valid while remaining() > 0):
    # (1) the receive buffer never keeps an EMPTY chunk at its front: take_chunk, the only place that shortens a chunk, looks at what is
    #     left of the front chunk after cutting it and removes it when nothing is (or cuts strictly less than the chunk holds)
    tk = ru.need(ctx, "C06-a", "h3::buf::BufList::take_chunk")
    if tk:
        ncut = 0
        for p in [p for p in ru.all_paths(ctx, "C06-a", tk, max_visits=1) if p.end == "return"]:
            direct = [i for i, e in enumerate(p.events) if e[0] == "call" and e[2].cname == "split_to"]
            viacl = [ck for ck, st, _ in p.adapter_closures() if st != "no" and any(True for c_ in prog.by_key.get(ck, []) for _ in c_.calls("split_to"))]
            if not direct and not viacl:
                continue
            if any(t[3][0] == "discr" and t[2] == "None" and (pa.head_call(t[3])[0] or "").endswith(("::front", "::front_mut")) for t in p.tests):
                continue        # the list was empty: nothing was cut
            ncut += 1
            start = direct[0] if direct else 0
            after = [p.tests[e[2]] for e in p.events[start:] if e[0] == "test"]
            emp = [t for t in after if (lambda nf: nf is not None and nf[0][0] == "call" and pa.short(nf[0][1]) in ("remaining", "len") and
                                        expr.fold(nf[2], prog.consts) == 0 and nf[1] in ("==", "!=", ">"))(expr.cmp_nf(t[3], t[2]))]
            if emp:
                nf = expr.cmp_nf(emp[-1][3], emp[-1][2])
                ok = (nf[1] != "==") or p.has_call("pop_front")
                why = "finds the front chunk empty after the cut and does not remove it"
            else:
                ok = False
                if direct:
                    e = p.events[direct[0]]
                    amount, buf_ = (e[3] + (None, None))[1], e[3][0]
                    for t in [p.tests[x[2]] for x in p.events[:direct[0]] if x[0] == "test"]:
                        nf = expr.orient(expr.cmp_nf(t[3], t[2]), lambda v: v[0] == "call" and pa.short(v[1]) in ("remaining", "len") and v[2] and v[2][0] == buf_)
                        if nf and nf[1] == ">" and nf[2] == amount:
                            ok = True
                why = "cuts the front chunk without looking at what is left of it"
            ctx.check(ok, "C06-a", tk.key, "an emptied front chunk is removed (premise of the audited chunk-list arithmetic)",
                      "take_chunk %s: a chunk taken in full leaves an empty buffer at the head of the list, and the next poll_next / poll_data "
                      "indexes `chunk()[0]` of it or waits for data that is already there (panic / hang on a DATA payload that ends exactly on a "
                      "chunk boundary)" % why, "", None, p.describe())
        ctx.floor("C06-a", "cutting paths of take_chunk", ncut, 1)
    # (2) the look-ahead cursor indexes the chunk list only while it still has bytes to skip: every `bufs[index]` in Cursor::advance is
    #     preceded, in its own step, by a test that the count is not zero (advance(0) at the very end of the buffered data has no chunk)
    cadv = ru.need(ctx, "C06-a", "<h3::buf::Cursor as bytes::buf::buf_impl::Buf>::advance")
    if cadv:
        nix = 0
        for p in ru.all_paths(ctx, "C06-a", cadv, max_visits=2):
            last = 0
            for i, e in enumerate(p.events):
                if e[0] == "call" and e[2].cname in ("index", "index_mut") and e[3] and "bufs" in pa.vfmt(e[3][0]):
                    nix += 1
                    seg = [p.tests[x[2]] for x in p.events[last:i] if x[0] == "test"]
                    ok = False
                    for t in seg:
                        nf = expr.cmp_nf(t[3], t[2])
                        if nf and nf[1] in (">", "!=") and expr.fold(nf[2], prog.consts) == 0 and expr.mentions(nf[0], lambda v: v == ("param", 2, ())):
                            ok = True
                    ctx.check(ok, "C06-a", cadv.key, "the chunk list is indexed only while the count is not zero (premise of the audited cursor arithmetic)",
                              "Cursor::advance reaches `bufs[index]` in a step that did not establish count > 0: advance(0) when every buffered chunk has "
                              "been passed (a zero-length unknown or reserved frame that ends a chunk) indexes past the end of the list and panics",
                              "", None, p.describe())
                    last = i + 1
        ctx.floor("C06-a", "chunk-list index steps of Cursor::advance", nix, 2)

    # ------------------------------------------------------------------ C06-b
    wa = wake.WakeAnalysis(prog)
    nb = npend = 0
    for b in prog.bodies:
        res = wa.check_body(b)
        if not res:
            continue
        nb += 1
        for p, ev in res:
            npend += 1
            if p is None:
                ctx.violation("C06-b", b.key, "PATH-EXPLOSION", "too many paths to analyse")
                continue
            if ev is not None:
                ctx.ok("C06-b", "%s:Pending via bb%d" % (b.key, p.blocks[-2] if len(p.blocks) > 1 else 0), ev)
                continue
            # named exceptions
            desc = None
            if b.key == "h3::frame::FrameStream::poll_data":
                tr = [t for t in p.tests if pa.head_call(t[3])[0] == "h3::frame::FrameStream::try_recv"]
                tk = [t for t in p.tests if pa.head_call(t[3])[0] and pa.head_call(t[3])[0].endswith("take_chunk")]
                ci_ = [i for i, e in enumerate(p.events) if e[0] == "call" and e[2].is_call("h3::frame::FrameStream::try_recv", "take_chunk")]
                order_ok = [p.events[i][2].cname for i in ci_][-2:] == ["try_recv", "take_chunk"]      # the buffer is consulted AFTER the read that filled it
                if order_ok and sorted(p.outcomes("h3::frame::FrameStream::try_recv")) == ["Ok", "Ready"] and tr and tr[-1][2] == "false" and tk and tk[-1][2] == "None":
                    desc = "try_recv=Ready(Ok(false)) & take_chunk=None"
            if desc and (b.key, desc) in A7_EXCEPTIONS:
                ctx.ok("C06-b", "%s:%s" % (b.key, desc), "excepted: " + A7_EXCEPTIONS[(b.key, desc)])
                continue
            ctx.violation("C06-b", b.key, "Pending without a registered wake-up (tests: %s)" % ",".join("%s=%s" % (pa.short(pa.head_call(t[3])[0] or t[1][:20]), t[2]) for t in p.tests[-3:]),
                          "%s returns Poll::Pending on a path that neither saw a Context-receiving callee answer Pending nor registered the waker: "
                          "nothing will wake the task and the call can stay pending for ever" % b.key, None, p.describe())
    ctx.floor("C06-b", "poll functions with Pending returns", nb, 30)
    ctx.floor("C06-b", "Pending-returning paths examined", npend, 80)

    # ------------------------------------------------------------------ C06-c
    nerr = 0
    for b in prog.bodies:
        cxs = wake.cx_params(b)
        if not cxs or b.coroutine:
            continue
        ps = wa.paths(b)
        if ps is None:
            continue
        for p in ps:
            if p.end != "return" or p.ret_shape() != "Pending":
                continue
            cx_calls = {e[1] for e in p.events if e[0] == "call" and wake._cx_arg(e[3], cxs)}
            for t in p.tests:
                if t[3][0] != "discr" or t[2] != "Err":
                    continue
                x = t[3]
                while x[0] in ("discr", "proj", "okval"):
                    x = x[1]
                if x[0] == "call" and x[3] in cx_calls:
                    nerr += 1
                    # the error may be consumed on purpose (recorded and reported elsewhere); audited list
                    if b.key in ("h3::connection::ConnectionInner::poll_grease_stream",):
                        continue
                    ctx.violation("C06-c", b.key, "error of %s swallowed into Pending" % pa.short(x[1]),
                                  "%s returns Pending on a path where %s had answered an error: the failure (end of stream, reset, connection "
                                  "close) is never reported and the caller waits for ever" % (b.key, pa.short(x[1])), None, p.describe())
    ctx.ok("C06-c", "no Context-receiving callee's error ends in a Pending return", "%d candidate paths" % nerr)
    if ctx.tier == "thorough" and "h3_quinn" in prog.crates:
        from engine import clippyx
        clippyx.run(ctx, prog)
    # a transport error that is answered as `more to come` keeps the frame loop spinning on the same buffered bytes: the frame
    # reader's error row (C07-b) runs under this property too
    if not getattr(ctx, "nested", False):
        from rules import C07 as _c07, shared as _sh
        _c07.run(_sh.Proxy(ctx, ("C07-b",), "C06-c", only=("FrameStream::try_recv",)))
    ctx.assume("no single Huffman-coded string literal is >= 2^29 bytes; the QUIC transport never yields an empty chunk")
