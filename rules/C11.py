"""C11 QPACK field sections: what h3 writes and accepts is RFC 9204 (tables and dispatch)."""
import json
import os
from engine import flow as fl, ru, paths as pa, expr, tables
from rules import C15 as _c15

EXPLANATION = (
    "Table extraction and path analysis over h3::qpack: (a) the 99-entry static table (const initialiser), "
    "StaticTable::find and find_name (HIR literal match tables) agree with each other and with RFC 9204 Appendix A "
    "(ref/); (b) for every field-line representation the (prefix size, flag pattern) written by encode is accepted by "
    "the decision list extracted from decode for the same variant, both equal RFC 9204 4.5, and the first-byte "
    "classifier HeaderBlockField::decode equals the RFC's over all 256 byte values (evaluated over the extracted "
    "conditions, h3 itself is not run); (c) one loop iteration of decode_stateless appends a field only on the "
    "Indexed-static / literal-with-static-name / literal paths, through the checked StaticTable::get; every other "
    "representation returns an error; (d) the section prefix is refused unless Required Insert Count is 0 and the "
    "base is not negative (HeaderPrefix::get specialised on a zero table size); (e) every decoder error other than "
    "HeaderTooLong becomes a QPACK_DECOMPRESSION_FAILED connection error at the three call sites; (f) the stateless "
    "encoder chooses indexed / static name reference / literal from find and find_name and writes the all-zero prefix. "
    "Decides these structural clauses; equality with an independent codec over all inputs is not decided.")
# every anchor of these rules lives in the h3 crate: thorough tier repeats them on the feature-less build
EXTRA_CONFIGS = ["h3-plain"]
RULES = "C11-a static tables (A11); C11-b wire formats (A11+decision lists); C11-c accepted representations (A3); C11-d prefix refusal, the sign bit is stored as read (A16/A18/A4); C11-e error class (A3); C11-f encoder choice, lookups and literals use the field's own bytes, with_value always carries the given value (A3/A4); C11-a also: the static lookups are the literal table and nothing else; shared: Huffman decode_next rows under C11-c"

HERE = os.path.dirname(os.path.dirname(os.path.abspath(__file__)))
REF_TABLE = [(a.encode(), b.encode()) for a, b in json.load(open(os.path.join(HERE, "ref", "rfc9204_static_table.json")))["entries"]]
WIRE = json.load(open(os.path.join(HERE, "ref", "rfc9204_wire_formats.json")))
Q = "h3::qpack::"
PI_DEC = Q + "prefix_int::decode"
PI_ENC = Q + "prefix_int::encode"
PS_DEC = Q + "prefix_string::decode"
PS_ENC = Q + "prefix_string::encode"


def pattern_class(first_byte, patterns):
    """Name of the RFC pattern ('1Txxxxxx' style) matching a byte."""
    bits = format(first_byte, "08b")
    hits = []
    for name, pat in patterns.items():
        if all(p not in "01" or p == b for p, b in zip(pat, bits)):
            hits.append(name)
    return hits


def first_byte_table(ctx, rule, key, patterns, names):
    """Compare a first-byte classifier fn(u8)->enum with the RFC patterns over all 256 values."""
    prog = ctx.prog
    b = ru.need(ctx, rule, key)
    if not b:
        return
    ps = [p for p in ru.all_paths(ctx, rule, b) if p.end == "return"]
    bad = []
    counts = {}
    for x in range(256):
        hit = expr.decide(ps, prog.consts, lambda v: x if v == ("param", 1, ()) else None)
        got = sorted({p.ret_shape().split("::")[-1] for p in hit})
        want = [names[n] for n in pattern_class(x, patterns)]
        if len(want) != 1:
            want = ["Unknown"]
        counts[want[0]] = counts.get(want[0], 0) + 1
        if got != want:
            bad.append((x, got, want))
    ctx.check(not bad, rule, key, "first-byte classifier equals RFC 9204 over 0..255",
              "classifier differs from the RFC decision list for %d byte values, e.g. %s (byte, h3, RFC)"
              % (len(bad), [(hex(x), g, w) for x, g, w in bad[:4]]), "256 values: %s" % counts, b.loc())


def enc_consts(ctx, path, callee):
    """[(size, flags)] constants of the prefix_int/prefix_string encode calls on a path."""
    out = []
    for e in path.calls(callee):
        a = e[3]
        out.append((expr.fold(a[0]), expr.fold(a[1])))
    return out


def run(ctx):
    # the codes this property names are the registry values (the rules below speak of them by name)
    from rules import shared as _shc
    _shc.error_code_values(ctx, "C11-e", ("QPACK_DECOMPRESSION_FAILED",))
    # string literals inside a field section: the Huffman table walk is shared with C15
    _c15.huffman_decode_rows(ctx, "C11-c")
    _c15.huffman_errors_propagate(ctx, "C11-c")
    prog = ctx.prog
    consts = prog.consts

    # ------------------------------------------------------------------ C11-a
    tab = tables.header_field_array(prog, Q + "static_::PREDEFINED_HEADERS")
    if tab is None:
        ctx.missing("C11-a", Q + "static_::PREDEFINED_HEADERS")
        tab = []
    ctx.check(len(tab) == 99, "C11-a", Q + "static_::PREDEFINED_HEADERS", "99 entries", "static table has %d entries" % len(tab), "99")
    nbad = 0
    for i, want in enumerate(REF_TABLE):
        got = tab[i] if i < len(tab) else None
        ok = got == want
        nbad += not ok
        ctx.check(ok, "C11-a", Q + "static_::PREDEFINED_HEADERS", "entry %d = RFC 9204 Appendix A" % i,
                  "static table entry %d is %s, RFC 9204 Appendix A has %s" % (i, got, want), "%s: %s" % (want[0].decode(), want[1].decode()))
    for fn_ in ("find", "find_name"):
        b_ = ru.need(ctx, "C11-a", Q + "static_::StaticTable::" + fn_)
        if b_:
            callees = sorted({t.ckey or "?" for bb, t in b_.all_terms() if t.t == "call"})
            okc = not [k for k in callees if k.startswith(("h3", "<h3"))]
            ctx.check(okc, "C11-a", b_.key, "the lookup is the literal table and nothing else (no calls into the workspace)",
                      "StaticTable::%s calls %s: a shortcut around the literal table can answer an index whose entry is not the field asked for, and "
                      "the peer then decodes a different field" % (fn_, [k for k in callees if k.startswith(("h3", "<h3"))]), str(callees)[:200])
            n_some = sum(1 for bb, i, s_ in b_.all_stmts() if s_.s == "assign" and s_.rv.rv == "aggregate" and s_.rv.variant == "Some")
            arms = [sum(1 for pat, g, body in m if isinstance(body, tuple) and body[:2] == ("call", "core::option::Option::Some")) for m in tables.match_tables(prog, b_.key)]
            ctx.check(len(arms) == 1 and n_some == arms[0], "C11-a", b_.key, "every Some(index) the lookup can answer is an arm of the literal table",
                      "StaticTable::%s builds Some(..) at %d places but its literal table has %s arms answering Some: an answer is produced outside the table" % (fn_, n_some, arms), "%d" % n_some)
    ms = tables.match_tables(prog, Q + "static_::StaticTable::find")
    if len(ms) != 1:
        ctx.missing("C11-a", Q + "static_::StaticTable::find literal table")
    else:
        arms = ms[0]
        seen = {}
        for pat, guard, body in arms:
            if pat == "_":
                ctx.check(body == ("path", "core::option::Option::None"), "C11-a", Q + "static_::StaticTable::find",
                          "wildcard -> None", "wildcard arm yields %s" % (body,), "")
                continue
            ok = (isinstance(pat, tuple) and len(pat) == 2 and not guard and body[0] == "call"
                  and body[1] == "core::option::Option::Some" and isinstance(body[2][0], int))
            if not ok:
                ctx.unrecognised("C11-a", Q + "static_::StaticTable::find", "arm", "arm %s => %s" % (pat, body))
                continue
            idx = body[2][0]
            if pat in seen:
                continue  # an earlier arm shadows this one
            seen[pat] = idx
            ctx.check(idx < len(REF_TABLE) and REF_TABLE[idx] == pat, "C11-a", Q + "static_::StaticTable::find",
                      "(%s, %s) -> its own index" % (pat[0].decode("latin1"), pat[1].decode("latin1")),
                      "find maps %s to index %d but entry %d is %s" % (pat, idx, idx, REF_TABLE[idx] if idx < len(REF_TABLE) else None),
                      str(idx))
        missing = [i for i, e in enumerate(REF_TABLE) if seen.get(e) != i]
        # duplicates in the RFC table do not exist (name, value pairs are unique)
        ctx.check(not missing, "C11-a", Q + "static_::StaticTable::find", "every entry is found at its index",
                  "entries %s of the static table are not found by find() at their own index" % missing, "99 entries")
    ms = tables.match_tables(prog, Q + "static_::StaticTable::find_name")
    if len(ms) != 1:
        ctx.missing("C11-a", Q + "static_::StaticTable::find_name literal table")
    else:
        first = {}
        for i, (n, v) in enumerate(REF_TABLE):
            first.setdefault(n, i)
        seen = {}
        for pat, guard, body in ms[0]:
            if pat == "_":
                continue
            ok = isinstance(pat, bytes) and not guard and body[0] == "call" and isinstance(body[2][0], int)
            if not ok:
                ctx.unrecognised("C11-a", Q + "static_::StaticTable::find_name", "arm", "arm %s => %s" % (pat, body))
                continue
            seen.setdefault(pat, body[2][0])
        for n, i in first.items():
            ctx.check(seen.get(n) == i, "C11-a", Q + "static_::StaticTable::find_name", "%s -> first index %d" % (n.decode(), i),
                      "find_name maps %s to %s; the first static entry with that name is %d" % (n, seen.get(n), i), str(i))
        extra = [n for n in seen if n not in first]
        ctx.check(not extra, "C11-a", Q + "static_::StaticTable::find_name", "no names outside the table",
                  "find_name knows names that are not in the static table: %s" % extra, "")
    b = ru.need(ctx, "C11-a", Q + "static_::StaticTable::get")
    if b:
        idx = [t for _, t in b.all_terms() if t.t == "call" and t.cname in ("index", "index_mut", "get_unchecked")]
        gets = ru.calls(b, "core::slice::<impl [T]>::get", "::get")
        ctx.check(not idx and gets, "C11-a", b.key, "bounds-checked lookup",
                  "StaticTable::get indexes the table without a bounds check (%s)" % [t.ckey for t in idx], "uses .get(index)")
        ps = [p for p in ru.all_paths(ctx, "C11-a", b) if p.end == "return"]
        shapes = sorted(p.ret_shape() for p in ps)
        if len(ps) == 1 and ps[0].ret[0] == "call" and pa.short(ps[0].ret[1]) == "ok_or" and len(ps[0].ret[2]) == 2:
            # `TABLE.get(index).ok_or(Error::Unknown(index))` is the same two-row table
            g_, e_ = ps[0].ret[2]
            if g_[0] == "call" and pa.short(g_[1]) == "get" and e_[0] == "agg" and e_[2] == "Unknown":
                shapes = ["Err(Error::Unknown)", "Ok(call:get<Some>.0)"]
        ctx.check(shapes == ["Err(Error::Unknown)", "Ok(call:get<Some>.0)"] or (len(shapes) == 2 and shapes[0].startswith("Err(Error::Unknown")
                  and shapes[1].startswith("Ok(")), "C11-a", b.key, "out of range -> Err(Unknown)",
                  "StaticTable::get returns %s" % shapes, str(shapes))

    # ------------------------------------------------------------------ C11-b
    fl_names = {"indexed": "Indexed", "indexed_post_base": "IndexedWithPostBase", "literal_name_ref": "LiteralWithNameRef",
                "literal_post_base_name_ref": "LiteralWithPostBaseNameRef", "literal_literal_name": "Literal"}
    first_byte_table(ctx, "C11-b", Q + "block::HeaderBlockField::decode",
                     {k: v["first_byte"] for k, v in WIRE["field_lines"].items()}, fl_names)
    # representation codecs: (decode fn, encode fn, prefix bits, {variant: flags the RFC pattern fixes})
    reps = [
        ("Indexed", 6, {"Static": 0b11, "Dynamic": 0b10}),
        ("IndexedWithPostBase", 4, {None: 0b0001}),
        ("LiteralWithNameRef", 4, {"Static": 0b0101, "Dynamic": 0b0100}),
        ("LiteralWithPostBaseNameRef", 3, {None: 0b00000}),
    ]
    for name, bits, variants in reps:
        dec = ru.need(ctx, "C11-b", "%sblock::%s::decode" % (Q, name))
        enc = ru.need(ctx, "C11-b", "%sblock::%s::encode" % (Q, name))
        if not dec or not enc:
            continue
        dps = [p for p in ru.all_paths(ctx, "C11-b", dec) if p.end == "return"]
        eps = [p for p in ru.all_paths(ctx, "C11-b", enc) if p.end == "return"]
        # sizes used
        dsz = {expr.fold(e[3][0]) for p in dps for e in p.calls(PI_DEC)}
        ctx.check(dsz == {bits}, "C11-b", dec.key, "prefix size %d" % bits,
                  "%s::decode reads a %s-bit prefix integer, RFC 9204 4.5 says %d" % (name, sorted(dsz), bits), str(bits))
        for var, flags in variants.items():
            # encoder constants on the path for this variant
            cand = [p for p in eps if (var is None or p.tested("param_1", var) or any(t[2] == var for t in p.tests))
                    and not p.ret_shape().startswith("Residual")]
            got = {c for p in cand for c in enc_consts(ctx, p, PI_ENC)}
            ctx.check(got == {(bits, flags)}, "C11-b", enc.key, "%s writes (size %d, flags %s)" % (var or name, bits, bin(flags)),
                      "%s::encode writes prefix (size, flags) = %s for %s; RFC 9204 requires (%d, %s)"
                      % (name, sorted(got), var or name, bits, bin(flags)), "(%d, %s)" % (bits, bin(flags)))
            # the decoder's decision list, evaluated on those flags, must lead to the same variant
            def subst(v, flags=flags):
                if v[0] == "proj" and v[1][0] == "okval" and v[1][1][0] == "call" and v[1][1][1] == PI_DEC:
                    names = tuple(n.lstrip(".") for n in v[2])
                    if names == ("0",):
                        return flags
                return None
            hit = [p for p in expr.decide(dps, consts, subst) if p.ret_shape().startswith("Ok")]
            shapes = {p.ret_shape() for p in hit}
            want = (var.lower() if var else name)
            ok = len(shapes) == 1 and (want.lower() in next(iter(shapes)).lower() or (var is None and next(iter(shapes)) == "Ok(call:new)"))
            ctx.check(ok, "C11-b", dec.key, "flags %s decode to %s" % (bin(flags), var or name),
                      "with the flags the encoder writes (%s) the decoder's decision list yields %s, expected %s"
                      % (bin(flags), sorted(shapes), var or name), str(sorted(shapes)))
        # all other flag values must be refused (or be the other variant)
        nflags = 1 << (8 - bits)
        accepted = {}
        for fv in range(nflags):
            def subst2(v, fv=fv):
                if v[0] == "proj" and v[1][0] == "okval" and v[1][1][0] == "call" and v[1][1][1] == PI_DEC:
                    if tuple(n.lstrip(".") for n in v[2]) == ("0",):
                        return fv
                return None
            hit = {p.ret_shape() for p in expr.decide(dps, consts, subst2) if p.ret_shape().startswith("Ok")}
            if hit:
                accepted[fv] = sorted(hit)
        # flags the RFC pattern allows for this representation: fixed bits as in `variants`, N bit free
        allowed = set()
        for var, flags in variants.items():
            allowed.add(flags)
            if name == "LiteralWithNameRef":
                allowed.add(flags | 0b0010)   # N bit
            if name == "LiteralWithPostBaseNameRef":
                allowed.add(flags | 0b00001)  # N bit
        extra = sorted(set(accepted) - allowed)
        # flags outside the representation's own pattern cannot reach it through the first-byte classifier;
        # within the pattern, nothing but the RFC's values may be accepted
        fb = {"Indexed": (0b10, 1), "IndexedWithPostBase": (0b0001, 0), "LiteralWithNameRef": (0b01, 2),
              "LiteralWithPostBaseNameRef": (0b0000, 1)}[name]
        inpat = [fv for fv in extra if (fv >> fb[1]) == fb[0]]
        ctx.check(not inpat, "C11-b", dec.key, "no flag pattern outside RFC 9204 accepted",
                  "%s::decode accepts flag values %s that RFC 9204 does not define for it" % (name, [bin(x) for x in inpat]),
                  "accepted: %s" % {bin(k): v for k, v in accepted.items()})
    # literal with literal name: string codecs
    dec = ru.need(ctx, "C11-b", Q + "block::Literal::decode")
    enc = ru.need(ctx, "C11-b", Q + "block::Literal::encode")
    if dec and enc:
        dps = [p for p in ru.all_paths(ctx, "C11-b", dec) if p.end == "return" and p.ret_shape().startswith("Ok")]
        eps = [p for p in ru.all_paths(ctx, "C11-b", enc) if p.end == "return" and p.ret_shape().startswith("Ok")]
        dsz = [[expr.fold(e[3][0]) for e in p.calls(PS_DEC)] for p in dps]
        esz = [enc_consts(ctx, p, PS_ENC) for p in eps]
        ctx.check(dsz == [[4, 8]], "C11-b", dec.key, "name string: 3-bit length + H at bit 3; value: 7-bit",
                  "Literal::decode reads strings with sizes %s, expected [4, 8]" % dsz, "[4, 8]")
        ctx.check(esz == [[(4, 0b0010), (8, 0)]], "C11-b", enc.key, "writes 001N H xxx then the value",
                  "Literal::encode writes string prefixes %s, expected [(4, 0b0010), (8, 0)]" % esz, str(esz))
        # first-byte test of Literal::decode: first & 0xe0 != 0x20 -> InvalidPrefix
        alld = [p for p in ru.all_paths(ctx, "C11-b", dec) if p.end == "return"]
        bad = []
        for x in range(256):
            def sub(v, x=x):
                if v[0] in ("proj", "param") and any(n.startswith("[") for n in v[-1]) and expr.mentions(v, lambda n: n[0] == "call" and n[1].endswith("::chunk")):
                    return x
                # `buf.chunk().first()` / `.get(0)`: the payload of the Some is that same byte
                if v[0] == "proj" and tuple(v[2]) == ("<Some>", ".0") and v[1][0] == "call" and v[1][2] and v[1][2][0][0] == "call" and v[1][2][0][1].endswith("::chunk") and \
                        (v[1][1] == "[T]::first" or (v[1][1] == "[T]::get" and len(v[1][2]) == 2 and expr.fold(v[1][2][1], consts) == 0)):
                    return x
                return None
            okp = [p for p in expr.decide(alld, consts, sub) if not p.ret_shape().startswith("Err(ParseError::InvalidPrefix")]
            acc = any(not p.ret_shape().startswith("Err") or p.ret_shape().startswith("Residual") for p in okp)
            if acc != ((x & 0xe0) == 0x20):
                bad.append(x)
        ctx.check(not bad, "C11-b", dec.key, "accepts exactly first bytes 001xxxxx",
                  "Literal::decode's prefix test differs from 001xxxxx for bytes %s" % [hex(x) for x in bad[:6]], "")
    for name in ("LiteralWithNameRef", "LiteralWithPostBaseNameRef"):
        for side, callee in (("decode", PS_DEC), ("encode", PS_ENC)):
            b = prog.one("%sblock::%s::%s" % (Q, name, side))
            if b:
                ps = ru.all_paths(ctx, "C11-b", b)
                sz = {expr.fold(e[3][0]) for p in ps for e in p.calls(callee)}
                ctx.check(sz == {8}, "C11-b", b.key, "value string uses a 7-bit length with H at bit 7",
                          "%s::%s uses string prefix sizes %s, expected {8}" % (name, side, sorted(sz)), "8")
    # section prefix
    b = ru.need(ctx, "C11-b", Q + "block::HeaderPrefix::decode")
    if b:
        ps = [p for p in ru.all_paths(ctx, "C11-b", b) if p.end == "return" and p.ret_shape().startswith("Ok")]
        sz = [[expr.fold(e[3][0]) for e in p.calls(PI_DEC)] for p in ps]
        ctx.check(sz and all(s == [8, 7] for s in sz), "C11-b", b.key, "RIC 8-bit prefix, then S + 7-bit delta base",
                  "HeaderPrefix::decode reads prefix sizes %s, expected [8, 7]" % sz, "[8, 7]")
    b = ru.need(ctx, "C11-b", Q + "block::HeaderPrefix::encode")
    if b:
        ps = [p for p in ru.all_paths(ctx, "C11-b", b) if p.end == "return"]
        sz = [[expr.fold(e[3][0]) for e in p.calls(PI_ENC)] for p in ps]
        ctx.check(sz and all(s == [8, 7] for s in sz), "C11-b", b.key, "writes RIC (8) then delta base (7)",
                  "HeaderPrefix::encode writes prefix sizes %s, expected [8, 7]" % sz, "[8, 7]")

    # ------------------------------------------------------------------ C11-c / C11-d / C10 shared: decode_stateless
    ds = ru.need(ctx, "C11-c", Q + "decoder::decode_stateless")
    if ds:
        heads = ds.loop_heads()
        ctx.check(len(heads) == 1, "C11-c", ds.key, "one field loop", "decode_stateless has %d loops" % len(heads), "")
        ex = pa.Explorer(prog, ds, max_visits=1)
        if len(heads) == 1:
            head = next(iter(heads))
            its = ex.paths(start=head, stop_at=heads)
            accepted = [p for p in its if p.end == "stop"]
            ctx.floor("C11-c", "accepting iterations of decode_stateless", len(accepted), 3)
            for p in accepted:
                kinds = [lab for _, lab, _ in p.variant_tests("block::HeaderBlockField::decode")]
                sub = [lab for _, lab, _ in p.variant_tests("block::Indexed::decode", "block::LiteralWithNameRef::decode")
                       if lab in ("Static", "Dynamic")]
                rep = (kinds[0] if kinds else "?", sub[0] if sub else None)
                ok = rep in (("Indexed", "Static"), ("LiteralWithNameRef", "Static"), ("Literal", None))
                ctx.check(ok, "C11-c", ds.key, "field appended for %s/%s" % rep,
                          "decode_stateless appends a field for representation %s/%s; only static-indexed, literal with "
                          "static name reference and literal fields may be accepted without a dynamic table" % rep,
                          "accepted", None, p.describe())
                if rep[1] == "Static":
                    ctx.check(p.has_call(Q + "static_::StaticTable::get"), "C11-c", ds.key,
                              "%s static index through StaticTable::get" % rep[0],
                              "static index of %s is not looked up through the checked StaticTable::get" % rep[0], "", None, p.describe())
                ctx.check(p.has_call("alloc::vec::Vec::push"), "C11-c", ds.key, "accepted field is pushed (%s/%s)" % rep,
                          "an accepting iteration does not push the field", "")
            # every representation that may not be accepted returns an error
            rets = [p for p in its if p.end == "return"]
            for p in rets:
                kinds = [lab for _, lab, _ in p.variant_tests("block::HeaderBlockField::decode")]
                if not kinds:
                    continue
                ctx.check(p.ret_shape().startswith(("Err", "Residual")), "C11-c", ds.key,
                          "%s exit is an error (%s)" % (kinds[0], p.ret_shape()[:40]),
                          "an iteration that leaves the loop for representation %s returns %s" % (kinds[0], p.ret_shape()), "")
            seen_kinds = {lab for p in its for _, lab, _ in p.variant_tests("block::HeaderBlockField::decode")}
            allk = set()
            for k in seen_kinds:
                allk |= set(k.split("|"))
            ctx.check(allk >= {"Indexed", "IndexedWithPostBase", "LiteralWithNameRef", "LiteralWithPostBaseNameRef", "Literal", "Unknown"},
                      "C11-c", ds.key, "all six classifier results handled", "classifier results seen: %s" % sorted(allk), "")
        # C11-d: prefix. Ok paths of the whole function require okval(get(..)).0 == 0
        allp = ru.all_paths(ctx, "C11-d", ds, max_visits=1)
        okp = [p for p in allp if p.end == "return" and p.ret_shape().startswith("Ok")]
        ctx.floor("C11-d", "Ok paths of decode_stateless", len(okp), 1)

        def is_req(v):
            return v[0] == "proj" and tuple(n.lstrip(".") for n in v[2]) == ("0",) and expr.mentions(
                v, lambda n: n[0] == "call" and n[1] == Q + "block::HeaderPrefix::get")
        for p in okp:
            lo, hi, un = expr.interval([(t[3], t[2]) for t in p.tests], is_req, consts)
            ctx.check((lo, hi) == (0, 0), "C11-d", ds.key, "accepted only with Required Insert Count 0",
                      "a field section is accepted with a decoded Required Insert Count in [%s, %s]; without a dynamic "
                      "table only 0 can be satisfied" % (lo, hi), "RIC == 0", None, p.describe())
            gets = p.calls(Q + "block::HeaderPrefix::get")
            ok = len(gets) == 1 and expr.fold(gets[0][3][1]) == 0 and expr.fold(gets[0][3][2]) == 0 and \
                expr.mentions(gets[0][3][0], lambda n: n[0] == "call" and n[1] == Q + "block::HeaderPrefix::decode")
            ctx.check(ok, "C11-d", ds.key, "prefix = HeaderPrefix::decode(buf)?.get(0, 0)",
                      "the section prefix is not resolved as HeaderPrefix::decode(buf)?.get(0, 0)", "")
    g = ru.need(ctx, "C11-d", Q + "block::HeaderPrefix::get")
    if g:
        ex = pa.Explorer(prog, g)
        ps = ex.paths(env={2: ("const", 0), 3: ("const", 0)})
        ps = [p for p in ps if p.end == "return"]
        okp = [p for p in ps if p.ret_shape().startswith("Ok")]
        ctx.floor("C11-d", "Ok paths of HeaderPrefix::get(0, 0)", len(okp), 1)
        for p in okp:
            sn = [t for t in p.tests if "sign_negative" in t[1]]
            ok = bool(sn) and all(expr.test_holds(t, consts, lambda v: 0 if (v[0] == "param" and "sign_negative" in "".join(v[2])) else None)
                                  is True for t in sn)
            other = [t for t in p.tests if "param_1" in t[1] and "sign_negative" not in t[1]]
            ctx.check(ok, "C11-d", g.key, "zero table size: Ok only when the sign bit is clear",
                      "with a zero-size table HeaderPrefix::get returns Ok on a path that does not require sign_negative == "
                      "false (tests: %s)" % [(t[1], t[2]) for t in p.tests], "", None, p.describe())
            r = p.ret
            first = r[3][0][3][0] if r[0] == "agg" and r[3] and r[3][0][0] == "agg" and r[3][0][3] else None
            ctx.check(first is not None and first[0] == "param" and "encoded_insert_count" in "".join(first[2]) and not other,
                      "C11-d", g.key, "zero table size: required count = decoded count, no other condition",
                      "with a zero-size table the required insert count returned is %s (other conditions: %s); it must be the "
                      "decoded count itself so that the caller's `> 0` refusal sees it"
                      % (pa.vfmt(first) if first else pa.vfmt(r), [(t[1], t[2]) for t in other]), "")
        for p in ps:
            sn_true = [t for t in p.tests if "sign_negative" in t[1] and expr.test_holds(
                t, consts, lambda v: 1 if (v[0] == "param" and "sign_negative" in "".join(v[2])) else None) is True]
            if sn_true:
                ctx.check(p.ret_shape().startswith("Err"), "C11-d", g.key, "zero table size: negative base refused",
                          "a path with the sign bit set returns %s" % p.ret_shape(), "", None, p.describe())

    # ------------------------------------------------------------------ C11-e error class at the call sites
    sites = list(prog.callers_of(Q + "decoder::decode_stateless"))
    ctx.floor("C11-e", "call sites of decode_stateless", len(sites), 3)
    for body, bb, t in sites:
        ps = ru.all_paths(ctx, "C11-e", body, max_visits=1)
        n = 0
        for p in ps:
            if p.end != "return" or not p.has_call(Q + "decoder::decode_stateless"):
                continue
            dv = p.variant_tests("decoder::decode_stateless")
            top = [lab for names, lab, _ in dv if not names]
            errv = [lab for names, lab, _ in dv if names and names[0] == "<Err>"]
            if "Err" not in top:
                continue
            n += 1
            if errv and errv[0] == "HeaderTooLong":
                codes = pa.path_codes(prog, p)
                ctx.check("QPACK_DECOMPRESSION_FAILED" not in codes and not p.has_call("handle_connection_error_on_stream", "handle_connection_error"),
                          "C11-e", body.key, "HeaderTooLong is not connection-fatal",
                          "the HeaderTooLong arm raises a connection error (codes %s)" % sorted(codes), "")
            else:
                fatal = p.calls("CloseStream::handle_connection_error_on_stream", "handle_connection_error")
                codes = p.codes("agg:InternalConnectionError::InternalConnectionError", "new", "handle_connection_error_on_stream")
                ctx.check(bool(fatal) and codes == {"QPACK_DECOMPRESSION_FAILED"}, "C11-e", body.key,
                          "other decoder errors -> QPACK_DECOMPRESSION_FAILED connection error",
                          "a decoder error other than HeaderTooLong leads to codes %s, fatal call: %s; RFC 9204 requires a "
                          "connection error QPACK_DECOMPRESSION_FAILED" % (sorted(codes), bool(fatal)), "", None, p.describe())
        ctx.floor("C11-e", "error arms at " + body.key, n, 2)

    # ------------------------------------------------------------------ C11-f encoder choice
    es = ru.need(ctx, "C11-f", Q + "encoder::encode_stateless")
    if es:
        news = ru.calls(es, Q + "block::HeaderPrefix::new")
        ok = len(news) == 1 and all(fl.Flow(es, prog).origin(a) == ("const", 0) for a in news[0][1].args)
        ctx.check(ok, "C11-f", es.key, "prefix HeaderPrefix::new(0,0,0,0)", "the stateless encoder's prefix is not new(0,0,0,0)", "")
        heads = es.loop_heads()
        ex = pa.Explorer(prog, es, max_visits=1)
        n = 0
        for head in heads:
            for p in ex.paths(start=head, stop_at=heads):
                if p.end != "stop":
                    continue
                n += 1
                found = [lab for _, lab, _ in p.variant_tests("static_::StaticTable::find")]
                foundn = [lab for _, lab, _ in p.variant_tests("static_::StaticTable::find_name")]
                writes = [pa.short(e[2].ckey) + ":" + (e[2].ckey.split("::")[-2]) for e in p.calls("::encode") if "block::" in (e[2].ckey or "")]
                if found == ["Some"]:
                    want = ["encode:Indexed"]
                    okv = any(a[0] == "agg" and a[2] == "Static" for e in p.calls(Q + "block::Indexed::encode") for a in e[3][:1])
                elif found == ["None"] and foundn == ["Some"]:
                    want = ["encode:LiteralWithNameRef"]
                    okv = p.has_call(Q + "block::LiteralWithNameRef::new_static")
                elif found == ["None"] and foundn == ["None"]:
                    want = ["encode:Literal"]
                    okv = p.has_call(Q + "block::Literal::new")
                else:
                    want, okv = None, False
                # what is looked up and what is written are the field's own name and value, untouched: the static table is matched
                # byte for byte (a name that only matches after case folding must go out as a literal, or the peer decodes another name)
                item = None
                for e in p.calls(Q + "static_::StaticTable::find"):
                    item = e[3][0]
                flows = True
                if item is not None:
                    it_ = pa.vfmt(item)
                    for e in p.calls(Q + "static_::StaticTable::find_name"):
                        flows = flows and pa.vfmt(e[3][0]) == it_ + ".name"
                    for e in p.calls(Q + "block::LiteralWithNameRef::new_static"):
                        flows = flows and (it_ + ".value") in pa.vfmt(e[3][-1]) and not expr.mentions(
                            e[3][-1], lambda v: v[0] == "call" and pa.short(v[1]) not in ("clone", "into", "from", "as_ref", "deref", "next"))
                    for e in p.calls(Q + "block::Literal::new"):
                        flows = flows and [pa.vfmt(a) for a in e[3]] == [it_ + ".name", it_ + ".value"]
                else:
                    flows = False
                ctx.check(flows, "C11-f", es.key, "lookups and literals use the field's own name and value (%s/%s)" % (found, foundn),
                          "the stateless encoder looks up or writes something other than the field's own bytes: %s" %
                          [(e[2].cname, [pa.vfmt(a)[:60] for a in e[3]]) for e in p.calls("StaticTable::find", "StaticTable::find_name", "new_static", "Literal::new")], "", None, p.describe())
                ctx.check(writes == want and okv, "C11-f", es.key, "find=%s find_name=%s -> %s" % (found, foundn, want),
                          "for find=%s find_name=%s the encoder writes %s, expected %s (static variant)" % (found, foundn, writes, want),
                          str(writes), None, p.describe())
        ctx.floor("C11-f", "encoder iterations", n, 3)
    # ------------------------------------------------------------------ C11-d / C11-f the decoded prefix and a rebuilt field are what was read
    # HeaderPrefix::decode stores the sign bit and the two integers as they were read (the only decisions are the usize range checks);
    # HeaderField::with_value always carries the value it is given (an empty value is a value)
    hpd = ru.need(ctx, "C11-d", Q + "block::HeaderPrefix::decode")
    if hpd:
        for p in [p for p in ru.all_paths(ctx, "C11-d", hpd, max_visits=1) if p.end == "return" and p.ret_shape().startswith("Ok")]:
            def range_check(t):
                nf = expr.cmp_nf(t[3], t[2])
                if nf is None:
                    return False
                c = expr.fold(nf[2], consts)
                return "usize::MAX" in t[1] or (c is not None and c >= (1 << 32) - 1)
            dec_ = [t for t in p.tests if t[3][0] != "discr" and not range_check(t)]
            sg = p.ret[3][0][3] if (p.ret[0] == "agg" and p.ret[3] and p.ret[3][0][0] == "agg") else ()
            names_ = [f_["name"] for f_ in prog.adts[Q + "block::HeaderPrefix"]["variants"][0]["fields"]]
            sv = dict(zip(names_, sg)).get("sign_negative")
            ok = not dec_ and sv is not None and sv[0] == "binop" and sv[1] == "Eq" and expr.fold(sv[3], consts) == 1
            ctx.check(ok, "C11-d", hpd.key, "the sign bit is stored as read, no decision on the decoded values",
                      "HeaderPrefix::decode %s: a prefix such as `00 80` (S = 1, Delta Base 0: Base -1, invalid for a stateless decoder) is "
                      "turned into a valid one before get() can refuse it" % ("decides on %s" % dec_[0][1][:50] if dec_ else "stores sign_negative = %s" % (pa.vfmt(sv)[:50] if sv else "?")),
                      "", None, p.describe())
    wv = ru.need(ctx, "C11-f", Q + "field::HeaderField::with_value")
    if wv:
        ps_ = [p for p in ru.all_paths(ctx, "C11-f", wv, max_visits=1) if p.end == "return"]
        ok = len(ps_) == 1 and not [t for t in ps_[0].tests if t[3][0] != "discr"] and ps_[0].ret[0] == "agg" and len(ps_[0].ret[3]) == 2 and \
            expr.mentions(ps_[0].ret[3][1], lambda v: v == ("param", 2, ())) and not expr.mentions(ps_[0].ret[3][1], lambda v: v[0] == "param" and v[1] == 1)
        ctx.check(ok, "C11-f", wv.key, "with_value always carries the given value",
                  "HeaderField::with_value has %d paths / returns %s: a literal with a static name reference and (for instance) an empty value decodes "
                  "to the static entry's own value" % (len(ps_), [pa.vfmt(p.ret)[:60] for p in ps_][:2]), "")
    ctx.assume("prefix_int / prefix_string codecs are decided (structurally) under C15")
