"""C14 Everything h3 writes is valid HTTP/3, however the transport takes it."""
import itertools
import re
from engine import flow as fl, ru, paths as pa, expr
from rules import shared
from rules import C16 as _c16

EXPLANATION = (
    "Who-may-write inventory, def-use rules and small-domain evaluation of extracted cursor code: (a) every call of "
    "stream::write / direct SendStream::send_data is enumerated with the frame or stream header constructed for it and "
    "the stream it goes to: the control stream gets UniStreamHeader::Control(settings) once (send_control_stream_headers, "
    "called once from new) and afterwards only Frame::Goaway; request streams get only Frame::{Headers, Data, Grease}; "
    "streams h3 opens start with a legal stream-type header; Frame::{Settings, PushPromise, CancelPush, MaxPushId, "
    "WebTransportStream} are constructed on no send path; forwarders hand the data on unchanged; (b) in Encode for "
    "Frame the DATA length is remaining() of the same payload buffer, the HEADERS length is len() of the same Bytes, "
    "simple frames write size() of the id they then write, Settings writes len() then exactly entries[..len], the grease "
    "frame's declared length equals the literal that follows; (c) the three grease() generators share the 0x1f*N+0x21 "
    "form below 2^62 and the H2-reserved frame types appear in no encode path; (d) worst-case header size of every "
    "Into<WriteBuf> source fits WRITE_BUF_ENCODE_SIZE; (e) the header-then-payload cursors (WriteBuf and its sibling "
    "EncodedDatagram: remaining/chunk/advance) are extracted as path conditions + expressions and evaluated over all "
    "small (len, pos, cnt) states against the reference cursor (advance min(cnt, len-pos) in the header, the rest in the "
    "payload), so partial writes of any size re-emit or skip no header byte. The transport taking what it was given "
    "is trusted (C17 for Quinn)."
    " C14-a further checks the five From<..> for WriteBuf constructors on their paths (cursor starts at 0/0, the frame handed in is the frame kept, the header is encoded exactly once and in order) and the grease stream's state machine (a step is completed only on a path where the step's poll answered Ready).")
RULES = "C14-a who may write what, WriteBuf constructors, grease-stream steps complete only after Ready, finish() clears the grease flag only after the awaited write (A10/A4/A2); C14-b declared lengths (A4); C14-c reserved identifiers (A6/A11); C14-d buffer bound (A17); C14-b also: Settings::len counts size(from_u64(id)) + size(from_u64(value)) uncast; C14-e also: only remaining/chunk/advance are implemented by hand, remaining() ends in the payload's own remaining(); shared through a proxy: C08-a under C14-b; C14-e header/payload cursor (extracted-expression evaluation); shared: varint form tables under C14-b"

FR = "h3::proto::frame::Frame"
WRITE = "h3::stream::write"
MAXV = (1 << 62) - 1


def vsize(x):
    return 1 if x < 64 else 2 if x < 16384 else 4 if x < (1 << 30) else 8


def run(ctx):
    # every length and identifier h3 writes goes through VarInt::size/encode: the form tables are shared with C16
    _c16.varint_form_tables(ctx, "C14-b")
    prog = ctx.prog
    consts = prog.consts
    # ------------------------------------------------------------------ C14-a
    table = {
        "h3::client::connection::SendRequest::send_request::{closure#0}": ("request", {"Headers"}),
        "h3::server::stream::RequestStream::send_response::{closure#0}": ("request", {"Headers"}),
        "h3::connection::RequestStream::send_data::{closure#0}": ("request", {"Data"}),
        "h3::connection::RequestStream::send_trailers::{closure#0}": ("request", {"Headers"}),
        "h3::connection::RequestStream::finish::{closure#0}": ("request", {"Grease"}),
        "h3::connection::ConnectionInner::shutdown::{closure#0}": ("control", {"Goaway"}),
        "h3::connection::ConnectionInner::send_control_stream_headers::{closure#0}": ("control", {"UniStreamHeader::Control"}),
        "h3::connection::ConnectionInner::send_control_stream_headers::{closure#0}::{closure#1}": ("qpack", {"UniStreamHeader::Encoder", "UniStreamHeader::Decoder"}),
        "h3::connection::ConnectionInner::send_control_stream_headers::{closure#0}::{closure#2}": ("qpack", {"UniStreamHeader::Encoder", "UniStreamHeader::Decoder"}),
    }
    seen = set()
    labs_seen = set()
    n = 0
    for b, bb, t in prog.callers_of(WRITE):
        n += 1
        f = fl.Flow(b, prog)
        tgt, what = fl.fmt(f.origin(t.args[0])), f.origin(t.args[1])
        if what[0] == "call" and "WriteBuf as core::convert::From<h3::stream::UniStreamHeader>>::from" in what[1]:
            inner = what[2][0]
            lab = "UniStreamHeader::" + inner[1].rsplit("::", 1)[-1] if inner[0] == "agg" else fl.fmt(inner)
        elif what[0] == "agg" and what[1].startswith(FR + "::"):
            lab = what[1].rsplit("::", 1)[-1]
        else:
            lab = fl.fmt(what)[:60]
        row = table.get(b.key)
        seen.add(b.key)
        labs_seen.add(lab)
        ok = row is not None and lab in row[1]
        if ok and row[0] == "control":
            ok = tgt.endswith("control_send")
        ctx.check(ok, "C14-a", b.key, "writes %s to the %s stream" % (lab, row[0] if row else "?"),
                  "%s writes `%s` to %s; audited: %s" % (b.key, lab, tgt, row), lab, b.loc(t))
    ctx.floor("C14-a", "stream::write call sites", n, 9)
    ctx.check(seen == set(table), "C14-a", WRITE, "every audited write site still exists", "missing: %s" % sorted(set(table) - seen), "")
    ctx.check({"UniStreamHeader::Encoder", "UniStreamHeader::Decoder", "UniStreamHeader::Control"} <= labs_seen, "C14-a", WRITE,
              "control, encoder and decoder stream headers are each written", "headers written: %s" % sorted(labs_seen), "")
    direct = sorted({b.key for b, bb, t in prog.callers_of("h3::quic::SendStream::send_data")})
    fwd_ok = {"<h3::frame::FrameStream as h3::quic::SendStream<B>>::send_data", "<h3::stream::BufRecvStream as h3::quic::SendStream<B>>::send_data",
              "<h3_quinn::BidiStream as h3::quic::SendStream<B>>::send_data", "<h3_webtransport::stream::SendStream as h3::quic::SendStream<B>>::send_data",
              "<h3_webtransport::stream::BidiStream as h3::quic::SendStream<B>>::send_data"}
    others = [k for k in direct if k not in fwd_ok]
    ctx.check(sorted(others) == sorted(["h3::connection::ConnectionInner::poll_grease_stream", "h3::stream::write::{closure#0}"]), "C14-a",
              "h3::quic::SendStream::send_data", "direct senders: stream::write and the grease stream only",
              "send_data is called directly from %s" % others, str(others))
    for k in fwd_ok:
        b = prog.one(k)
        if b is None:
            ctx.missing("C14-a", k)
            continue
        ok, why = ru.forwarder(prog, b)
        ctx.check(ok, "C14-a", k, "pure forwarder (data handed on unchanged)", "send_data wrapper is not a pure forwarder: %s" % why, why)
    gs = ru.need(ctx, "C14-a", "h3::connection::ConnectionInner::poll_grease_stream")
    if gs:
        f = fl.Flow(gs, prog)
        for bb, t in gs.calls("h3::quic::SendStream::send_data"):
            o = f.origin(t.args[1])
            ok = o[0] == "agg" and o[1] == "tuple" and o[2][0][0] == "call" and o[2][0][1] == "h3::proto::stream::StreamType::grease" and \
                o[2][1][0] == "agg" and o[2][1][1] == FR + "::Grease"
            ctx.check(ok, "C14-a", gs.key, "grease stream = (StreamType::grease(), Frame::Grease)", "grease stream sends %s" % fl.fmt(o), "")
        # the grease stream's little state machine moves on only when the transport answered the step's poll with Ready:
        # finishing the stream while its bytes are still pending truncates it (a cut-off stream type varint + FIN)
        STEP = ("poll_open_send", "poll_ready", "poll_finish")
        n_adv = 0
        for p in [p for p in ru.all_paths(ctx, "C14-a", gs, max_visits=1) if p.end == "return"]:
            pend = {}          # bb of a step's poll call -> outcome the path established for it
            for t in p.tests:
                if t[3][0] == "discr" and t[3][1][0] == "call" and pa.short(t[3][1][1]) in STEP:
                    pend[t[3][1][3]] = t[2]
            last = None
            for e in p.events:
                if e[0] == "call" and e[2].cname in STEP:
                    last = e
                elif e[0] == "store" and pa.vfmt(e[4]).endswith(".grease_step") and last is not None:
                    n_adv += 1
                    out_ = pend.get(last[1])
                    ctx.check(out_ == "Ready", "C14-a", gs.key, "grease stream step completed only after %s answered Ready" % last[2].cname,
                              "the grease stream's state moves on after %s on a path where that poll's result was %s: the step's bytes may still "
                              "be unwritten when the next step (finally poll_finish) runs, so the stream goes out truncated"
                              % (last[2].cname, out_ or "not examined"), "", None, p.describe())
                    last = None
        ctx.floor("C14-a", "grease stream state advances examined", n_adv, 3)
    # the "grease frame still owed" flag of a request stream is cleared only after the write it stands for has completed: the
    # write is awaited, and a caller may drop finish() while it is pending and call it again - the retry must write the frame
    # (again), not end the stream in the middle of it
    fin = ru.need(ctx, "C14-a", "h3::connection::RequestStream::finish::{closure#0}")
    if fin:
        n_fl = 0
        for p in ru.all_paths(ctx, "C14-a", fin, max_visits=1):
            st = [i for i, e in enumerate(p.events) if e[0] == "store" and pa.vfmt(e[4]).endswith(".send_grease_frame")]
            wr = [i for i, e in enumerate(p.events) if e[0] == "call" and e[2].is_call("h3::stream::write")]
            if not st or not wr:
                continue
            n_fl += 1
            polls = [i for i, e in enumerate(p.events) if e[0] == "call" and e[2].cname == "poll" and "desugar:Await" in (e[2].mac or "") and i > wr[0]]
            ok = bool(polls) and st[0] > polls[0]
            ctx.check(ok, "C14-a", fin.key, "grease flag cleared only after the grease frame's write was awaited",
                      "finish() clears send_grease_frame %s the await of the grease frame's write: when the transport takes only part of the frame and the "
                      "pending finish() is dropped, the next finish() skips the rest and ends the stream inside a frame"
                      % ("before" if polls else "without"), "", None, p.describe())
        ctx.floor("C14-a", "paths of finish() that clear the grease flag", n_fl, 1)
    # every WriteBuf is built empty, keeps the frame it was given and encodes the header exactly once
    want_calls = {"h3::proto::stream::StreamType": ["encode_stream_type"], "h3::stream::UniStreamHeader": ["encode_value"], "h3::stream::BidiStreamHeader": ["encode_value"],
                  "h3::proto::frame::Frame<B>": ["encode_frame_header"], "(h3::proto::stream::StreamType, h3::proto::frame::Frame<B>)": ["encode_value", "encode_frame_header"]}
    wbfs = prog.find(r"^<h3::stream::WriteBuf as core::convert::From<.*>>::from$")
    ctx.floor("C14-a", "From<..> for WriteBuf impls", len(wbfs), 5)
    for wbf in wbfs:
        src = wbf.id["trait_args"][0] if wbf.id.get("trait_args") else "?"
        title = "WriteBuf from %s: empty cursor, header encoded once (%s), frame kept" % (re.sub(r"[a-z0-9_]+::", "", src), "+".join(want_calls.get(src, ["?"])))
        ps = [p for p in ru.all_paths(ctx, "C14-a", wbf, max_visits=1) if p.end == "return"]
        ctx.floor("C14-a", "returning paths of %s" % wbf.key, len(ps), 1)
        for p in ps:
            calls_ = [e[2].cname for e in p.calls() if (e[2].ckey or "").startswith("h3::stream::WriteBuf::") and e[2].cname.startswith("encode_")]
            r = p.ret
            ok = r is not None and r[0] == "agg" and r[1] == "h3::stream::WriteBuf" and calls_ == want_calls.get(src)
            shown = pa.vfmt(r)[:80] if r is not None else "?"
            if ok:
                names = [f_["name"] for f_ in prog.adts[r[1]]["variants"][0]["fields"]]
                fld = dict(zip(names, r[3]))
                fr = fld.get("frame")
                want_fr = ("Some(param_1)", "Some(param_1.1)") if "Frame<B>" in src else ("None()",)
                ok = expr.fold(fld.get("len"), consts) == 0 and expr.fold(fld.get("pos"), consts) == 0 and fr is not None and pa.vfmt(fr) in want_fr
            ctx.check(ok, "C14-a", wbf.key, title, "WriteBuf::from(%s) returns %s after calling %s" % (src, shown, calls_), "", None, p.describe())
    # frames never constructed on a send path
    for var in ("Settings", "PushPromise", "CancelPush", "MaxPushId", "WebTransportStream"):
        where = sorted({b.key for b in prog.bodies for bb, s in ru.aggregates(b, FR, var)})
        allowed = {"h3::proto::frame::Frame::decode"} | ({"h3::connection::ConnectionInner::poll_control"} if var == "Settings" else set())
        ctx.check(set(where) <= allowed, "C14-a", FR + "::" + var, "constructed only by the decoder (never sent)",
                  "Frame::%s is constructed in %s" % (var, where), str(where))
    # control header once
    cs = sorted({b.key for b, bb, t in prog.callers_of("h3::connection::ConnectionInner::send_control_stream_headers")})
    ctx.check(cs == ["h3::connection::ConnectionInner::new::{closure#0}"], "C14-a", "send_control_stream_headers", "called once, from new",
              "send_control_stream_headers is called from %s" % cs, str(cs))
    sch = prog.one("h3::connection::ConnectionInner::send_control_stream_headers::{closure#0}")
    if sch:
        ps = [p for p in ru.all_paths(ctx, "C14-a", sch, max_visits=1) if p.end == "return" and p.ret_shape().startswith("Ok(")]
        for p in ps:
            w = [e for e in p.calls(WRITE)]
            ctx.check(len(w) == 1, "C14-a", sch.key, "exactly one control header written", "%d writes on an Ok path" % len(w), "")
    # ------------------------------------------------------------------ C14-b lengths
    fe = ru.need(ctx, "C14-b", "<h3::proto::frame::Frame as h3::proto::coding::Encode>::encode")
    if fe:
        ps = [p for p in ru.all_paths(ctx, "C14-b", fe) if p.end == "return"]
        rows = {}
        for p in ps:
            lab = [t[2] for t in p.tests if t[3][0] == "discr"]
            rows[lab[0] if lab else "?"] = p

        def calls_of(p):
            return [(pa.short(e[2].ckey), e[3]) for e in p.calls() if pa.short(e[2].ckey) in ("encode", "write_var", "put_slice", "simple_frame_encode", "grease")]
        for var, lenfn in (("Data", "remaining"), ("Headers", "len")):
            p = rows.get(var)
            ok = p is not None
            if ok:
                cl = calls_of(p)
                ok = len(cl) == 2 and cl[0][0] == "encode" and pa.vfmt(cl[0][1][0]).endswith("FrameType::" + var.upper()) and cl[1][0] == "write_var"
                lv = cl[1][1][1] if ok else None
                while lv is not None and lv[0] == "cast":
                    lv = lv[1]
                ok = ok and lv[0] == "call" and pa.short(lv[1]) == lenfn and "<%s>" % var in pa.vfmt(lv[2][0]) and pa.vfmt(lv[2][0]).startswith("param_1")
            ctx.check(ok, "C14-b", fe.key, "%s: type then length = %s() of the same payload" % (var, lenfn),
                      "the %s frame header is written as %s; the length field must be %s() of the frame's own payload buffer (the bytes that "
                      "follow), e.g. not the length of its first chunk" % (var, [(c, [pa.vfmt(a)[:50] for a in args]) for c, args in (calls_of(p) if p else [])], lenfn), "")
        for var, ty in (("CancelPush", "CANCEL_PUSH"), ("Goaway", "GOAWAY"), ("MaxPushId", "MAX_PUSH_ID")):
            p = rows.get(var)
            cl = calls_of(p) if p else []
            ok = len(cl) == 1 and cl[0][0] == "simple_frame_encode" and pa.vfmt(cl[0][1][0]).endswith("FrameType::" + ty) and "<%s>" % var in pa.vfmt(cl[0][1][1])
            ctx.check(ok, "C14-b", fe.key, "%s: simple_frame_encode(%s, own id)" % (var, ty), "%s is encoded as %s" % (var, [(c, [pa.vfmt(a)[:40] for a in args]) for c, args in cl]), "")
        p = rows.get("Grease")
        if p:
            cl = calls_of(p)
            def unc(v):
                while v[0] == "cast":
                    v = v[1]
                return v
            lit = [pa.vfmt(unc(args[1])) for c, args in cl if c == "put_slice"]
            ln = [expr.fold(args[1]) for c, args in cl if c == "write_var"]
            litlen = len(lit[0].strip('b"').strip('"')) if lit else None
            if lit and lit[0].startswith('b"'):
                from engine.tables import parse_bytes_literal
                bl = parse_bytes_literal(lit[0])
                litlen = len(bl) if bl is not None else litlen
            ok = len(ln) == 1 and litlen is not None and ln[0] == litlen and any(c == "grease" for c, _ in cl)
            # or: the declared length is len() of the very value that is written (a named constant payload)
            wv = [unc(args[1]) for c, args in cl if c == "write_var"]
            ps_ = [unc(args[1]) for c, args in cl if c == "put_slice"]
            if not ok and len(wv) == 1 and len(ps_) == 1 and wv[0][0] == "call" and pa.short(wv[0][1]) == "len" and wv[0][2] and unc(wv[0][2][0]) == ps_[0]:
                ok = any(c == "grease" for c, _ in cl)
                litlen = "len() of the payload constant"
            ctx.check(ok, "C14-b", fe.key, "grease frame: declared length = literal payload length (%s)" % (litlen if ok else "?"),
                      "grease frame declares length %s but writes %s" % (ln, lit), "")
        else:
            ctx.missing("C14-b", "Grease arm of Frame::encode")
    sf = ru.need(ctx, "C14-b", "h3::proto::frame::simple_frame_encode")
    if sf:
        ps = [p for p in ru.all_paths(ctx, "C14-b", sf) if p.end == "return"]
        ok = len(ps) == 1
        if ok:
            ev = [(pa.short(e[2].ckey), e[3]) for e in ps[0].calls() if pa.short(e[2].ckey) in ("encode", "write_var")]
            ok = len(ev) == 3 and ev[0][0] == "encode" and ev[0][1][0] == ("param", 1, ()) and ev[1][0] == "write_var" and ev[2][0] == "encode" and \
                ev[2][1][0] == ("param", 2, ())
            lv = ev[1][1][1] if ok else None
            while lv is not None and lv[0] == "cast":
                lv = lv[1]
            ok = ok and lv[0] == "call" and lv[1] == "h3::proto::varint::VarInt::size" and lv[2][0] == ("param", 2, ())
        ctx.check(ok, "C14-b", sf.key, "type, size() of the id, then the id", "simple_frame_encode writes %s" % ([(c, [pa.vfmt(a)[:30] for a in args]) for c, args in ev] if ps else None), "")
    se = ru.need(ctx, "C14-b", "h3::proto::frame::Settings::encode")
    sl = ru.need(ctx, "C14-b", "<h3::proto::frame::Settings as h3::proto::frame::FrameHeader>::len")
    if se and sl:
        f1, f2 = fl.Flow(se, prog), fl.Flow(sl, prog)
        r1 = [fl.fmt(f1.origin(t.args[1])) for bb, t in se.calls("core::ops::index::Index::index", "::index")]
        r2 = [fl.fmt(f2.origin(t.args[1])) for bb, t in sl.calls("core::ops::index::Index::index", "::index")]
        ok = r1 and r1 == r2 and "param_1.len" in r1[0] and "RangeTo" in r1[0]
        ctx.check(ok, "C14-b", se.key, "declared length computed over the same entries[..len] that are emitted",
                  "Settings::encode iterates %s, len() iterates %s" % (r1, r2), str(r1))
        eh = [t for bb, t in se.calls("FrameHeader::encode_header", "encode_header")]
        ctx.check(len(eh) == 1, "C14-b", se.key, "header (type + len()) written first", "encode_header calls: %d" % len(eh), "")
    # .. and each entry is accounted with the size of the very varints that are written for it: size() of from_u64(identifier) and of
    # from_u64(value), the whole 62-bit value (a narrowing cast makes the declared frame length too small for large values)
    slc = [b_ for b_ in prog.find(r"^<h3::proto::frame::Settings as h3::proto::frame::FrameHeader>::len(::\{closure#\d+\})?$")]
    nsz = 0
    for b_ in slc:
        for p in [p for p in ru.all_paths(ctx, "C14-b", b_, max_visits=1) if p.end in ("return", "stop", "loop-cut")]:
            szs = p.calls("h3::proto::varint::VarInt::size")
            if not szs:
                continue
            nsz += 1
            srcs = []
            for e in szs:
                v = e[3][0]
                while v[0] in ("okval", "proj") or (v[0] == "call" and pa.short(v[1]) in ("unwrap", "expect") and v[2]):
                    v = v[1] if v[0] in ("okval", "proj") else v[2][0]
                srcs.append(v)
            ok = len(srcs) == 2 and all(v[0] == "call" and v[1] == "h3::proto::varint::VarInt::from_u64" and v[2] and v[2][0][0] in ("param", "local", "proj") and
                                        not expr.mentions(v[2][0], lambda n: n[0] in ("cast", "binop")) for v in srcs) and srcs[0][2][0] != srcs[1][2][0]
            ctx.check(ok, "C14-b", b_.key, "each entry counts size(from_u64(id)) + size(from_u64(value)), uncast",
                      "Settings::len accounts an entry with the sizes of %s: the length declared in the frame header differs from the bytes "
                      "written for values that do not survive the conversion (the peer reads past the frame or stops short of it)"
                      % [pa.vfmt(v)[:60] for v in srcs], "", None, p.describe())
    ctx.floor("C14-b", "entry-size computations in Settings::len", nsz, 1)
    # ------------------------------------------------------------------ C14-c grease formulas
    forms = {}
    for key in ("h3::proto::frame::FrameType::grease", "h3::proto::stream::StreamType::grease", "h3::proto::frame::SettingId::grease"):
        b = ru.need(ctx, "C14-c", key)
        if not b:
            continue
        ps = [p for p in ru.all_paths(ctx, "C14-c", b) if p.end == "return"]
        mul = off = upper = None
        if len(ps) == 1 and ps[0].ret[0] == "agg":
            x = ps[0].ret[3][0]
            while x[0] == "proj":
                x = x[1]
            if x[0] == "binop" and x[1].startswith("Add"):
                off = expr.fold(x[3], consts)
                y = x[2]
                while y[0] == "proj":
                    y = y[1]
                if y[0] == "binop" and y[1].startswith("Mul"):
                    mul = expr.fold(y[3], consts)
                    r = y[2]
                    if r[0] == "call" and r[1].startswith("fastrand::") and r[2] and r[2][0][0] == "agg":
                        lo_, hi_ = expr.fold(r[2][0][3][0], consts), expr.fold(r[2][0][3][1], consts)
                        upper = hi_ if lo_ == 0 else None
        forms[key] = (mul, off, upper)
        ok = (mul, off) == (0x1f, 0x21) and upper is not None and (upper - 1) * 0x1f + 0x21 <= MAXV
        ctx.check(ok, "C14-c", key, "0x1f*N+0x21, N < %s, below 2^62" % upper,
                  "%s computes multiplier %s offset %s range < %s: reserved identifiers must have the form 0x1f*N+0x21 and fit a varint" % (key, mul, off, upper), str((mul, off, upper)))
    ctx.check(len(set(forms.values())) == 1 and len(forms) == 3, "C14-c", "grease()", "the three generators agree", "formulas: %s" % forms, "")
    h2 = [k for k in consts if k.startswith("h3::proto::frame::FrameType::H2_")]
    users = []
    for b in prog.bodies:
        if b.key in ("h3::proto::frame::Frame::decode",) or "fmt" in b.key:
            continue
        for bb, t in b.all_terms():
            for a in (t.args if t.t == "call" else []):
                if a.named in h2:
                    users.append(b.key)
        for bb, i, s in b.all_stmts():
            if s.s == "assign":
                for o in s.rv.ops:
                    if o.named in h2:
                        users.append(b.key)
    users = [u for u in users if not u.startswith("h3::proto::frame::FrameType::")]
    ctx.check(len(h2) == 4 and not users, "C14-c", "H2-reserved frame types", "referenced only by the decoder's refusal arm",
              "HTTP/2-reserved frame types %s are used in %s" % (h2, sorted(set(users))), str(h2))
    # ------------------------------------------------------------------ C14-d buffer bound
    wb = consts.get("h3::stream::WRITE_BUF_ENCODE_SIZE")
    # Frame header bound: type (<= 8) + length (<= 8) + id (<= 8) ; grease: 8 + 1 + 6
    bounds = {"Frame<B>": 8 + 8 + 8, "(StreamType, Frame<B>)": 8 + 8 + 8 + 8, "StreamType": 8,
              "UniStreamHeader::WebTransportUni/BidiStreamHeader": vsize(0x54) + 8, "UniStreamHeader::Encoder/Decoder": 1}
    for k, v in bounds.items():
        ctx.check(wb is not None and v <= wb, "C14-d", "h3::stream::WRITE_BUF_ENCODE_SIZE", "%s header (<= %d bytes) fits" % (k, v),
                  "worst-case %s header is %d bytes, buffer is %s" % (k, v, wb), "%d <= %s" % (v, wb))
    srcs = sorted(i["trait_args"][0] for i in prog.impls if i.get("self_adt") == "h3::stream::WriteBuf" and i["trait"] == "core::convert::From")
    want = sorted(["(h3::proto::stream::StreamType, h3::proto::frame::Frame<B>)", "h3::proto::frame::Frame<B>", "h3::proto::stream::StreamType",
                   "h3::stream::BidiStreamHeader", "h3::stream::UniStreamHeader"])
    ctx.check(srcs == want, "C14-d", "impl From<..> for WriteBuf", "every source of a WriteBuf is bounded above",
              "WriteBuf can be built from %s; bounded sources are %s (the control header is bounded under C13-b)" % (srcs, want), str(srcs))
    # ------------------------------------------------------------------ C14-e cursors
    shared.header_payload_cursor(ctx, "C14-e", "<h3::stream::WriteBuf as bytes::buf::buf_impl::Buf>::", "buf")
    shared.header_payload_cursor(ctx, "C14-e", "<h3_datagram::datagram::EncodedDatagram as bytes::buf::buf_impl::Buf>::", "stream_id")
    # the GOAWAY identifiers h3 writes never increase (RFC 9114 5.2): the monotone-send clause of C08-a runs under this property too
    if not getattr(ctx, "nested", False):
        from rules import C08 as _c08
        _c08.run(shared.Proxy(ctx, ("C08-a",), "C14-b"))
    ctx.assume("BufMut writers into the fixed header buffer advance by what they write (bytes crate)")
