"""C07 Faults confined to one request never harm the connection or other requests."""
from engine import flow as fl, ru, paths as pa, expr, dispatch as dp
from rules import shared, C17 as _c17

EXPLANATION = (
    "Outcome tables and type facts: (a) CloseStream::handle_quic_stream_error maps a peer reset/stop "
    "(StreamTerminated) to StreamError::RemoteTerminate carrying the peer's code by pure flow and Unknown to Undefined, and "
    "touches the connection-error cell only for ConnectionErrorIncoming; the malformed-message arms of "
    "ResolvedRequest::resolve, recv_response and poll_recv_trailers yield a stream-level H3_MESSAGE_ERROR, stop/reset "
    "the stream and make no connection-fatal call; header-too-big and FIN-before-HEADERS arms likewise (shared with "
    "C10-d / C03); (b) the transport's stream errors are never turned into a clean end of stream: the buffered reader "
    "sets its end-of-stream flag only when the transport returned Ok(None) and propagates every Err unchanged, so a "
    "reset in the middle of a frame stays a stream-level error instead of becoming a connection-level H3_FRAME_ERROR; "
    "(c) the per-request handle types share nothing but Arc<SharedState>, the server's Arc<RequestEnd> and its sender "
    "(no Arc/Rc/Mutex/RefCell/static/channel otherwise) and SharedState's fields are exactly the four audited cells. "
    "That concurrent healthy requests deliver their own bytes is value-level; per-stream state isolation is the "
    "structural part decided here.")
# every anchor of these rules lives in the h3 crate: thorough tier repeats them on the feature-less build
EXTRA_CONFIGS = ["h3-plain"]
RULES = "C07-a stream-scoped faults are not connection-fatal (A3), no code holding a StreamErrorIncoming on a per-request handle raises a connection error (A10, type-directed); C07-b stream errors never become clean EOF (A3); C07-c nothing but the shared state is shared (A12); shared: frame reader memo under C07-b; shared through a proxy: C12-a under C07-a, C17-b (poll_ready) under C07-b"

CEC = "h3::error::connection_error_creators::"
FATAL = ("handle_connection_error_on_stream", "handle_connection_error", "set_conn_error_and_wake", "set_conn_error")


def fatal_in(prog, p):
    return bool(p.calls(*FATAL)) or bool(pa.closure_calls(prog, p, *FATAL))


def returned_codes(prog, p):
    """Code constants inside the error value the path RETURNS (not those handed to stop_sending / reset on the way): read off the
    returned value, and off what the adapter closure that certainly ran on the path (`.map_err(|e| StreamError{..})`) returns."""
    import re
    out = set(re.findall(r"Code::([A-Z0-9_]+)", pa.vfmt(p.ret) if p.ret is not None else ""))
    for ck, st, _ in p.adapter_closures():
        if st != "yes" or ck not in pa.vfmt(p.ret):
            continue
        for c in prog.by_key.get(ck, []):
            try:
                for q in pa.Explorer(prog, c, max_visits=1).paths():
                    if q.end == "return" and q.ret is not None:
                        out |= set(re.findall(r"Code::([A-Z0-9_]+)", pa.vfmt(q.ret)))
            except pa.PathExplosion:
                out.add("?")
    return out


def run(ctx):
    # the codes this property names are the registry values (the rules below speak of them by name)
    shared.error_code_values(ctx, "C07-a", ("H3_MESSAGE_ERROR",))
    # a well-formed stream must never be reported as malformed: the frame reader's memo (shared with C02) is what turns a
    # correct byte sequence delivered in pieces into H3_FRAME_ERROR when it goes stale
    shared.frame_decoder_memo(ctx, "C07-b")
    if "h3_quinn" in ctx.prog.crates:        # (the feature-less h3-only configuration has no adapter)
        _c17.errors_not_swallowed(ctx, "C07-b")
    shared.bufrecv_poll_data(ctx, "C07-b")
    prog = ctx.prog
    # ------------------------------------------------------------------ C07-a handle_quic_stream_error
    h = ru.need(ctx, "C07-a", CEC + "CloseStream::handle_quic_stream_error")
    if h:
        rows = {}
        for p in [p for p in ru.all_paths(ctx, "C07-a", h) if p.end == "return"]:
            labs = [t[2] for t in p.tests if t[3][0] == "discr" and t[3][1] == ("param", 2, ())]
            rows.setdefault(labs[0] if labs else "?", []).append(p)
        st = rows.get("StreamTerminated", [])
        ok = len(st) == 1 and st[0].ret_shape() == "StreamError::RemoteTerminate" and not fatal_in(prog, st[0])
        code = st[0].ret[3][0] if ok and st[0].ret[0] == "agg" and st[0].ret[3] else None
        # Code::from(error_code): as a call, or (the conversion being a plain newtype wrapper) as the wrapped value itself
        if code is not None and code[0] == "agg" and code[1].endswith("codes::Code") and code[3]:
            inner_ = code[3][0]
            ok = ok and inner_[0] == "param" and "error_code" in "".join(inner_[2])
        else:
            ok = ok and code is not None and code[0] == "call" and "From<u64>>::from" in code[1] and \
                code[2][0][0] == "param" and "error_code" in "".join(code[2][0][2])
        ctx.check(ok, "C07-a", h.key, "peer reset/stop -> RemoteTerminate{peer's code}, connection untouched",
                  "StreamTerminated leads to %s (code %s, fatal=%s); a peer resetting one request must surface as a stream-level error "
                  "carrying the peer's code" % ([p.ret_shape() for p in st], pa.vfmt(code) if code else None, [fatal_in(prog, p) for p in st]), "")
        un = rows.get("Unknown", [])
        ctx.check(len(un) == 1 and un[0].ret_shape() == "StreamError::Undefined" and not fatal_in(prog, un[0]), "C07-a", h.key,
                  "transport-specific stream error -> Undefined, connection untouched", "Unknown leads to %s" % [p.ret_shape() for p in un], "")
        ce = rows.get("ConnectionErrorIncoming", [])
        ctx.check(len(ce) == 1 and ce[0].ret_shape().startswith("StreamError::ConnectionError") and ce[0].has_call("set_conn_error_and_wake", "set_conn_error"), "C07-a",
                  h.key, "only a connection-level transport error touches the cell", "ConnectionErrorIncoming leads to %s" % [p.ret_shape() for p in ce], "")
        ctx.check(set(rows) == {"StreamTerminated", "Unknown", "ConnectionErrorIncoming"}, "C07-a", h.key, "all variants tabled", "variants: %s" % sorted(rows), "")
    b = ru.need(ctx, "C07-a", "<h3::error::codes::Code as core::convert::From<u64>>::from")
    if b:
        o = ru.ret(prog, b)
        ctx.check(fl.is_rewrap(o), "C07-a", b.key, "peer's code preserved", "Code::from(u64) builds %s" % fl.fmt(o), fl.fmt(o))
    # malformed request (server)
    rs = ru.need(ctx, "C07-a", "h3::server::request::ResolvedRequest::resolve::{closure#0}")
    if rs:
        ps = [p for p in ru.all_paths(ctx, "C07-a", rs, max_visits=1) if p.end == "return"]
        mal = [p for p in ps if p.ret_shape() == "Err(StreamError::StreamError)"]
        ctx.floor("C07-a", "malformed-request returns", len(mal), 1)
        for p in mal:
            codes = {c for u, c in p.code_uses()} | set()
            cval = pa.vfmt(p.ret)
            ok = not fatal_in(prog, p) and p.has_call("stop_stream") and p.has_call("stop_sending") and "H3_MESSAGE_ERROR" in cval
            ctx.check(ok, "C07-a", rs.key, "malformed request -> stream error H3_MESSAGE_ERROR, stream stopped, not fatal",
                      "a malformed request leads to %s fatal=%s stop_stream=%s stop_sending=%s" % (cval[:80], fatal_in(prog, p), p.has_call("stop_stream"),
                                                                                                     p.has_call("stop_sending")), "", None, p.describe())
        good = [p for p in ps if p.ret_shape().startswith("Ok(")]
        ctx.check(bool(good) and all(p.has_call("into_request_parts") and p.has_call("try_from") for p in good), "C07-a", rs.key,
                  "Ok only through the validators (C12)", "an Ok path skips Header::try_from / into_request_parts", "")
    cr = ru.need(ctx, "C07-a", "h3::client::stream::RequestStream::recv_response::{closure#0}")
    if cr:
        ps = [p for p in ru.all_paths(ctx, "C07-a", cr, max_visits=1) if p.end == "return"]
        # a path on which one of the message validators answered Err (however that result was taken apart)
        mal = [p for p in ps if p.outcomes("::try_from")[-1:] == ["Err"] or p.outcomes("into_response_parts")[-1:] == ["Err"]]
        ctx.floor("C07-a", "malformed-response returns", len(mal), 2)
        for p in mal:
            codes = pa.path_codes(prog, p)
            cc = pa.closure_calls(prog, p, "stop_sending") or p.calls("stop_sending")
            rc = returned_codes(prog, p)
            ok = not fatal_in(prog, p) and "H3_MESSAGE_ERROR" in codes and bool(cc) and rc == {"H3_MESSAGE_ERROR"}
            ctx.check(ok, "C07-a", cr.key, "malformed response -> stream error H3_MESSAGE_ERROR, stop_sending, not fatal",
                      "a malformed response leads to codes %s, the returned error carries %s, fatal=%s stop_sending=%s"
                      % (sorted(codes), sorted(rc), fatal_in(prog, p), bool(cc)), "", None, p.describe())
    tr = ru.need(ctx, "C07-a", "h3::connection::RequestStream::poll_recv_trailers")
    if tr:
        ps = [p for p in ru.all_paths(ctx, "C07-a", tr, max_visits=1) if p.end == "return"]
        mal = [p for p in ps if p.outcomes("decoder::decode_stateless")[-1:] == ["Ok"] and p.outcomes("::try_from")[-1:] == ["Err"]]
        ctx.floor("C07-a", "malformed-trailers returns", len(mal), 1)
        for p in mal:
            codes = pa.path_codes(prog, p)
            rc = returned_codes(prog, p)
            ok = not fatal_in(prog, p) and "H3_MESSAGE_ERROR" in codes and rc == {"H3_MESSAGE_ERROR"}
            ctx.check(ok, "C07-a", tr.key, "malformed trailers -> stream error H3_MESSAGE_ERROR, not fatal",
                      "validly encoded but malformed trailers lead to codes %s (returned error: %s), connection-fatal call: %s; a malformed "
                      "message must be refused on that stream only" % (sorted(codes), sorted(rc), fatal_in(prog, p)), "", None, p.describe())

    # a failure of the transport on ONE stream (reset, STOP_SENDING, a write that is refused) has the type StreamErrorIncoming; code
    # that holds such a value hands it to CloseStream::handle_quic_stream_error (tabled above) and never raises a connection error
    # itself: (1) no closure / function taking a StreamErrorIncoming calls a connection-fatal function, (2) no path that found a
    # Result<_, StreamErrorIncoming> to be Err goes on to one
    SEI = "h3::quic::StreamErrorIncoming"
    nsei = 0
    for b in prog.bodies:
        # (the control, QPACK and grease streams are the connection's own: losing one of them IS a connection error; this clause is
        # about the per-request handles)
        if not b.key.startswith(("h3::connection::RequestStream::", "h3::client::stream::", "h3::server::stream::", "h3::server::request::",
                                 "h3::client::connection::SendRequest::", "<h3::client::stream::", "<h3::server::stream::")) or b.name == "fmt":
            continue
        fat = [t for _, t in b.calls(*FATAL)]
        if not fat:
            continue
        takes = [i for i in range(1, b.arg_count + 1) if SEI in b.local_ty(i) and "Result<" not in b.local_ty(i)]
        nsei += 1
        ctx.check(not takes, "C07-a", b.key, "a transport error on one stream is never raised as a connection error",
                  "%s receives a %s and calls %s: a fault of one request stream (peer reset, STOP_SENDING, refused write) closes the whole "
                  "connection and fails every other request" % (b.key, SEI, pa.short(fat[0].ckey or "?")), "")
        try:
            ps = pa.Explorer(prog, b, max_visits=1).paths()
        except pa.PathExplosion:
            continue
        for p in ps:
            fc = [i for i, e in enumerate(p.events) if e[0] == "call" and e[2].is_call(*FATAL)]
            if not fc:
                continue
            dest_ty = {e[1]: (b.local_ty(e[2].dest.local) if e[2].dest.is_local() else "") for e in p.events if e[0] == "call"}
            bad = []
            for t in p.tests:
                if t[3][0] != "discr" or t[2] not in ("Err", "Break"):
                    continue
                root, names = dp.root_of(t[3])
                if root and root[0] == "call" and SEI in dest_ty.get(root[2], "") and not any(n.startswith("<Err>") for n in names):
                    bad.append(pa.short(root[1]))
            ctx.check(not bad, "C07-a", b.key, "a transport error on one stream is never raised as a connection error",
                      "%s calls a connection-fatal function on a path on which the stream operation %s had failed with a %s: a fault of one "
                      "request stream closes the whole connection" % (b.key, bad[:1], SEI), "", None, p.describe())
    ctx.floor("C07-a", "per-request functions that raise connection errors examined for transport-error inputs", nsei, 8)

    # ------------------------------------------------------------------ C07-b errors never become clean EOF
    for key, cal in (("h3::stream::BufRecvStream::poll_read", "h3::quic::RecvStream::poll_data"),
                     ("<h3::stream::BufRecvStream as h3::quic::RecvStream>::poll_data", "h3::quic::RecvStream::poll_data")):
        b = ru.need(ctx, "C07-b", key)
        if not b:
            continue
        ps = [p for p in ru.all_paths(ctx, "C07-b", b) if p.end == "return"]
        n = 0
        for p in ps:
            cls = dp.classify(p, lambda r: r[0] == "call" and r[1] == cal)
            if not cls:
                continue
            n += 1
            eos = [e for e in p.stores() if pa.vfmt(e[4]).endswith(".eos")]
            fc = dp.frame_class(cls)   # Pending | Err[:v] | None | Some:* - whether the result was taken apart by `?` or by an explicit match
            poll, res = ("Pending", None) if fc == "Pending" else ("Ready", fc)
            is_err = p.ret_shape().startswith(("Residual", "Ready(Err("))
            if eos:
                ok = res == "None" and not is_err
                ctx.check(ok, "C07-b", key, "end-of-stream flag set only when the transport returned Ok(None)",
                          "the reader marks the stream as cleanly finished on a path where the transport's result was %s/%s: a RESET (or any "
                          "stream error) would be treated as a clean end of stream, and a reset in the middle of a frame would then be "
                          "reported as a truncated frame - a connection error H3_FRAME_ERROR that kills every other request"
                          % (poll, res), "", None, p.describe())
            if is_err:
                same = isinstance(p.ret, tuple) and (p.ret[0] == "errconv" or (str(res).startswith("Err") and "<Err>.0" in pa.vfmt(p.ret) and cal.rsplit("::", 1)[-1] in pa.vfmt(p.ret)))
                ctx.check(not eos and same, "C07-b", key, "transport errors propagated unchanged",
                          "an error path also sets eos, or returns something other than the transport's error: %s" % pa.vfmt(p.ret)[:120], "")
            if p.ret_shape() in ("Ready(Ok(true))", "Ready(Ok(None))"):
                ctx.check(res == "None", "C07-b", key, "`finished` reported only on Ok(None)",
                          "the reader reports a clean finish (%s) on transport result %s/%s" % (p.ret_shape(), poll, res), "", None, p.describe())
        ctx.floor("C07-b", "classified paths of " + key.rsplit("::", 1)[-1], n, 3)
        errp = [p for p in ps if p.ret_shape().startswith(("Residual", "Ready(Err("))]
        ctx.check(len(errp) >= 1, "C07-b", key, "an error path exists (errors are not swallowed)",
                  "%s has no path propagating the transport's error" % key, "")
    fs = ru.need(ctx, "C07-b", "h3::frame::FrameStream::try_recv")
    if fs:
        ps = [p for p in ru.all_paths(ctx, "C07-b", fs) if p.end == "return"]
        rows = {}
        for p in ps:
            cls = dp.classify(p, lambda r: r[0] == "call" and r[1].endswith("BufRecvStream::poll_read"))
            if cls:
                lab = cls.get(())
                if lab == "Ready":
                    lab = "Ready:" + str(cls.get(("Ready",)))
                rows.setdefault(lab, []).append(p)
        # (every path of a row: an extra arm for one kind of error - `Err(StreamTerminated) if buffered => Ok(false)` - is a row member)
        ok = bool(rows.get("Ready:Err")) and all(p.ret_shape() == "Ready(Err(FrameStreamError::Quic))" for p in rows["Ready:Err"]) and \
            bool(rows.get("Ready:Ok")) and all(p.ret_shape().startswith("Ready(Ok(") for p in rows["Ready:Ok"]) and \
            bool(rows.get("Pending")) and all(p.ret_shape() == "Pending" for p in rows["Pending"])
        rows = {k: v[-1] for k, v in rows.items()} if ok else {k: v[0] if len({p.ret_shape() for p in v}) == 1 else v for k, v in rows.items()}
        comb = [p for p in ps if p.has_call("BufRecvStream::poll_read")]
        if not ok and len(comb) == 1 and not rows:
            ps = comb
            # combinator form: `self.stream.poll_read(cx).map_err(FrameStreamError::Quic)` - Pending and Ready(Ok) pass through by construction
            r_ = ps[0].ret
            ok = r_ is not None and r_[0] == "call" and pa.short(r_[1]) == "map_err" and "Poll" in r_[1] and len(r_[2]) == 2 and \
                r_[2][0][0] == "call" and r_[2][0][1].endswith("BufRecvStream::poll_read") and r_[2][1][0] == "fn" and r_[2][1][1].endswith("FrameStreamError::Quic")
        if not ok:
            # form-agnostic reading (`ready!(..).map_err(FrameStreamError::Quic)?`, `?` on the Poll, ..): every path is classified by what
            # it learnt about poll_read; the error path must return the transport's error wrapped in Quic, the others pass through
            def quic_err(p):
                sh = p.ret_shape()
                if sh in ("Ready(Err(FrameStreamError::Quic))", "Err(FrameStreamError::Quic)"):
                    return True
                r_ = p.ret
                if r_ is not None and r_[0] == "errconv":
                    r_ = r_[1]
                return r_ is not None and r_[0] == "call" and pa.short(r_[1]) == "map_err" and len(r_[2]) == 2 and r_[2][1][0] == "fn" and \
                    r_[2][1][1].endswith("FrameStreamError::Quic") and (pa.head_call(r_[2][0])[0] or "").endswith("BufRecvStream::poll_read")
            seen = {}
            good = True
            for p in ps:
                if not p.has_call("BufRecvStream::poll_read"):
                    continue
                oc_ = p.outcomes("BufRecvStream::poll_read")
                oc = "Err" if "Err" in oc_ else "Pending" if "Pending" in oc_ else "Ok" if ("Ok" in oc_ and "Ready" in oc_) else "?"
                seen.setdefault(oc, set()).add(p.ret_shape())
                if oc == "Err":
                    good &= quic_err(p)
                elif oc == "Ok":
                    good &= p.ret_shape().startswith("Ready(Ok(")
                elif oc == "Pending":
                    good &= p.ret_shape() == "Pending"
                else:
                    good = False
            ok = good and set(seen) == {"Err", "Ok", "Pending"}
            rows = rows or seen
        ctx.check(ok, "C07-b", fs.key, "stream error -> FrameStreamError::Quic(e), never `end`",
                  "try_recv rows: %s" % {k: (v.ret_shape() if hasattr(v, "ret_shape") else [p.ret_shape() for p in v] if isinstance(v, list) else v) for k, v in rows.items()}, "")

    # ------------------------------------------------------------------ C07-c type facts
    handles = ["h3::connection::RequestStream", "h3::client::stream::RequestStream", "h3::server::stream::RequestStream", "h3::frame::FrameStream",
               "h3::stream::BufRecvStream", "h3::server::request::RequestResolver", "h3::server::request::ResolvedRequest", "h3::frame::FrameDecoder",
               "h3::buf::BufList"]
    SHARED_OK = {"h3::shared_state::SharedState": "the connection's shared state (C05)", "h3::server::connection::RequestEnd": "the drop guard (C09)"}
    BAD = ("alloc::sync::Arc", "alloc::rc::Rc", "std::sync::poison::mutex::Mutex", "std::sync::poison::rwlock::RwLock", "core::cell::RefCell", "core::cell::Cell",
           "tokio::sync::mpsc", "std::sync::mpsc", "core::sync::atomic", "tokio::sync::mutex", "std::sync::once_lock::OnceLock")
    for adt in handles:
        a = prog.adts.get(adt)
        if not a:
            ctx.missing("C07-c", adt)
            continue
        for v in a["variants"]:
            for f_ in v["fields"]:
                ty = f_["ty"]
                shared_ = [x for x in BAD if x in ty]
                if not shared_:
                    ctx.ok("C07-c", "%s.%s:no shared mutable state" % (adt, f_["name"]), ty[:80])
                    continue
                okv = (ty == "alloc::sync::Arc<h3::shared_state::SharedState>" or ty == "alloc::sync::Arc<h3::server::connection::RequestEnd>")
                ctx.check(okv, "C07-c", adt, "field %s shares only the audited state" % f_["name"],
                          "%s.%s has type %s: per-request handles may share nothing but Arc<SharedState> and the server's Arc<RequestEnd>; any "
                          "other shared mutable state lets a fault on one request reach the others" % (adt, f_["name"], ty), ty)
    st = [b.key for b in prog.bodies if b.kind.startswith("Static")]
    ctx.check(all("tracing" in k or "CALLSITE" in k or "__" in k for k in st), "C07-c", "statics", "no mutable statics in the library crates",
              "static items: %s" % st, str(st)[:200])
    ctx.assume("the QUIC transport keeps streams independent")
    # a malformed message must be refused, never crash the endpoint: the field gate (C12-a, incl. the emptiness test before name[0])
    if not getattr(ctx, "nested", False):
        from rules import C12 as _c12
        _c12.run(shared.Proxy(ctx, ("C12-a",), "C07-a"))
        # a write refused by the peer (STOP_SENDING / reset) must stay that stream's problem: the adapter drops the buffer of a failed write (C17-b)
        _c17.run(shared.Proxy(ctx, ("C17-b",), "C07-b", only=("poll_ready",)))
