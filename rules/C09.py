"""C09 Shutdown drains: accept() ends exactly when all accepted requests have."""
from engine import flow as fl, ru, paths as pa, expr, dispatch as dp

EXPLANATION = (
    "Type/ownership facts, who-may-call and path rules: (a) the drop-guards are discovered (types whose Drop sends on the "
    "request-end channel); every handle type the server hands to the application after recording a request as ongoing "
    "(RequestResolver, ResolvedRequest, server::RequestStream) transitively owns a guard, and the guard a resolver gets "
    "is built with the request stream's own send_id() and a clone of the connection's sender - so completion, reset, "
    "malformed headers, FIN before HEADERS and a plain drop all report the end by construction; (b) the guard is shared "
    "(Arc, guard type not Clone) and split() puts the same Arc in both halves; (c) accept reports `no more requests` "
    "only on paths where poll_requests_completion() was Ready, which happens only with ongoing_streams empty or the "
    "channel closed; poll_requests_completion returns Pending only after the channel itself answered Pending (so every "
    "queued end was drained and the waker is registered); ongoing_streams is decremented only by an id received from the "
    "channel whose only sender is the guard's Drop; every stream returned was inserted first.")
# every anchor of these rules lives in the h3 crate: thorough tier repeats them on the feature-less build
EXTRA_CONFIGS = ["h3-plain"]
RULES = "C09-a guard tied to every handle (A12/A10/A4); C09-b shared by both halves (A4/A12); C09-c completion gating and draining (A2/A3/A7/A10), recv_closing read only after this poll's control-stream processing (A2); shared through a proxy: C04-b (poll_accept_recv), the Goaway rows of C04-a and C08-d (process_goaway) under C09-c"

SV = "h3::server::connection::Connection::"
SEND = "tokio::sync::mpsc::unbounded::UnboundedSender::send"


def owns(prog, adt, targets, seen=None):
    """Does the ADT (transitively through field types) own one of the target ADTs?"""
    seen = seen if seen is not None else set()
    if adt in targets:
        return True
    if adt in seen:
        return False
    seen.add(adt)
    a = prog.adts.get(adt)
    if not a:
        return False
    for v in a["variants"]:
        for f in v["fields"]:
            for x in f["adts"]:
                if x in targets or owns(prog, x, targets, seen):
                    return True
    return False


def run(ctx):
    prog = ctx.prog
    # ------------------------------------------------------------------ guards
    guards = set()
    for b in prog.find(r" as core::ops::drop::Drop>::drop$"):
        if list(b.calls(SEND)) and b.self_adt:
            guards.add(b.self_adt)
    ctx.check(guards == {"h3::server::connection::RequestEnd"}, "C09-a", "drop guards", "discovered guard types",
              "types whose Drop sends on the request-end channel: %s" % sorted(guards), str(sorted(guards)))
    senders = sorted({b.key for b, bb, t in prog.callers_of(SEND)})
    ctx.check(senders == ["<h3::server::connection::RequestEnd as core::ops::drop::Drop>::drop"], "C09-c", SEND, "only the guard's Drop sends",
              "request-end notifications are sent from %s" % senders, str(senders))
    g = prog.one("<h3::server::connection::RequestEnd as core::ops::drop::Drop>::drop")
    if g:
        f = fl.Flow(g, prog)
        for bb, t in g.calls(SEND):
            o0, o1 = f.origin(t.args[0]), f.origin(t.args[1])
            ctx.check(o0 == ("param", 1, ("request_end",)) and o1 == ("param", 1, ("stream_id",)), "C09-a", g.key, "sends its own stream id on its own sender",
                      "the guard sends %s on %s" % (fl.fmt(o1), fl.fmt(o0)), "")
        # unconditional: every path through drop passes the send
        ps = [p for p in ru.all_paths(ctx, "C09-a", g) if p.end == "return"]
        ctx.check(bool(ps) and all(p.has_call(SEND) for p in ps), "C09-a", g.key, "notification on every path of drop",
                  "a path through RequestEnd::drop does not send the notification", "")
    for adt in ("h3::server::request::RequestResolver", "h3::server::request::ResolvedRequest", "h3::server::stream::RequestStream"):
        ctx.check(adt in prog.adts and owns(prog, adt, guards), "C09-a", adt, "owns a request-end guard",
                  "%s does not (transitively) own a drop-guard that reports the end of the request: a request that ends while only this "
                  "handle exists (e.g. FIN before HEADERS, handle dropped before resolution) is never reported finished and accept() "
                  "waits for ever after the peer's GOAWAY" % adt, "owns %s" % sorted(guards))
    # what accept() hands out
    acc = ru.need(ctx, "C09-a", SV + "accept::{closure#0}")
    if acc:
        rt = acc.local_ty(0)
        ctx.check("h3::server::request::RequestResolver" in rt, "C09-a", acc.key, "accept hands out a RequestResolver",
                  "accept returns %s" % rt, rt[:120])
        ps = [p for p in ru.all_paths(ctx, "C09-a", acc, max_visits=1) if p.end == "return" and p.ret_shape().startswith("Ok(Some(")]
        ctx.floor("C09-a", "paths of accept that hand out a request", len(ps), 1)
        for p in ps:
            ctx.check(p.has_call(SV + "create_resolver_internal") and "create_resolver" in p.ret_shape(), "C09-a", acc.key, "the handle comes from create_resolver",
                      "accept returns %s" % p.ret_shape(), "")
    cr = ru.need(ctx, "C09-a", SV + "create_resolver_internal")
    if cr:
        f = fl.Flow(cr, prog)
        ag = ru.aggregates(cr, "h3::server::connection::RequestEnd")
        ctx.check(len(ag) == 1, "C09-a", cr.key, "the guard is created with the resolver",
                  "create_resolver builds %d RequestEnd guards: the guard must exist from the moment the request is handed out" % len(ag), "")
        for bb, s in ag:
            sid = f.origin(ru.field_op(s, "stream_id"))
            ok = sid[0] == "call" and pa.short(sid[1]) == "send_id" and sid[2] and sid[2][0] == ("param", 2, ())
            ctx.check(ok, "C09-a", cr.key, "guard reports the request stream's own id", "guard stream_id is %s" % fl.fmt(sid), "")
            snd = f.origin(ru.field_op(s, "request_end"))
            ctx.check(snd == ("param", 1, ("request_end_send",)), "C09-a", cr.key, "guard sends to this connection's channel",
                      "guard sender is %s" % fl.fmt(snd), "")
        rr = ru.aggregates(cr, "h3::server::request::RequestResolver")
        for bb, s in rr:
            o = f.origin(ru.field_op(s, "request_end"))
            ctx.check(ru.o_has_call(o, "alloc::sync::Arc::new") or "Arc" in fl.fmt(o), "C09-a", cr.key, "resolver holds the guard",
                      "RequestResolver.request_end is %s" % fl.fmt(o), "")
            fs = f.origin(ru.field_op(s, "frame_stream"))
            ctx.check(fs == ("param", 2, ()), "C09-a", cr.key, "resolver wraps the same stream", "frame_stream is %s" % fl.fmt(fs), "")
    # the guard moves from the resolver into the request stream
    aw = ru.need(ctx, "C09-a", "h3::server::request::RequestResolver::accept_with_frame")
    if aw:
        f = fl.Flow(aw, prog)
        for bb, s in ru.aggregates(aw, "h3::server::stream::RequestStream"):
            o = f.origin(ru.field_op(s, "request_end"))
            ctx.check(o == ("param", 1, ("request_end",)), "C09-a", aw.key, "request stream inherits the resolver's guard",
                      "the RequestStream's guard is %s instead of the resolver's own: the request would be reported finished twice or never"
                      % fl.fmt(o), fl.fmt(o))
        ctx.check(not ru.aggregates(aw, "h3::server::connection::RequestEnd"), "C09-a", aw.key, "no second guard created",
                  "accept_with_frame creates another RequestEnd guard", "")
    others = [b.key for b in prog.bodies for _ in ru.aggregates(b, "h3::server::connection::RequestEnd")]
    ctx.check(others == [SV + "create_resolver_internal"], "C09-a", "h3::server::connection::RequestEnd", "guards are created only in create_resolver",
              "RequestEnd is constructed in %s" % others, str(others))

    # ------------------------------------------------------------------ C09-b
    rs = prog.adts.get("h3::server::stream::RequestStream")
    if rs:
        ft = {f_["name"]: f_["ty"] for f_ in rs["variants"][0]["fields"]}
        ctx.check(ft.get("request_end") == "alloc::sync::Arc<h3::server::connection::RequestEnd>", "C09-b", "h3::server::stream::RequestStream.request_end",
                  "guard is shared through an Arc", "request_end has type %s: both halves of a split request must share ONE guard so the end is "
                  "reported when the last half is dropped" % ft.get("request_end"), ft.get("request_end"))
    cl = [i for i in prog.impls if i.get("self_adt") == "h3::server::connection::RequestEnd" and i["trait"] == "core::clone::Clone"]
    ctx.check(not cl, "C09-b", "h3::server::connection::RequestEnd", "guard type is not Clone",
              "RequestEnd implements Clone: a cloned guard reports the end of the request once per clone", "")
    sp = ru.need(ctx, "C09-b", "h3::server::stream::RequestStream::split")
    if sp:
        f = fl.Flow(sp, prog)
        halves = ru.aggregates(sp, "h3::server::stream::RequestStream")
        ctx.check(len(halves) == 2, "C09-b", sp.key, "two halves", "split builds %d RequestStreams" % len(halves), "")
        # flow.origin treats clone() as transparent: both must be self.request_end, and exactly one Arc::clone call exists
        os_ = [f.origin(ru.field_op(s, "request_end")) for bb, s in halves]
        clones = [t for bb, t in sp.calls("core::clone::Clone::clone", "::clone") if "Arc" in (t.recv_ty or t.ckey or "")]
        ctx.check(all(o == ("param", 1, ("request_end",)) for o in os_) and len(clones) == 1, "C09-b", sp.key, "both halves hold the same Arc (one Arc::clone)",
                  "split gives the halves guards %s (Arc clones: %d)" % ([fl.fmt(o) for o in os_], len(clones)), "")

    # ------------------------------------------------------------------ C09-c
    ac = ru.need(ctx, "C09-c", SV + "poll_accept_request_stream_internal")
    if ac:
        ps = [p for p in ru.all_paths(ctx, "C09-c", ac, max_visits=2) if p.end == "return"]
        nones = [p for p in ps if p.ret_shape() == "Ready(Ok(None))"]
        ctx.floor("C09-c", "`no more requests` returns", len(nones), 2)
        # the peer's GOAWAY is recorded by this poll's control-stream processing (poll_control -> process_goaway writes recv_closing):
        # the drain decision must look at recv_closing AFTER that call, or the poll that reads the GOAWAY answers Pending with
        # nothing left to wake it (a read hoisted above the call is stale by one poll)
        rblocks = set()
        for bb_, i_, st in ac.all_stmts():
            if st.s != "assign":
                continue
            pls = ([st.rv.place] if st.rv.place is not None else []) + [o.place for o in st.rv.ops if o.place is not None]
            if any("recv_closing" in pl.fields() for pl in pls):       # (through `self` or a reborrow of it in an expanded helper)
                rblocks.add(bb_)
        for bb_, t in ac.all_terms():
            if t.t == "call" and any(a.place is not None and "recv_closing" in a.place.fields() for a in t.args):
                rblocks.add(bb_)
        cblocks = {bb_ for bb_, t in ac.calls(SV + "poll_control")}
        ctx.floor("C09-c", "reads of recv_closing in the accept poll", len(rblocks), 1)
        ctx.floor("C09-c", "control-stream processing in the accept poll", len(cblocks), 1)
        stale = None
        for p in ps:
            ri = [i for i, bb_ in enumerate(p.blocks) if bb_ in rblocks]
            ci = [i for i, bb_ in enumerate(p.blocks) if bb_ in cblocks]
            if ri and ci and min(ri) <= max(ci):
                stale = p
                break
        ctx.check(stale is None, "C09-c", ac.key, "recv_closing is read after this poll's control-stream processing",
                  "poll_accept_request_stream_internal reads recv_closing before (a later) poll_control(cx) on some path: in the poll that "
                  "receives the peer's GOAWAY the drain decision uses the old value, accept() answers Pending although every request has "
                  "ended, and nothing wakes it again", "", None, stale.describe() if stale is not None else None)
        for p in nones:
            rd = [t for t in p.tests if t[3][0] == "call" and t[3][1] == "core::task::poll::Poll::is_ready" and
                  pa.head_call(t[3][2][0])[0] == SV + "poll_requests_completion"]
            ok = bool(rd) and rd[-1][2] == "true"
            ctx.check(ok, "C09-c", ac.key, "`no more requests` only when poll_requests_completion() is Ready",
                      "accept reports `no more requests` on a path where the last poll_requests_completion(cx).is_ready() was not true: it "
                      "could answer while a request it handed out is still in progress", "", None, p.describe())
        somes = [p for p in ps if p.ret_shape().startswith("Ready(Ok(Some(")]
        for p in somes:
            ins = [e for e in p.calls("::insert") if "ongoing_streams" in pa.vfmt(e[3][0])]
            ctx.check(len(ins) == 1 and pa.short(pa.head_call(ins[0][3][1])[0] or "") == "send_id", "C09-c", ac.key, "returned stream recorded as ongoing",
                      "a stream is handed out without ongoing_streams.insert(send_id)", "", None, p.describe())
        ctx.floor("C09-c", "stream-returning paths", len(somes), 1)
    pr = ru.need(ctx, "C09-c", SV + "poll_requests_completion")
    if pr:
        heads = pr.loop_heads()
        ctx.check(len(heads) == 1, "C09-c", pr.key, "drains in a loop", "poll_requests_completion has %d loops: it must keep receiving until the "
                  "channel answers Pending, otherwise ends queued in the same tick are left unprocessed with no waker registered" % len(heads), "")
        ex = pa.Explorer(prog, pr, max_visits=2)
        ps = [p for p in ex.paths() if p.end == "return"]
        REC = "tokio::sync::mpsc::unbounded::UnboundedReceiver::poll_recv"
        for p in ps:
            rc = [e for e in p.calls(REC)]
            last = None
            if rc:
                bbc = rc[-1][1]
                cls = dp.classify(p, lambda r, bbc=bbc: r[0] == "call" and r[1] == REC and r[2] == bbc)
                last = cls.get(())
                if last == "Ready":
                    last = "Ready:" + str(cls.get(("Ready",)))
            sh = p.ret_shape()
            if sh == "Pending":
                ctx.check(last == "Pending", "C09-c", pr.key, "Pending only after the channel answered Pending",
                          "poll_requests_completion returns Pending on a path whose last poll_recv answered %s: no waker is registered with "
                          "the channel and notifications already queued are not processed - accept() can wait for ever" % last, "", None, p.describe())
            elif sh.startswith("Ready"):
                emp = [t for t in p.tests if t[3][0] == "call" and pa.short(t[3][1]) == "is_empty"]
                ok = last == "Ready:None" or (last == "Pending" and emp and emp[-1][2] == "true")
                ctx.check(ok, "C09-c", pr.key, "Ready only when the channel is closed or (drained and no request ongoing)",
                          "poll_requests_completion returns Ready on a path with last poll_recv = %s and is_empty tests %s"
                          % (last, [(t[2]) for t in emp]), "", None, p.describe())
        rem = [(b.key) for b, bb, t in prog.callers_of("::remove") if "ongoing_streams" in fl.fmt(fl.Flow(b, prog).origin(t.args[0]))]
        ctx.check(rem == [SV + "poll_requests_completion"], "C09-c", "ongoing_streams.remove", "only on receipt from the channel",
                  "ongoing_streams.remove is called from %s" % rem, str(rem))
        for p in ps:
            for e in p.calls("::remove"):
                ok = pa.head_call(e[3][1])[0] == REC
                ctx.check(ok, "C09-c", pr.key, "removes exactly the id received", "removes %s" % pa.vfmt(e[3][1]), "")
    ins = sorted({b.key for b, bb, t in prog.callers_of("::insert") if "ongoing_streams" in fl.fmt(fl.Flow(b, prog).origin(t.args[0]))})
    ctx.check(ins == [SV + "poll_accept_request_stream_internal"], "C09-c", "ongoing_streams.insert", "only when a stream is handed out",
              "ongoing_streams.insert is called from %s" % ins, str(ins))
    ctx.assume("tokio's unbounded channel delivers every sent id and registers the receiver's waker when poll_recv returns Pending")
    # the peer's GOAWAY arrives on the control stream, which is found by the accept loop over the pending uni streams: a stream whose
    # type has not arrived yet must not stop that loop (C04-b)
    if not getattr(ctx, "nested", False):
        from rules import C04 as _c04, shared as _sh
        _c04.run(_sh.Proxy(ctx, ("C04-b",), "C09-c", only=("poll_accept_recv",)))
        # a legal GOAWAY from the client starts the drain (accept() -> None once the requests have ended): it must not be refused - the
        # Goaway rows of the control dispatch (C04-a: handed to the role layer, no check the server has no business making) and
        # process_goaway's verdicts (C08-d: an error only for a LARGER identifier)
        _c04.run(_sh.Proxy(ctx, ("C04-a",), "C09-c", constructs=("Goaway",)))
        from rules import C08 as _c08
        _c08.run(_sh.Proxy(ctx, ("C08-d",), "C09-c", only=("process_goaway",)))
