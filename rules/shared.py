"""Rule fragments used by more than one property (the construct is shared by the properties)."""
import itertools
from engine import ru, paths as pa, expr, flow as fl

FR = "h3::proto::frame::"


class Proxy:
    """Forwards the obligations of another property's module whose rule id is selected, under this property's rule id."""

    nested = True      # a module run through a proxy does not run other modules through proxies again

    def __init__(self, ctx, select, as_rule, exclude=(), only=(), constructs=()):
        self._ctx, self._sel, self._as, self._ex, self._only = ctx, select, as_rule, tuple(exclude), tuple(only)
        self._cons = tuple(constructs)       # forward only the instances whose construct text contains one of these

    def __getattr__(self, name):
        return getattr(self._ctx, name)

    def _on(self, rule, key="", construct=None):
        # `exclude`: instances on functions that are not part of the borrowing property (matched on the function key)
        if self._cons and not any(x in (construct if construct is not None else (key or "")) for x in self._cons):
            return False
        return any(rule == s or rule.startswith(s) for s in self._sel) and not any(x in (key or "") for x in self._ex) and \
            (not self._only or any(x in (key or "") for x in self._only))

    def ok(self, rule, key, detail="", loc=None):
        if self._on(rule, key):
            self._ctx.ok(self._as, "[%s] %s" % (rule, key), detail, loc)

    def violation(self, rule, fn, construct, msg, loc=None, path=None):
        if self._on(rule, fn, construct):
            self._ctx.violation(self._as, fn, "[%s] %s" % (rule, construct), msg, loc, path)

    def check(self, cond, rule, fn, construct, msg, detail="", loc=None, path=None):
        if self._on(rule, fn, construct):
            self._ctx.check(cond, self._as, fn, "[%s] %s" % (rule, construct), msg, detail, loc, path)

    def missing(self, rule, what):
        if any(rule == s_ or rule.startswith(s_) for s_ in self._sel) and not self._only:      # (an anchor of a selected rule is gone)
            self._ctx.missing(self._as, what)

    def unrecognised(self, rule, fn, what, msg):
        if self._on(rule, fn, what):
            self._ctx.unrecognised(self._as, fn, "[%s] %s" % (rule, what), msg)

    def floor(self, rule, what, n, least):
        if self._on(rule) and not self._only and not self._cons:
            self._ctx.floor(self._as, "[%s] %s" % (rule, what), n, least)



def frame_decoder_iterations(ctx, rule):
    prog = ctx.prog
    fd = ru.need(ctx, rule, "h3::frame::FrameDecoder::decode")
    if not fd:
        return None, []
    heads = fd.loop_heads()
    ex = pa.Explorer(prog, fd, max_visits=1)
    its = []
    for h in heads:
        its += ex.paths(start=h, stop_at=heads)
    return fd, its


def frame_decoder_memo(ctx, rule, its=None):
    """The incremental frame reader's `bytes needed` memo is cleared on every path that consumed bytes
    (a skipped unknown frame or a returned frame): otherwise the next, shorter frame stalls."""
    fd = ctx.prog.one("h3::frame::FrameDecoder::decode")
    if its is None:
        fd, its = frame_decoder_iterations(ctx, rule)
    if not fd:
        return
    n = 0
    for p in its:
        if not p.calls("h3::buf::BufList::advance", "::advance"):
            continue
        n += 1
        st = [e for e in p.stores() if "expected" in pa.vfmt(e[4])]
        ok = bool(st) and st[-1][3][0] == "agg" and st[-1][3][2] == "None"
        vt = [lab for _, lab, _ in p.variant_tests(FR + "Frame::decode")]
        ctx.check(ok, rule, fd.key, "memo cleared after consuming (%s)" % "/".join(vt),
                  "bytes are consumed (src.advance) on the %s path without resetting the `expected` bytes-needed memo: the stale "
                  "minimum is applied to the next frame, which then stalls or is reported truncated" % "/".join(vt), "", None, p.describe())
    ctx.floor(rule, "consuming iterations of FrameDecoder::decode", n, 2)
    # the memo is a threshold: with `expected = Some(min)` decoding is retried exactly when remaining() >= min
    is_rem = lambda v: v[0] == "call" and pa.short(v[1]) == "remaining"
    n_skip = n_try = n_set = 0
    for p in its:
        if "Some" not in [t[2] for t in p.tests if t[3][0] == "discr" and pa.vfmt(t[3]).endswith(".expected)")]:
            continue
        ops = []
        for t in p.tests:
            nf = expr.orient(expr.cmp_nf(t[3], t[2]), is_rem)
            if nf and "expected" in pa.vfmt(nf[2]):
                ops.append(nf[1])
        tried = p.has_call(FR + "Frame::decode")
        if tried:
            n_try += 1
            want = [">="]
        else:
            n_skip += 1
            want = ["<"]
        ctx.check(ops == want, rule, fd.key, "memo threshold: %s" % ("decode retried when remaining() >= min" if tried else "decode postponed only while remaining() < min"),
                  "with a remembered minimum the reader %s under the condition remaining() %s min (expected %s): a frame whose last byte has just arrived "
                  "is left undecoded until more bytes come - which for the last frame before a pause never happens" % ("retries" if tried else "postpones", ops, want),
                  "", None, p.describe())
    for p in its:
        vt = [lab for _, lab, _ in p.variant_tests(FR + "Frame::decode")]
        if "Incomplete" in vt:
            n_set += 1
            st = [e for e in p.stores() if "expected" in pa.vfmt(e[4])]
            ok = bool(st) and st[-1][3][0] == "agg" and st[-1][3][2] == "Some" and "<Incomplete>.0" in pa.vfmt(st[-1][3][3][0]) and st[-1][3][3][0][0] == "proj"
            ctx.check(ok, rule, fd.key, "Incomplete(min) remembered as exactly that minimum",
                      "the Incomplete path stores %s" % (pa.vfmt(st[-1][3])[:100] if st else "nothing"), "", None, p.describe())
    ctx.floor(rule, "memo-guarded postponing paths of FrameDecoder::decode", n_skip, 1)
    ctx.floor(rule, "memo-guarded decoding paths of FrameDecoder::decode", n_try, 1)
    ctx.floor(rule, "Incomplete paths of FrameDecoder::decode", n_set, 1)


def header_payload_cursor(ctx, rule, key_prefix, hdr):
    """Evaluate the extracted advance/chunk/remaining code of a header-then-payload Buf over all small
    (len, pos, cnt) states against the reference cursor (no h3 code is run: path conditions and
    expressions taken from the MIR are folded under a substitution)."""
    prog = ctx.prog
    consts = prog.consts
    adv = ru.need(ctx, rule, key_prefix + "advance")
    if not adv:
        return
    # the three methods evaluated below ARE the cursor: every other `Buf` method has to stay the provided one, which is defined in
    # terms of them (an overriding `has_remaining` / `copy_to_bytes` / `chunks_vectored` is a second, unexamined cursor)
    over = sorted(b.key[len(key_prefix):] for b in prog.bodies if b.key.startswith(key_prefix) and "::{closure" not in b.key[len(key_prefix):])
    ctx.check(set(over) <= {"advance", "chunk", "remaining"}, rule, key_prefix.rstrip(":"), "only remaining / chunk / advance are implemented by hand",
              "the Buf implementation also overrides %s: the transport's write loop may ask that method instead of the three that were "
              "evaluated, and nothing ties its answer to them" % [m for m in over if m not in ("advance", "chunk", "remaining")], str(over))
    ps = [p for p in ru.all_paths(ctx, rule, adv) if p.end == "return"]
    bad = []
    nstate = 0
    for ln, pos, cnt in itertools.product(range(0, 4), range(0, 4), range(0, 6)):
        if pos > ln:
            continue
        nstate += 1

        def sub(v, ln=ln, pos=pos, cnt=cnt):
            if v == ("param", 2, ()):
                return cnt
            if v[0] == "param" and v[1] == 1 and v[2] in ((".len",), ("len",)):
                return ln
            if v[0] == "param" and v[1] == 1 and v[2] in ((".pos",), ("pos",)):
                return pos
            return None
        hits = expr.decide(ps, consts, sub)
        # paths differ by whether a payload exists: every surviving path must behave like the reference
        a = min(cnt, ln - pos)
        for p in hits:
            st = [e for e in p.stores() if pa.vfmt(e[4]) in ("param_1.pos",)]
            newpos = expr.fold(st[-1][3], consts, sub) if st else pos
            if newpos is None and st and st[-1][3][0] == "proj":
                newpos = expr.fold(st[-1][3], consts, sub)
            pays = [e for e in p.calls("::advance") if e[3] and e[3][0] != ("param", 1, ())]
            has_payload_test = [t for t in p.tests if t[3][0] == "discr" and t[2] in ("Some", "None") and "payload" in t[1]]
            payarg = expr.fold(pays[-1][3][1], consts, sub) if pays else None
            expects_payload_call = (hdr == "stream_id") or any(t[2] == "Some" for t in has_payload_test)
            if newpos != pos + a:
                bad.append(((ln, pos, cnt), "pos' = %s, expected %d" % (newpos, pos + a)))
            elif expects_payload_call and payarg != cnt - a:
                bad.append(((ln, pos, cnt), "payload advanced by %s, expected %d" % (payarg, cnt - a)))
    ctx.check(not bad, rule, adv.key, "advance(cnt): min(cnt, len-pos) in the header, the rest in the payload (all %d small states)" % nstate,
              "the header/payload cursor deviates from the reference for %d states, e.g. (len,pos,cnt)=%s: %s - bytes of the encoded "
              "header are re-emitted or skipped when the transport accepts a write in pieces" % (len(bad), bad[0][0] if bad else "", bad[0][1] if bad else ""),
              "%d states x %d paths" % (nstate, len(ps)))
    ch = ru.need(ctx, rule, key_prefix + "chunk")
    if ch:
        cps = [p for p in ru.all_paths(ctx, rule, ch) if p.end == "return"]
        badc = []
        for ln, pos in itertools.product(range(0, 4), range(0, 4)):
            if pos > ln:
                continue

            def sub2(v, ln=ln, pos=pos):
                if v[0] == "param" and v[1] == 1 and v[2] in ((".len",), ("len",)):
                    return ln
                if v[0] == "param" and v[1] == 1 and v[2] in ((".pos",), ("pos",)):
                    return pos
                return None
            for p in expr.decide(cps, consts, sub2):
                idx = [e for e in p.calls("::index") if hdr in pa.vfmt(e[3][0])]
                if ln - pos > 0:
                    ok = len(idx) == 1 and idx[0][3][1][0] == "agg" and [expr.fold(x, consts, sub2) for x in idx[0][3][1][3]] == [pos, ln]
                    if not ok:
                        badc.append(((ln, pos), "header slice %s" % [pa.vfmt(e[3][1]) for e in idx]))
                elif idx:
                    badc.append(((ln, pos), "header slice returned although the header is exhausted"))
        ctx.check(not badc, rule, ch.key, "chunk(): header[pos..len] while bytes remain, then the payload",
                  "chunk() deviates: %s" % badc[:2], "")
    rm = ru.need(ctx, rule, key_prefix + "remaining")
    if rm:
        rps = [p for p in ru.all_paths(ctx, rule, rm) if p.end == "return"]
        okr = bool(rps)
        for p in rps:
            r = p.ret
            while r[0] == "proj":
                r = r[1]
            okr = okr and r[0] == "binop" and r[1].startswith("Add") and expr.fold(r[2], consts, lambda v: 5 if (v[0] == "param" and v[2] in ((".len",),)) else 2 if (v[0] == "param" and v[2] in ((".pos",),)) else None) == 3
            # .. and the payload part is the payload's own remaining() (all of its chunks), asked directly or inside the closure handed to map_or
            if okr:
                pay = r[3]
                direct = expr.mentions(pay, lambda v: v[0] == "call" and pa.short(v[1]) == "remaining") and \
                    not expr.mentions(pay, lambda v: v[0] == "call" and pa.short(v[1]) in ("chunk", "len"))
                cls_ = [v[1] for v in pa.subvalues(pay) if v[0] == "closure"]
                viacl = any(any(True for c_ in prog.by_key.get(ck, []) for _ in c_.calls("remaining")) for ck in cls_) and \
                    not any(any(True for c_ in prog.by_key.get(ck, []) for _ in c_.calls("chunk", "::len")) for ck in cls_)
                nopay = expr.fold(pay, consts) == 0 and any(t[3][0] == "discr" and t[2] == "None" for t in p.tests)       # (written as a match: no payload)
                okr = direct or viacl or nopay
        ctx.check(okr, rule, rm.key, "remaining() = (len - pos) + payload.remaining()",
                  "remaining() = %s: it must be the unsent part of the header plus ALL that is left of the payload (a payload made of several chunks "
                  "is otherwise cut short by a transport that sizes its write from remaining(), and the frame's declared length is not met)"
                  % [pa.vfmt(p.ret)[:80] for p in rps], "")


def frame_type_table(ctx, rule):
    """Frame::decode's type dispatch evaluated over the extracted conditions for a list of type values
    (RFC 9114 Table 2, 7.2.8): known types, the four HTTP/2-reserved types (always UnsupportedFrame, whatever
    the payload) and unknown/grease types (always UnknownFrame)."""
    prog = ctx.prog
    d = ru.need(ctx, rule, "h3::proto::frame::Frame::decode")
    if d:
        want = {0: "Ok(Frame::Data)", 1: "Ok(Frame::Headers)", 3: "Ok(Frame::CancelPush)", 4: "Ok(Frame::Settings)",
                5: "Ok(Frame::PushPromise)", 7: "Ok(Frame::Goaway)", 13: "Ok(Frame::MaxPushId)", 0x41: "Ok(Frame::WebTransportStream)",
                2: "Err(FrameError::UnsupportedFrame)", 6: "Err(FrameError::UnsupportedFrame)", 8: "Err(FrameError::UnsupportedFrame)",
                9: "Err(FrameError::UnsupportedFrame)", 0x21: "Err(FrameError::UnknownFrame)", 0x40: "Err(FrameError::UnknownFrame)",
                10: "Err(FrameError::UnknownFrame)", 0x2a1f: "Err(FrameError::UnknownFrame)"}
        ps = [p for p in ru.all_paths(ctx, rule, d) if p.end in ("return",)]
        consts = prog.consts

        def sub_for(x):
            def s(v):
                # the decoded frame type: okval(map_err(FrameType::decode(..))) and its .0
                ck, names = pa.head_call(v)
                if v[0] in ("okval", "proj") and ck == "core::result::Result::map_err":
                    inner = v
                    while inner[0] in ("proj", "okval"):
                        inner = inner[1]
                    if inner[0] == "call" and inner[2] and inner[2][0][0] == "call" and inner[2][0][1] in ("h3::proto::frame::FrameType::decode", "<h3::proto::frame::FrameType as h3::proto::coding::Decode>::decode"):
                        return x
                if v[0] == "const" and isinstance(v[1], str) and v[1].startswith("h3::proto::frame::FrameType::"):
                    return consts.get(v[1])
                if v[0] == "call" and pa.short(v[1]) == "eq" and len(v[2]) == 2:
                    a, b_ = s(v[2][0]), s(v[2][1])
                    if a is not None and b_ is not None:
                        return int(a == b_)
                return None
            return s
        for ty, w in sorted(want.items()):
            hit = expr.decide(ps, consts, sub_for(ty))
            shapes = {p.ret_shape() for p in hit if p.ret_shape().startswith("Ok(") or p.ret_shape().startswith("Err(FrameError::Un")}
            if w.startswith("Err(FrameError::Un"):
                # reserved and unknown types: no other verdict may depend on the payload (only `need more bytes` may precede)
                shapes = set()
                for p in hit:
                    sh = p.ret_shape()
                    if sh == "Err(FrameError::Incomplete)":
                        continue
                    if sh.startswith("Residual"):
                        es, _ = ru.residual_error_shapes(ctx, p)
                        if es == {"FrameError::Incomplete"}:
                            continue
                        sh = "Err(%s)" % "|".join(sorted(es))
                    shapes.add(sh)
            ctx.check(shapes == {w}, rule, d.key, "type %#x -> %s" % (ty, w[3:-1] if w.startswith("Ok") else w[4:-1]),
                      "frame type %#x decodes to %s, RFC 9114 Table 2 / 7.2.8 requires %s" % (ty, sorted(shapes), w), w)
        # composition for reserved types is checked in C02-e (UnsupportedFrame -> ForbiddenFrame -> H3_FRAME_UNEXPECTED)



def frame_stream_split(ctx, rule):
    """FrameStream::split hands the frame reader's position (decoder state, DATA bytes still owed) to the receive half."""
    prog = ctx.prog
    b = ru.need(ctx, rule, "h3::frame::FrameStream::split")
    if not b:
        return
    f = fl.Flow(b, prog)
    recv = [s for bb, s in ru.aggregates(b, "h3::frame::FrameStream") if f.origin(ru.field_op(s, "stream"))[-1][-1:] == ("1",)]
    ctx.check(len(recv) == 1, rule, b.key, "one receive half built directly", "split() does not build exactly one receive half as a FrameStream "
              "aggregate fed from the inner split (found %d): the receive half must inherit decoder state and remaining_data" % len(recv), "")
    for s in recv:
        for fld in ("decoder", "remaining_data"):
            o = f.origin(ru.field_op(s, fld))
            ctx.check(o == ("param", 1, (fld,)), rule, b.key, "receive half keeps %s" % fld,
                      "split() gives the receive half %s = %s instead of self.%s: splitting in the middle of a DATA frame makes the "
                      "rest of the payload parse as frame headers" % (fld, fl.fmt(o), fld), fl.fmt(o), b.loc(s))


def request_stream_split(ctx, rule):
    """RequestStream::split: the receive half takes over what belongs to receiving (parked trailers, the local limit);
    the send half starts without trailers."""
    prog = ctx.prog
    b = ru.need(ctx, rule, "h3::connection::RequestStream::split")
    if not b:
        return
    f = fl.Flow(b, prog)
    ags = ru.aggregates(b, "h3::connection::RequestStream")
    halves = {"0": [], "1": []}
    for bb, s in ags:
        o = f.origin(ru.field_op(s, "stream"))
        k = o[-1][-1:] if o and o[0] in ("proj", "param") or (o and isinstance(o[-1], tuple)) else ()
        if k in (("0",), ("1",)):
            halves[k[0]].append(s)
    ctx.check(len(halves["0"]) == 1 and len(halves["1"]) == 1, rule, b.key, "one send half and one receive half built from the inner split",
              "RequestStream::split builds %d send / %d receive halves" % (len(halves["0"]), len(halves["1"])), "")
    for s in halves["1"]:
        o = f.origin(ru.field_op(s, "trailers"))
        ctx.check(o == ("param", 1, ("trailers",)), rule, b.key, "receive half keeps the parked trailers",
                  "split() gives the receive half trailers = %s instead of self.trailers: trailers parked by poll_recv_data when the body ended are lost "
                  "(recv_trailers() answers None) and a further HEADERS frame is accepted" % fl.fmt(o), fl.fmt(o), b.loc(s))
    for s in halves["0"]:
        o = f.origin(ru.field_op(s, "trailers"))
        ctx.check(o[0] == "agg" and o[1].endswith("::None"), rule, b.key, "send half starts without trailers",
                  "split() gives the send half trailers = %s" % fl.fmt(o), fl.fmt(o), b.loc(s))


def bufrecv_poll_data(ctx, rule):
    """<BufRecvStream as RecvStream>::poll_data: what is buffered goes out first, the transport is polled only with an empty
    buffer, and end of stream is answered only on a path where the transport itself just answered Ok(None)."""
    prog = ctx.prog
    b = ru.need(ctx, rule, "<h3::stream::BufRecvStream as h3::quic::RecvStream>::poll_data")
    if not b:
        return
    ps = [p for p in ru.all_paths(ctx, rule, b, max_visits=1) if p.end == "return"]
    n_end = n_poll = 0
    for p in ps:
        tp = p.outcomes("h3::quic::RecvStream::poll_data")
        first = [t[2] for t in p.tests if t[3][0] == "discr" and "take_first_chunk@" in t[1]]
        if p.has_call("h3::quic::RecvStream::poll_data"):
            n_poll += 1
            ctx.check(first[:1] == ["None"], rule, b.key, "transport polled only when nothing is buffered",
                      "poll_data polls the transport on a path where take_first_chunk() was %s" % first[:1], "", None, p.describe())
        if p.ret_shape() == "Ready(Ok(None))":
            n_end += 1
            ctx.check(first[:1] == ["None"] and "None" in tp and "Err" not in tp, rule, b.key, "end of stream only when the transport just answered Ok(None) and nothing is buffered",
                      "poll_data answers Ready(Ok(None)) on a path where the buffer was %s and the transport's answer was %s: bytes that arrived together "
                      "with the FIN (e.g. the payload behind a WebTransport stream header) are never delivered" % (first[:1] or "not consulted", tp or "not asked"),
                      "", None, p.describe())
    ctx.floor(rule, "end-of-stream paths of BufRecvStream::poll_data", n_end, 1)
    ctx.floor(rule, "transport-polling paths of BufRecvStream::poll_data", n_poll, 3)


def push_bytes_takes_everything(ctx, rule):
    """BufList::push_bytes moves the WHOLE transport buffer into the receive buffer: the amount copied is remaining() of that
    buffer (a `Buf` may hold several chunks; chunk().len() is only the first), and what is stored is that copy."""
    b = ru.need(ctx, rule, "h3::buf::BufList::push_bytes")
    if not b:
        return
    n = 0
    for p in [p for p in ru.all_paths(ctx, rule, b, max_visits=1) if p.end == "return"]:
        cp = p.calls("copy_to_bytes")
        pb = p.calls("push_back")
        if not cp and not pb:
            continue
        n += 1
        ok = len(cp) == 1 and len(pb) == 1 and len(cp[0][3]) == 2 and cp[0][3][1][0] == "call" and pa.short(cp[0][3][1][1]) == "remaining" and \
            cp[0][3][1][2] and cp[0][3][1][2][0] == cp[0][3][0] and cp[0][3][0] == ("param", 2, ()) and \
            len(pb[0][3]) == 2 and pb[0][3][1][0] == "call" and pb[0][3][1][3] == cp[0][1]
        ctx.check(ok, rule, b.key, "the whole transport buffer is stored: copy_to_bytes(buf.remaining())",
                  "push_bytes stores %s: with a transport whose buffers are not contiguous everything behind the first chunk is dropped and "
                  "the frame boundaries behind it are lost" % ([pa.vfmt(e[3][1])[:60] for e in cp] or "nothing"), "", None, p.describe())
    ctx.floor(rule, "storing paths of push_bytes", n, 1)
    callers = sorted({c.key for c, bb, t in ctx.prog.callers_of("h3::buf::BufList::push_bytes")})
    ctx.check(callers == ["h3::stream::BufRecvStream::poll_read"], rule, "h3::buf::BufList::push_bytes", "who may call",
              "the receive buffer is filled from %s" % callers, str(callers))


_REG = None


def error_code_values(ctx, rule, names):
    """The error codes a property names are RFC registry values (RFC 9114 8.1, RFC 9204 6, RFC 9297 5.2): the rules speak of
    `Code::H3_FRAME_ERROR` by name, this ties the name to the number that goes on the wire."""
    global _REG
    import json, os
    if _REG is None:
        _REG = json.load(open(os.path.join(os.path.dirname(os.path.dirname(os.path.abspath(__file__))), "ref", "rfc9114_registries.json")))
    want = dict(_REG["error_codes"])
    want.update(_REG["qpack"]["error_codes"])
    want["H3_DATAGRAM_ERROR"] = _REG["extensions"]["H3_DATAGRAM_ERROR"]
    for n in names:
        k = "h3::error::codes::Code::" + n
        got = ctx.prog.const(k)
        if got is None:
            ctx.missing(rule, k)
            continue
        ctx.check(got == want[n], rule, k, "= 0x%x (registry value)" % want[n],
                  "Code::%s is 0x%x, the registry value is 0x%x: every error this property requires to be `%s` goes on the wire as a different code"
                  % (n, got, want[n], n), "0x%x" % got)
