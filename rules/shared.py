"""Rule fragments used by more than one property (the construct is shared by the properties)."""
import itertools
from engine import ru, paths as pa, expr

FR = "h3::proto::frame::"


def frame_decoder_iterations(ctx, rule):
    prog = ctx.prog
    fd = ru.need(ctx, rule, "h3::frame::FrameDecoder::decode")
    if not fd:
        return None, []
    heads = fd.loop_heads()
    ex = pa.Explorer(prog, fd, max_visits=1)
    its = []
    for h in heads:
        its += ex.paths(start=h, stop_at=heads)
    return fd, its


def frame_decoder_memo(ctx, rule, its=None):
    """The incremental frame reader's `bytes needed` memo is cleared on every path that consumed bytes
    (a skipped unknown frame or a returned frame): otherwise the next, shorter frame stalls."""
    fd = ctx.prog.one("h3::frame::FrameDecoder::decode")
    if its is None:
        fd, its = frame_decoder_iterations(ctx, rule)
    if not fd:
        return
    n = 0
    for p in its:
        if not p.calls("h3::buf::BufList::advance", "::advance"):
            continue
        n += 1
        st = [e for e in p.stores() if "expected" in pa.vfmt(e[4])]
        ok = bool(st) and st[-1][3][0] == "agg" and st[-1][3][2] == "None"
        vt = [lab for _, lab, _ in p.variant_tests(FR + "Frame::decode")]
        ctx.check(ok, rule, fd.key, "memo cleared after consuming (%s)" % "/".join(vt),
                  "bytes are consumed (src.advance) on the %s path without resetting the `expected` bytes-needed memo: the stale "
                  "minimum is applied to the next frame, which then stalls or is reported truncated" % "/".join(vt), "", None, p.describe())
    ctx.floor(rule, "consuming iterations of FrameDecoder::decode", n, 2)


def header_payload_cursor(ctx, rule, key_prefix, hdr):
    """Evaluate the extracted advance/chunk/remaining code of a header-then-payload Buf over all small
    (len, pos, cnt) states against the reference cursor (no h3 code is run: path conditions and
    expressions taken from the MIR are folded under a substitution)."""
    prog = ctx.prog
    consts = prog.consts
    adv = ru.need(ctx, rule, key_prefix + "advance")
    if not adv:
        return
    ps = [p for p in ru.all_paths(ctx, rule, adv) if p.end == "return"]
    bad = []
    nstate = 0
    for ln, pos, cnt in itertools.product(range(0, 4), range(0, 4), range(0, 6)):
        if pos > ln:
            continue
        nstate += 1

        def sub(v, ln=ln, pos=pos, cnt=cnt):
            if v == ("param", 2, ()):
                return cnt
            if v[0] == "param" and v[1] == 1 and v[2] in ((".len",), ("len",)):
                return ln
            if v[0] == "param" and v[1] == 1 and v[2] in ((".pos",), ("pos",)):
                return pos
            return None
        hits = expr.decide(ps, consts, sub)
        # paths differ by whether a payload exists: every surviving path must behave like the reference
        a = min(cnt, ln - pos)
        for p in hits:
            st = [e for e in p.stores() if pa.vfmt(e[4]) in ("param_1.pos",)]
            newpos = expr.fold(st[-1][3], consts, sub) if st else pos
            if newpos is None and st and st[-1][3][0] == "proj":
                newpos = expr.fold(st[-1][3], consts, sub)
            pays = [e for e in p.calls("::advance") if e[3] and e[3][0] != ("param", 1, ())]
            has_payload_test = [t for t in p.tests if t[3][0] == "discr" and t[2] in ("Some", "None") and "payload" in t[1]]
            payarg = expr.fold(pays[-1][3][1], consts, sub) if pays else None
            expects_payload_call = (hdr == "stream_id") or any(t[2] == "Some" for t in has_payload_test)
            if newpos != pos + a:
                bad.append(((ln, pos, cnt), "pos' = %s, expected %d" % (newpos, pos + a)))
            elif expects_payload_call and payarg != cnt - a:
                bad.append(((ln, pos, cnt), "payload advanced by %s, expected %d" % (payarg, cnt - a)))
    ctx.check(not bad, rule, adv.key, "advance(cnt): min(cnt, len-pos) in the header, the rest in the payload (all %d small states)" % nstate,
              "the header/payload cursor deviates from the reference for %d states, e.g. (len,pos,cnt)=%s: %s - bytes of the encoded "
              "header are re-emitted or skipped when the transport accepts a write in pieces" % (len(bad), bad[0][0] if bad else "", bad[0][1] if bad else ""),
              "%d states x %d paths" % (nstate, len(ps)))
    ch = ru.need(ctx, rule, key_prefix + "chunk")
    if ch:
        cps = [p for p in ru.all_paths(ctx, rule, ch) if p.end == "return"]
        badc = []
        for ln, pos in itertools.product(range(0, 4), range(0, 4)):
            if pos > ln:
                continue

            def sub2(v, ln=ln, pos=pos):
                if v[0] == "param" and v[1] == 1 and v[2] in ((".len",), ("len",)):
                    return ln
                if v[0] == "param" and v[1] == 1 and v[2] in ((".pos",), ("pos",)):
                    return pos
                return None
            for p in expr.decide(cps, consts, sub2):
                idx = [e for e in p.calls("::index") if hdr in pa.vfmt(e[3][0])]
                if ln - pos > 0:
                    ok = len(idx) == 1 and idx[0][3][1][0] == "agg" and [expr.fold(x, consts, sub2) for x in idx[0][3][1][3]] == [pos, ln]
                    if not ok:
                        badc.append(((ln, pos), "header slice %s" % [pa.vfmt(e[3][1]) for e in idx]))
                elif idx:
                    badc.append(((ln, pos), "header slice returned although the header is exhausted"))
        ctx.check(not badc, rule, ch.key, "chunk(): header[pos..len] while bytes remain, then the payload",
                  "chunk() deviates: %s" % badc[:2], "")
    rm = ru.need(ctx, rule, key_prefix + "remaining")
    if rm:
        rps = [p for p in ru.all_paths(ctx, rule, rm) if p.end == "return"]
        okr = bool(rps)
        for p in rps:
            r = p.ret
            while r[0] == "proj":
                r = r[1]
            okr = okr and r[0] == "binop" and r[1].startswith("Add") and expr.fold(r[2], consts, lambda v: 5 if (v[0] == "param" and v[2] in ((".len",),)) else 2 if (v[0] == "param" and v[2] in ((".pos",),)) else None) == 3
        ctx.check(okr, rule, rm.key, "remaining() = (len - pos) + payload", "remaining() = %s" % [pa.vfmt(p.ret)[:80] for p in rps], "")
