"""Rule fragments used by more than one property (the construct is shared by the properties)."""
from engine import ru, paths as pa

FR = "h3::proto::frame::"


def frame_decoder_iterations(ctx, rule):
    prog = ctx.prog
    fd = ru.need(ctx, rule, "h3::frame::FrameDecoder::decode")
    if not fd:
        return None, []
    heads = fd.loop_heads()
    ex = pa.Explorer(prog, fd, max_visits=1)
    its = []
    for h in heads:
        its += ex.paths(start=h, stop_at=heads)
    return fd, its


def frame_decoder_memo(ctx, rule, its=None):
    """The incremental frame reader's `bytes needed` memo is cleared on every path that consumed bytes
    (a skipped unknown frame or a returned frame): otherwise the next, shorter frame stalls."""
    fd = ctx.prog.one("h3::frame::FrameDecoder::decode")
    if its is None:
        fd, its = frame_decoder_iterations(ctx, rule)
    if not fd:
        return
    n = 0
    for p in its:
        if not p.calls("h3::buf::BufList::advance", "::advance"):
            continue
        n += 1
        st = [e for e in p.stores() if "expected" in pa.vfmt(e[4])]
        ok = bool(st) and st[-1][3][0] == "agg" and st[-1][3][2] == "None"
        vt = [lab for _, lab, _ in p.variant_tests(FR + "Frame::decode")]
        ctx.check(ok, rule, fd.key, "memo cleared after consuming (%s)" % "/".join(vt),
                  "bytes are consumed (src.advance) on the %s path without resetting the `expected` bytes-needed memo: the stale "
                  "minimum is applied to the next frame, which then stalls or is reported truncated" % "/".join(vt), "", None, p.describe())
    ctx.floor(rule, "consuming iterations of FrameDecoder::decode", n, 2)
