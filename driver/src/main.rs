// h3facts: rustc_private driver that dumps structured facts (MIR as built, ADTs,
// constants, HIR literal match tables, impl tables) for the crate being compiled.
// It is used as RUSTC_WORKSPACE_WRAPPER under `cargo +nightly check`; cargo passes the
// real rustc as argv[1], which is dropped. Without H3FACTS_OUT it behaves like rustc.
//
// Order of work (established by experiment, see DESIGN.md 2.1): (1) clone every
// `mir_built` body, const-like owners first, running no other query; (2) serialise
// from the clones; (3) only then const-evaluate constants and discriminants.
#![feature(rustc_private)]
#![allow(clippy::all)]

extern crate rustc_abi;
extern crate rustc_ast;
extern crate rustc_driver;
extern crate rustc_hir;
extern crate rustc_interface;
extern crate rustc_middle;
extern crate rustc_span;

use rustc_driver::Compilation;
use rustc_hir as hir;
use rustc_hir::def::{DefKind, Res};
use rustc_hir::def_id::{DefId, LocalDefId, LOCAL_CRATE};
use rustc_hir::definitions::DefPathData;
use rustc_hir::intravisit::{self, Visitor};
use rustc_interface::interface;
use rustc_middle::mir::{
    self, AggregateKind, AssertKind, Body, Const as MirConst, Operand, Place, ProjectionElem,
    Rvalue, StatementKind, TerminatorKind,
};
use rustc_middle::ty::print::{with_no_trimmed_paths as wntp, with_no_visible_paths, with_resolve_crate_name};
macro_rules! with_no_trimmed_paths { ($e:expr) => { wntp!(with_no_visible_paths!(with_resolve_crate_name!($e))) } }
use rustc_middle::ty::{self, Ty, TyCtxt};
use rustc_span::{ExpnKind, Span};
use std::fmt::Write as _;

thread_local! {
    /// enum types (possibly from other crates) whose discriminant some body reads
    static SWITCHED_ADTS: std::cell::RefCell<Vec<DefId>> = std::cell::RefCell::new(Vec::new());
}

// ---------------------------------------------------------------- json helpers

fn esc(s: &str) -> String {
    let mut o = String::with_capacity(s.len() + 2);
    for c in s.chars() {
        match c {
            '"' => o.push_str("\\\""),
            '\\' => o.push_str("\\\\"),
            '\n' => o.push_str("\\n"),
            '\r' => o.push_str("\\r"),
            '\t' => o.push_str("\\t"),
            c if (c as u32) < 0x20 => {
                let _ = write!(o, "\\u{:04x}", c as u32);
            }
            c => o.push(c),
        }
    }
    o
}
fn js(s: &str) -> String {
    format!("\"{}\"", esc(s))
}
fn jopt(s: &Option<String>) -> String {
    match s {
        Some(s) => js(s),
        None => "null".into(),
    }
}
fn jarr(v: &[String]) -> String {
    format!("[{}]", v.join(","))
}

// ---------------------------------------------------------------- naming

fn crate_name(tcx: TyCtxt<'_>) -> String {
    tcx.crate_name(LOCAL_CRATE).to_string()
}

/// Path of a definition, always starting with its crate name.
fn qpath(tcx: TyCtxt<'_>, did: DefId) -> String {
    let _ = crate_name;
    with_no_trimmed_paths!(tcx.def_path_str(did))
}

fn ty_str(t: Ty<'_>) -> String {
    with_no_trimmed_paths!(format!("{}", t))
}

fn gargs_str<'tcx>(gargs: ty::GenericArgsRef<'tcx>) -> String {
    let v: Vec<String> = gargs
        .iter()
        .filter(|a| a.as_region().is_none())
        .map(|a| with_no_trimmed_paths!(format!("{}", a)))
        .collect();
    format!("[{}]", v.join(", "))
}

fn peel<'tcx>(mut t: Ty<'tcx>) -> Ty<'tcx> {
    loop {
        match t.kind() {
            ty::Ref(_, inner, _) => t = *inner,
            ty::RawPtr(inner, _) => t = *inner,
            _ => return t,
        }
    }
}

fn adt_of<'tcx>(tcx: TyCtxt<'tcx>, t: Ty<'tcx>) -> Option<String> {
    match peel(t).kind() {
        ty::Adt(adt, _) => Some(qpath(tcx, adt.did())),
        _ => None,
    }
}

/// All ADT paths mentioned anywhere in a type.
fn adts_in<'tcx>(tcx: TyCtxt<'tcx>, t: Ty<'tcx>) -> Vec<String> {
    let mut out: Vec<String> = Vec::new();
    for arg in t.walk() {
        if let Some(t) = arg.as_type() {
            if let ty::Adt(adt, _) = t.kind() {
                let p = qpath(tcx, adt.did());
                if !out.contains(&p) {
                    out.push(p);
                }
            }
        }
    }
    out
}

struct Ident {
    path: String,
    key: String,
    name: Option<String>,
    self_ty: Option<String>,
    self_adt: Option<String>,
    trait_: Option<String>,
    trait_args: Vec<String>,
    krate: String,
}

/// Structured identity of an item: never impl ordinals, never line numbers.
fn ident<'tcx>(tcx: TyCtxt<'tcx>, did: DefId) -> Ident {
    // closure nesting suffix
    let mut root = did;
    let mut suffix = String::new();
    loop {
        let dk = tcx.def_key(root);
        match dk.disambiguated_data.data {
            DefPathData::Closure => {
                suffix = format!("::{{closure#{}}}{}", dk.disambiguated_data.disambiguator, suffix);
                root = tcx.parent(root);
            }
            DefPathData::AnonConst => {
                suffix = format!("::{{const#{}}}{}", dk.disambiguated_data.disambiguator, suffix);
                root = tcx.parent(root);
            }
            _ => break,
        }
    }
    let kind = tcx.def_kind(root);
    let name = tcx.opt_item_name(root).map(|s| s.to_string());
    let mut id = Ident {
        path: qpath(tcx, did),
        key: String::new(),
        name: name.clone(),
        self_ty: None,
        self_adt: None,
        trait_: None,
        trait_args: vec![],
        krate: tcx.crate_name(did.krate).to_string(),
    };
    let nm = name.clone().unwrap_or_default();
    let mut base = qpath(tcx, root);
    if matches!(kind, DefKind::AssocFn | DefKind::AssocConst { .. } | DefKind::AssocTy) {
        if let Some(impl_did) = tcx.impl_of_assoc(root) {
            let self_ty = tcx.type_of(impl_did).instantiate_identity().skip_norm_wip();
            id.self_ty = Some(ty_str(self_ty));
            let self_path = match self_ty.kind() {
                ty::Adt(adt, _) => {
                    let p = qpath(tcx, adt.did());
                    id.self_adt = Some(p.clone());
                    p
                }
                _ => ty_str(self_ty),
            };
            if let Some(tr) = tcx.impl_opt_trait_ref(impl_did) {
                let tr = tr.skip_binder();
                let tp = qpath(tcx, tr.def_id);
                id.trait_ = Some(tp.clone());
                let targs: Vec<String> = tr
                    .args
                    .iter()
                    .skip(1)
                    .filter(|a| a.as_region().is_none())
                    .map(|a| with_no_trimmed_paths!(format!("{}", a)))
                    .collect();
                id.trait_args = targs.clone();
                let ta = if targs.is_empty() {
                    String::new()
                } else {
                    format!("<{}>", targs.join(", "))
                };
                base = format!("<{} as {}{}>::{}", self_path, tp, ta, nm);
            } else {
                base = format!("{}::{}", self_path, nm);
            }
        } else if let Some(tr) = tcx.trait_of_assoc(root) {
            let tp = qpath(tcx, tr);
            id.trait_ = Some(tp.clone());
            base = format!("{}::{}", tp, nm);
        }
    }
    id.key = format!("{}{}", base, suffix);
    id
}

fn ident_json(id: &Ident) -> String {
    format!(
        "{{\"path\":{},\"key\":{},\"name\":{},\"self_ty\":{},\"self_adt\":{},\"trait\":{},\"trait_args\":{},\"krate\":{}}}",
        js(&id.path),
        js(&id.key),
        jopt(&id.name),
        jopt(&id.self_ty),
        jopt(&id.self_adt),
        jopt(&id.trait_),
        jarr(&id.trait_args.iter().map(|s| js(s)).collect::<Vec<_>>()),
        js(&id.krate)
    )
}

// ---------------------------------------------------------------- spans

fn line_of(tcx: TyCtxt<'_>, sp: Span) -> (String, usize, usize) {
    let sp = sp.source_callsite();
    let sm = tcx.sess.source_map();
    let lo = sm.lookup_char_pos(sp.lo());
    (
        format!("{}", lo.file.name.prefer_local_unconditionally()),
        lo.line,
        lo.col.0 + 1,
    )
}

fn macro_of(sp: Span) -> Option<String> {
    if !sp.from_expansion() {
        return None;
    }
    // outermost user-visible macro / desugaring
    let mut names: Vec<String> = Vec::new();
    let mut cur = sp;
    let mut guard = 0;
    while cur.from_expansion() && guard < 16 {
        let ed = cur.ctxt().outer_expn_data();
        let n = match ed.kind {
            ExpnKind::Macro(_, name) => name.to_string(),
            ExpnKind::Desugaring(k) => format!("desugar:{:?}", k),
            ExpnKind::AstPass(k) => format!("astpass:{:?}", k),
            ExpnKind::Root => "root".to_string(),
        };
        names.push(n);
        cur = ed.call_site;
        guard += 1;
    }
    Some(names.join("<"))
}

fn at_json(tcx: TyCtxt<'_>, body_file: &str, sp: Span) -> String {
    let (f, l, c) = line_of(tcx, sp);
    let mut s = format!("\"ln\":{},\"col\":{}", l, c);
    if f != body_file {
        let _ = write!(s, ",\"file\":{}", js(&f));
    }
    if let Some(m) = macro_of(sp) {
        let _ = write!(s, ",\"mac\":{}", js(&m));
    }
    s
}

// ---------------------------------------------------------------- MIR serialisation

fn place_json<'tcx>(tcx: TyCtxt<'tcx>, body: &Body<'tcx>, p: &Place<'tcx>) -> String {
    let mut out = format!("{{\"l\":{}", p.local.index());
    if !p.projection.is_empty() {
        let mut pty = mir::PlaceTy::from_ty(body.local_decls[p.local].ty);
        let mut prs: Vec<String> = Vec::new();
        for elem in p.projection.iter() {
            let e = match elem {
                ProjectionElem::Deref => "\"*\"".to_string(),
                ProjectionElem::Field(f, _) => {
                    let name: Option<String> = match pty.ty.kind() {
                        ty::Adt(adt, _) => {
                            let v = pty.variant_index.unwrap_or(rustc_abi::FIRST_VARIANT);
                            if adt.is_enum() && pty.variant_index.is_none() {
                                None
                            } else {
                                adt.variant(v).fields.get(f).map(|fd| fd.name.to_string())
                            }
                        }
                        _ => None,
                    };
                    format!("{{\"f\":{},\"n\":{}}}", f.index(), jopt(&name))
                }
                ProjectionElem::Downcast(name, v) => {
                    let n = match name {
                        Some(n) => Some(n.to_string()),
                        None => match pty.ty.kind() {
                            ty::Adt(adt, _) => Some(adt.variant(v).name.to_string()),
                            _ => None,
                        },
                    };
                    format!("{{\"v\":{},\"n\":{}}}", v.index(), jopt(&n))
                }
                ProjectionElem::Index(l) => format!("{{\"ix\":{}}}", l.index()),
                ProjectionElem::ConstantIndex { offset, from_end, .. } => {
                    format!("{{\"ci\":{},\"from_end\":{}}}", offset, from_end)
                }
                ProjectionElem::Subslice { from, to, from_end } => {
                    format!("{{\"sub\":[{},{},{}]}}", from, to, from_end)
                }
                other => format!("{{\"o\":{}}}", js(&format!("{:?}", other))),
            };
            prs.push(e);
            pty = pty.projection_ty(tcx, elem);
        }
        let _ = write!(out, ",\"pr\":{},\"ty\":{}", jarr(&prs), js(&ty_str(pty.ty)));
        if let Some(a) = adt_of(tcx, pty.ty) {
            let _ = write!(out, ",\"adt\":{}", js(&a));
        }
    }
    out.push('}');
    out
}

fn const_json<'tcx>(tcx: TyCtxt<'tcx>, c: &mir::ConstOperand<'tcx>) -> String {
    let ty = c.const_.ty();
    let mut s = format!("{{\"k\":\"const\",\"ty\":{}", js(&ty_str(ty)));
    if let ty::FnDef(did, gargs) = ty.kind() {
        let _ = write!(
            s,
            ",\"fn\":{},\"gargs\":{}",
            ident_json(&ident(tcx, *did)),
            js(&gargs_str(gargs))
        );
    }
    match c.const_ {
        MirConst::Unevaluated(uv, _) => {
            let id = ident(tcx, uv.def);
            let _ = write!(s, ",\"named\":{},\"named_path\":{}", js(&id.key), js(&id.path));
        }
        MirConst::Val(cv, _) => {
            if let Some(si) = cv.try_to_scalar_int() {
                let _ = write!(s, ",\"int\":\"{}\",\"size\":{}", si.to_bits_unchecked(), si.size().bytes());
            }
        }
        MirConst::Ty(..) => {}
    }
    let disp = with_no_trimmed_paths!(format!("{}", c.const_));
    if disp.len() < 400 {
        let _ = write!(s, ",\"s\":{}", js(&disp));
    }
    s.push('}');
    s
}

fn operand_json<'tcx>(tcx: TyCtxt<'tcx>, body: &Body<'tcx>, op: &Operand<'tcx>) -> String {
    match op {
        Operand::Copy(p) => format!("{{\"k\":\"copy\",\"p\":{}}}", place_json(tcx, body, p)),
        Operand::Move(p) => format!("{{\"k\":\"move\",\"p\":{}}}", place_json(tcx, body, p)),
        Operand::Constant(c) => const_json(tcx, c),
        other => format!("{{\"k\":\"other\",\"s\":{}}}", js(&format!("{:?}", other))),
    }
}

fn rvalue_json<'tcx>(tcx: TyCtxt<'tcx>, body: &Body<'tcx>, rv: &Rvalue<'tcx>) -> String {
    match rv {
        Rvalue::Use(op, ..) => format!("{{\"rv\":\"use\",\"op\":{}}}", operand_json(tcx, body, op)),
        Rvalue::Ref(_, bk, p) => {
            let k = match bk {
                mir::BorrowKind::Shared => "shared",
                mir::BorrowKind::Fake(_) => "fake",
                mir::BorrowKind::Mut { .. } => "mut",
            };
            format!("{{\"rv\":\"ref\",\"bk\":\"{}\",\"p\":{}}}", k, place_json(tcx, body, p))
        }
        Rvalue::RawPtr(_, p) => format!("{{\"rv\":\"rawptr\",\"p\":{}}}", place_json(tcx, body, p)),
        Rvalue::CopyForDeref(p) => {
            format!("{{\"rv\":\"use\",\"op\":{{\"k\":\"copy\",\"p\":{}}}}}", place_json(tcx, body, p))
        }
        Rvalue::BinaryOp(bop, ops) => format!(
            "{{\"rv\":\"binop\",\"op\":\"{:?}\",\"a\":{},\"b\":{}}}",
            bop,
            operand_json(tcx, body, &ops.0),
            operand_json(tcx, body, &ops.1)
        ),
        Rvalue::UnaryOp(uop, a) => format!(
            "{{\"rv\":\"unop\",\"op\":\"{:?}\",\"a\":{}}}",
            uop,
            operand_json(tcx, body, a)
        ),
        Rvalue::Discriminant(p) => {
            let pty = p.ty(&body.local_decls, tcx).ty;
            if let ty::Adt(adt, _) = peel(pty).kind() {
                if adt.is_enum() && !adt.did().is_local() {
                    SWITCHED_ADTS.with(|v| {
                        let mut v = v.borrow_mut();
                        if !v.contains(&adt.did()) {
                            v.push(adt.did());
                        }
                    });
                }
            }
            format!("{{\"rv\":\"discr\",\"p\":{}}}", place_json(tcx, body, p))
        }
        Rvalue::Cast(kind, op, ty) => format!(
            "{{\"rv\":\"cast\",\"kind\":{},\"op\":{},\"ty\":{}}}",
            js(&format!("{:?}", kind)),
            operand_json(tcx, body, op),
            js(&ty_str(*ty))
        ),
        Rvalue::Repeat(op, ct) => format!(
            "{{\"rv\":\"repeat\",\"op\":{},\"count\":{}}}",
            operand_json(tcx, body, op),
            js(&format!("{:?}", ct))
        ),
        Rvalue::Aggregate(k, ops) => {
            let ks = match &**k {
                AggregateKind::Adt(adid, vidx, _, _, _) => {
                    let adt = tcx.adt_def(*adid);
                    let v = adt.variant(*vidx);
                    let fnames: Vec<String> = v.fields.iter().map(|f| js(&f.name.to_string())).collect();
                    format!(
                        "\"agg\":\"adt\",\"adt\":{},\"variant\":{},\"vidx\":{},\"fields\":{}",
                        js(&qpath(tcx, *adid)),
                        js(&v.name.to_string()),
                        vidx.index(),
                        jarr(&fnames)
                    )
                }
                AggregateKind::Closure(cdid, _) => {
                    format!("\"agg\":\"closure\",\"def\":{}", js(&ident(tcx, *cdid).key))
                }
                AggregateKind::Coroutine(cdid, _) => {
                    format!("\"agg\":\"coroutine\",\"def\":{}", js(&ident(tcx, *cdid).key))
                }
                AggregateKind::CoroutineClosure(cdid, _) => {
                    format!("\"agg\":\"coroutine_closure\",\"def\":{}", js(&ident(tcx, *cdid).key))
                }
                AggregateKind::Tuple => "\"agg\":\"tuple\"".to_string(),
                AggregateKind::Array(t) => format!("\"agg\":\"array\",\"elem\":{}", js(&ty_str(*t))),
                other => format!("\"agg\":\"other\",\"s\":{}", js(&format!("{:?}", other))),
            };
            let opsj: Vec<String> = ops.iter().map(|o| operand_json(tcx, body, o)).collect();
            format!("{{\"rv\":\"aggregate\",{},\"ops\":{}}}", ks, jarr(&opsj))
        }
        other => format!("{{\"rv\":\"other\",\"s\":{}}}", js(&format!("{:?}", other))),
    }
}

fn assert_kind_json<'tcx>(tcx: TyCtxt<'tcx>, body: &Body<'tcx>, msg: &AssertKind<Operand<'tcx>>) -> String {
    match msg {
        AssertKind::Overflow(op, a, b) => format!(
            "\"kind\":\"overflow\",\"op\":\"{:?}\",\"a\":{},\"b\":{}",
            op,
            operand_json(tcx, body, a),
            operand_json(tcx, body, b)
        ),
        AssertKind::BoundsCheck { len, index } => format!(
            "\"kind\":\"bounds\",\"len\":{},\"index\":{}",
            operand_json(tcx, body, len),
            operand_json(tcx, body, index)
        ),
        AssertKind::DivisionByZero(a) => format!("\"kind\":\"divzero\",\"a\":{}", operand_json(tcx, body, a)),
        AssertKind::RemainderByZero(a) => format!("\"kind\":\"remzero\",\"a\":{}", operand_json(tcx, body, a)),
        AssertKind::OverflowNeg(a) => format!("\"kind\":\"overflowneg\",\"a\":{}", operand_json(tcx, body, a)),
        other => format!("\"kind\":\"other\",\"s\":{}", js(&format!("{:?}", other))),
    }
}

fn body_json<'tcx>(tcx: TyCtxt<'tcx>, def: LocalDefId, body: &Body<'tcx>) -> String {
    let did = def.to_def_id();
    let kind = tcx.def_kind(def);
    let id = ident(tcx, did);
    let (file, line, _) = line_of(tcx, body.span);
    let sm = tcx.sess.source_map();
    let hi_line = sm.lookup_char_pos(body.span.hi()).line;
    let mut buf = String::with_capacity(4096);
    let vis_pub = if matches!(kind, DefKind::Fn | DefKind::AssocFn) {
        tcx.visibility(did).is_public()
    } else {
        false
    };
    let reach = tcx.effective_visibilities(()).is_reachable(def);
    let parent = {
        let root = tcx.typeck_root_def_id(did);
        if root != did {
            Some(ident(tcx, tcx.parent(did)).key)
        } else {
            None
        }
    };
    let _ = write!(
        buf,
        "{{\"id\":{},\"kind\":\"{:?}\",\"file\":{},\"line\":{},\"hi_line\":{},\"coroutine\":{},\"pub\":{},\"reach\":{},\"parent\":{},\"arg_count\":{},",
        ident_json(&id),
        kind,
        js(&file),
        line,
        hi_line,
        body.coroutine.is_some(),
        vis_pub,
        reach,
        jopt(&parent),
        body.arg_count
    );
    // locals
    buf.push_str("\"locals\":[");
    for (i, d) in body.local_decls.iter().enumerate() {
        if i > 0 {
            buf.push(',');
        }
        let _ = write!(buf, "{{\"ty\":{}", js(&ty_str(d.ty)));
        if let Some(a) = adt_of(tcx, d.ty) {
            let _ = write!(buf, ",\"adt\":{}", js(&a));
        }
        if d.is_user_variable() {
            buf.push_str(",\"user\":true");
        }
        buf.push('}');
    }
    buf.push_str("],\"vars\":[");
    let mut first = true;
    for v in &body.var_debug_info {
        if let mir::VarDebugInfoContents::Place(p) = &v.value {
            if !first {
                buf.push(',');
            }
            first = false;
            let _ = write!(buf, "{{\"name\":{},\"p\":{}}}", js(&v.name.to_string()), place_json(tcx, body, p));
        }
    }
    buf.push_str("],\"blocks\":[");
    for (bi, (_bb, data)) in body.basic_blocks.iter_enumerated().enumerate() {
        if bi > 0 {
            buf.push(',');
        }
        let _ = write!(buf, "{{\"cleanup\":{},\"stmts\":[", data.is_cleanup);
        let mut first = true;
        for st in &data.statements {
            let sj = match &st.kind {
                StatementKind::Assign(b) => {
                    let (place, rv) = &**b;
                    Some(format!(
                        "\"s\":\"assign\",\"p\":{},\"v\":{}",
                        place_json(tcx, body, place),
                        rvalue_json(tcx, body, rv)
                    ))
                }
                StatementKind::SetDiscriminant { place, variant_index } => Some(format!(
                    "\"s\":\"setdiscr\",\"p\":{},\"vidx\":{}",
                    place_json(tcx, body, place),
                    variant_index.index()
                )),
                _ => None,
            };
            if let Some(sj) = sj {
                if !first {
                    buf.push(',');
                }
                first = false;
                let _ = write!(buf, "{{{},{}}}", sj, at_json(tcx, &file, st.source_info.span));
            }
        }
        buf.push_str("],\"term\":");
        let term = data.terminator();
        let ts = match &term.kind {
            TerminatorKind::Call { func, args, destination, target, fn_span, .. } => {
                let mut callee = String::new();
                if let Some((cdid, gargs)) = func.const_fn_def() {
                    let cid = ident(tcx, cdid);
                    let _ = write!(
                        callee,
                        "\"callee\":{},\"gargs\":{}",
                        ident_json(&cid),
                        js(&gargs_str(gargs))
                    );
                    let typing_env = ty::TypingEnv::post_analysis(tcx, did);
                    if let Ok(Some(inst)) = ty::Instance::try_resolve(tcx, typing_env, cdid, gargs) {
                        if inst.def_id() != cdid {
                            let _ = write!(callee, ",\"resolved\":{}", ident_json(&ident(tcx, inst.def_id())));
                        } else {
                            callee.push_str(",\"resolved_same\":true");
                        }
                    }
                    if tcx.trait_of_assoc(cdid).is_some() && gargs.len() > 0 {
                        if let Some(t) = gargs[0].as_type() {
                            let _ = write!(callee, ",\"recv_ty\":{}", js(&ty_str(t)));
                            if let Some(a) = adt_of(tcx, t) {
                                let _ = write!(callee, ",\"recv_adt\":{}", js(&a));
                            }
                        }
                    }
                } else {
                    let _ = write!(callee, "\"indirect\":{}", operand_json(tcx, body, func));
                }
                let argsj: Vec<String> = args.iter().map(|a| operand_json(tcx, body, &a.node)).collect();
                let _ = fn_span;
                format!(
                    "\"t\":\"call\",{},\"args\":{},\"dest\":{},\"target\":{}",
                    callee,
                    jarr(&argsj),
                    place_json(tcx, body, destination),
                    target.map(|t| t.index() as i64).unwrap_or(-1)
                )
            }
            TerminatorKind::SwitchInt { discr, targets } => {
                let ts: Vec<String> = targets.iter().map(|(v, t)| format!("[\"{}\",{}]", v, t.index())).collect();
                format!(
                    "\"t\":\"switch\",\"op\":{},\"targets\":{},\"otherwise\":{}",
                    operand_json(tcx, body, discr),
                    jarr(&ts),
                    targets.otherwise().index()
                )
            }
            TerminatorKind::Return => "\"t\":\"return\"".to_string(),
            TerminatorKind::Unreachable => "\"t\":\"unreachable\"".to_string(),
            TerminatorKind::UnwindResume => "\"t\":\"resume\"".to_string(),
            TerminatorKind::Goto { target } => format!("\"t\":\"goto\",\"target\":{}", target.index()),
            TerminatorKind::Drop { place, target, .. } => format!(
                "\"t\":\"drop\",\"p\":{},\"target\":{}",
                place_json(tcx, body, place),
                target.index()
            ),
            TerminatorKind::Assert { cond, expected, msg, target, .. } => format!(
                "\"t\":\"assert\",\"cond\":{},\"expected\":{},{},\"target\":{}",
                operand_json(tcx, body, cond),
                expected,
                assert_kind_json(tcx, body, msg),
                target.index()
            ),
            TerminatorKind::Yield { value, resume, resume_arg, drop } => format!(
                "\"t\":\"yield\",\"value\":{},\"resume\":{},\"resume_arg\":{},\"drop\":{}",
                operand_json(tcx, body, value),
                resume.index(),
                place_json(tcx, body, resume_arg),
                drop.map(|d| d.index() as i64).unwrap_or(-1)
            ),
            TerminatorKind::FalseEdge { real_target, imaginary_target } => format!(
                "\"t\":\"goto\",\"target\":{},\"false_edge\":{}",
                real_target.index(),
                imaginary_target.index()
            ),
            TerminatorKind::FalseUnwind { real_target, .. } => {
                format!("\"t\":\"goto\",\"target\":{},\"false_unwind\":true", real_target.index())
            }
            other => format!("\"t\":\"other\",\"s\":{}", js(&format!("{:?}", other))),
        };
        let _ = write!(buf, "{{{},{}}}}}", ts, at_json(tcx, &file, term.source_info.span));
    }
    buf.push_str("]}");
    buf
}

// ---------------------------------------------------------------- HIR literal tables

struct MatchCollector<'tcx> {
    tcx: TyCtxt<'tcx>,
    tr: &'tcx ty::TypeckResults<'tcx>,
    out: Vec<String>,
    owner: String,
    file: String,
}

fn lit_json(l: &rustc_ast::LitKind, neg: bool) -> String {
    use rustc_ast::LitKind::*;
    match l {
        Str(s, _) => format!("{{\"str\":{}}}", js(s.as_str())),
        ByteStr(b, _) => {
            let bytes: Vec<String> = b.as_byte_str().iter().map(|x| x.to_string()).collect();
            format!("{{\"bytes\":[{}]}}", bytes.join(","))
        }
        Byte(b) => format!("{{\"int\":\"{}\"}}", b),
        Char(c) => format!("{{\"char\":{}}}", js(&c.to_string())),
        Int(i, _) => format!("{{\"int\":\"{}{}\"}}", if neg { "-" } else { "" }, i.get()),
        Bool(b) => format!("{{\"bool\":{}}}", b),
        other => format!("{{\"lit\":{}}}", js(&format!("{:?}", other))),
    }
}

impl<'tcx> MatchCollector<'tcx> {
    fn res_path(&self, qp: &hir::QPath<'tcx>, hid: hir::HirId) -> String {
        match self.tr.qpath_res(qp, hid) {
            Res::Def(_, did) => qpath(self.tcx, did),
            Res::Local(_) => "local".to_string(),
            Res::SelfCtor(_) => "Self".to_string(),
            other => format!("{:?}", other),
        }
    }
    fn pat_json(&self, p: &hir::Pat<'tcx>) -> Option<String> {
        match &p.kind {
            hir::PatKind::Expr(pe) => match &pe.kind {
                hir::PatExprKind::Lit { lit, negated } => Some(lit_json(&lit.node, *negated)),
                hir::PatExprKind::Path(qp) => Some(format!("{{\"path\":{}}}", js(&self.res_path(qp, pe.hir_id)))),
                _ => None,
            },
            hir::PatKind::Tuple(ps, _) => {
                let v: Option<Vec<String>> = ps.iter().map(|q| self.pat_json(q)).collect();
                v.map(|v| format!("[{}]", v.join(",")))
            }
            hir::PatKind::Wild => Some("\"_\"".to_string()),
            hir::PatKind::Binding(_, _, name, None) => Some(format!("{{\"bind\":{}}}", js(name.as_str()))),
            hir::PatKind::Or(ps) => {
                let v: Option<Vec<String>> = ps.iter().map(|q| self.pat_json(q)).collect();
                v.map(|v| format!("{{\"or\":[{}]}}", v.join(",")))
            }
            hir::PatKind::Ref(inner, ..) => self.pat_json(inner),
            hir::PatKind::Range(lo, hi, end) => {
                let f = |e: &Option<&hir::PatExpr<'tcx>>| -> String {
                    match e {
                        Some(pe) => match &pe.kind {
                            hir::PatExprKind::Lit { lit, negated } => lit_json(&lit.node, *negated),
                            hir::PatExprKind::Path(qp) => format!("{{\"path\":{}}}", js(&self.res_path(qp, pe.hir_id))),
                            _ => "null".to_string(),
                        },
                        None => "null".to_string(),
                    }
                };
                Some(format!(
                    "{{\"range\":[{},{}],\"inclusive\":{}}}",
                    f(lo),
                    f(hi),
                    matches!(end, hir::RangeEnd::Included)
                ))
            }
            hir::PatKind::TupleStruct(qp, ps, _) => {
                let v: Option<Vec<String>> = ps.iter().map(|q| self.pat_json(q)).collect();
                v.map(|v| format!("{{\"ctor\":{},\"args\":[{}]}}", js(&self.res_path(qp, p.hir_id)), v.join(",")))
            }
            _ => None,
        }
    }
    fn expr_summary(&self, e: &hir::Expr<'tcx>, depth: usize) -> String {
        if depth > 6 {
            return "{\"deep\":true}".to_string();
        }
        match &e.kind {
            hir::ExprKind::Lit(l) => lit_json(&l.node, false),
            hir::ExprKind::Unary(hir::UnOp::Neg, inner) => match &inner.kind {
                hir::ExprKind::Lit(l) => lit_json(&l.node, true),
                _ => format!("{{\"neg\":{}}}", self.expr_summary(inner, depth + 1)),
            },
            hir::ExprKind::Call(f, args) => {
                let fs = match &f.kind {
                    hir::ExprKind::Path(qp) => self.res_path(qp, f.hir_id),
                    _ => "?".into(),
                };
                let a: Vec<String> = args.iter().map(|x| self.expr_summary(x, depth + 1)).collect();
                format!("{{\"call\":{},\"args\":[{}]}}", js(&fs), a.join(","))
            }
            hir::ExprKind::MethodCall(seg, recv, args, _) => {
                let m = self
                    .tr
                    .type_dependent_def_id(e.hir_id)
                    .map(|d| qpath(self.tcx, d))
                    .unwrap_or_else(|| seg.ident.to_string());
                let a: Vec<String> = args.iter().map(|x| self.expr_summary(x, depth + 1)).collect();
                format!(
                    "{{\"method\":{},\"recv\":{},\"args\":[{}]}}",
                    js(&m),
                    self.expr_summary(recv, depth + 1),
                    a.join(",")
                )
            }
            hir::ExprKind::Path(qp) => format!("{{\"path\":{}}}", js(&self.res_path(qp, e.hir_id))),
            hir::ExprKind::AddrOf(_, _, inner) => self.expr_summary(inner, depth + 1),
            hir::ExprKind::DropTemps(inner) => self.expr_summary(inner, depth + 1),
            hir::ExprKind::Tup(es) => {
                let a: Vec<String> = es.iter().map(|x| self.expr_summary(x, depth + 1)).collect();
                format!("[{}]", a.join(","))
            }
            hir::ExprKind::Array(es) => {
                let a: Vec<String> = es.iter().map(|x| self.expr_summary(x, depth + 1)).collect();
                format!("{{\"array\":[{}]}}", a.join(","))
            }
            hir::ExprKind::Block(b, _) if b.stmts.is_empty() && b.expr.is_some() => {
                self.expr_summary(b.expr.unwrap(), depth + 1)
            }
            hir::ExprKind::Ret(Some(inner)) => format!("{{\"ret\":{}}}", self.expr_summary(inner, depth + 1)),
            _ => {
                let (_, l, c) = line_of(self.tcx, e.span);
                format!("{{\"expr_at\":\"{}:{}\"}}", l, c)
            }
        }
    }
}

impl<'tcx> Visitor<'tcx> for MatchCollector<'tcx> {
    fn visit_expr(&mut self, e: &'tcx hir::Expr<'tcx>) {
        if let hir::ExprKind::Match(scrut, arms, src) = &e.kind {
            let pats: Vec<Option<String>> = arms.iter().map(|a| self.pat_json(a.pat)).collect();
            let nlit = pats
                .iter()
                .filter(|p| p.as_ref().map(|s| s != "\"_\"" && !s.starts_with("{\"bind\"")).unwrap_or(false))
                .count();
            if nlit >= 1 && pats.iter().all(|p| p.is_some()) && matches!(src, hir::MatchSource::Normal) {
                let (_, l, _) = line_of(self.tcx, e.span);
                let mut s = format!(
                    "{{\"owner\":{},\"file\":{},\"ln\":{},\"scrut\":{},\"scrut_ty\":{},\"arms\":[",
                    js(&self.owner),
                    js(&self.file),
                    l,
                    self.expr_summary(scrut, 0),
                    js(&ty_str(self.tr.expr_ty(scrut)))
                );
                for (i, a) in arms.iter().enumerate() {
                    if i > 0 {
                        s.push(',');
                    }
                    let _ = write!(
                        s,
                        "{{\"pat\":{},\"guard\":{},\"body\":{}}}",
                        pats[i].as_ref().unwrap(),
                        a.guard.is_some(),
                        self.expr_summary(a.body, 0)
                    );
                }
                s.push_str("]}");
                self.out.push(s);
            }
        }
        intravisit::walk_expr(self, e);
    }
}

// ---------------------------------------------------------------- callbacks

struct Cb;

fn is_const_like(k: DefKind) -> bool {
    matches!(
        k,
        DefKind::Const { .. } | DefKind::AssocConst { .. } | DefKind::AnonConst | DefKind::InlineConst | DefKind::Static { .. }
    )
}

impl rustc_driver::Callbacks for Cb {
    fn after_expansion<'tcx>(&mut self, _c: &interface::Compiler, tcx: TyCtxt<'tcx>) -> Compilation {
        let out = match std::env::var("H3FACTS_OUT") {
            Ok(o) => o,
            Err(_) => return Compilation::Continue,
        };
        let krate = crate_name(tcx);
        if let Ok(only) = std::env::var("H3FACTS_CRATES") {
            if !only.split(',').any(|c| c == krate) {
                return Compilation::Continue;
            }
        }
        // phase 1: clone all bodies, no other queries in between
        let mut owners: Vec<LocalDefId> = tcx.hir_body_owners().collect();
        owners.sort_by_key(|d| !is_const_like(tcx.def_kind(*d)));
        let mut cloned: Vec<(LocalDefId, Body<'tcx>)> = Vec::with_capacity(owners.len());
        let mut stolen: Vec<String> = Vec::new();
        for def in owners.iter() {
            let steal = tcx.mir_built(*def);
            if steal.is_stolen() {
                stolen.push(format!("{:?}", def));
                continue;
            }
            cloned.push((*def, steal.borrow().clone()));
        }
        if !stolen.is_empty() {
            eprintln!("h3facts: FATAL: {} mir_built bodies already stolen in {}: {:?}", stolen.len(), krate, stolen);
            std::process::exit(101);
        }
        // phase 2: serialise
        let mut o = String::with_capacity(8 << 20);
        let _ = write!(o, "{{\"crate\":{},\"bodies\":[\n", js(&krate));
        for (i, (def, body)) in cloned.iter().enumerate() {
            if i > 0 {
                o.push_str(",\n");
            }
            o.push_str(&body_json(tcx, *def, body));
        }
        o.push_str("\n],\"matches\":[\n");
        let mut first = true;
        for (def, _) in cloned.iter() {
            let did = def.to_def_id();
            let root = tcx.typeck_root_def_id(did).expect_local();
            let tr = tcx.typeck(root);
            let hb = tcx.hir_body_owned_by(*def);
            let (file, _, _) = line_of(tcx, hb.value.span);
            let mut mc = MatchCollector { tcx, tr, out: Vec::new(), owner: ident(tcx, did).key, file };
            mc.visit_expr(hb.value);
            for m in mc.out {
                if !first {
                    o.push_str(",\n");
                }
                first = false;
                o.push_str(&m);
            }
        }
        // phase 3: constants, ADTs (discriminants need const-eval), impls
        o.push_str("\n],\"consts\":[\n");
        let mut first = true;
        for def in owners.iter() {
            let did = def.to_def_id();
            if !matches!(tcx.def_kind(did), DefKind::Const { .. } | DefKind::AssocConst { .. }) {
                continue;
            }
            if tcx.generics_of(did).requires_monomorphization(tcx) {
                continue;
            }
            let ty = tcx.type_of(did).instantiate_identity().skip_norm_wip();
            if let Ok(val) = tcx.const_eval_poly(did) {
                let id = ident(tcx, did);
                let v = match val.try_to_scalar_int() {
                    Some(si) => format!("\"int\":\"{}\",\"size\":{}", si.to_bits_unchecked(), si.size().bytes()),
                    None => "\"int\":null".to_string(),
                };
                if !first {
                    o.push_str(",\n");
                }
                first = false;
                let _ = write!(o, "{{\"key\":{},\"path\":{},\"ty\":{},{}}}", js(&id.key), js(&id.path), js(&ty_str(ty)), v);
            }
        }
        o.push_str("\n],\"adts\":[\n");
        let mut first = true;
        for id in tcx.hir_free_items() {
            let did = id.owner_id.to_def_id();
            if !matches!(tcx.def_kind(did), DefKind::Struct | DefKind::Enum | DefKind::Union) {
                continue;
            }
            let adt = tcx.adt_def(did);
            if !first {
                o.push_str(",\n");
            }
            first = false;
            let (file, line, _) = line_of(tcx, tcx.def_span(did));
            let gens: Vec<String> = tcx.generics_of(did).own_params.iter().map(|p| js(p.name.as_str())).collect();
            let _ = write!(
                o,
                "{{\"adt\":{},\"kind\":\"{:?}\",\"pub\":{},\"reach\":{},\"file\":{},\"line\":{},\"has_drop\":{},\"generics\":{},\"variants\":[",
                js(&qpath(tcx, did)),
                tcx.def_kind(did),
                tcx.visibility(did).is_public(),
                tcx.effective_visibilities(()).is_reachable(id.owner_id.def_id),
                js(&file),
                line,
                adt.has_dtor(tcx),
                jarr(&gens)
            );
            for (vi, v) in adt.variants().iter_enumerated() {
                if vi.index() > 0 {
                    o.push(',');
                }
                let discr = if adt.is_enum() {
                    format!("\"{}\"", adt.discriminant_for_variant(tcx, vi).val)
                } else {
                    "null".to_string()
                };
                let _ = write!(o, "{{\"name\":{},\"discr\":{},\"fields\":[", js(&v.name.to_string()), discr);
                for (fi, f) in v.fields.iter().enumerate() {
                    if fi > 0 {
                        o.push(',');
                    }
                    let fty = tcx.type_of(f.did).instantiate_identity().skip_norm_wip();
                    let adts: Vec<String> = adts_in(tcx, fty).iter().map(|s| js(s)).collect();
                    let _ = write!(
                        o,
                        "{{\"name\":{},\"ty\":{},\"pub\":{},\"vis\":{},\"adts\":{}}}",
                        js(&f.name.to_string()),
                        js(&ty_str(fty)),
                        f.vis.is_public(),
                        js(&format!("{:?}", f.vis)),
                        jarr(&adts)
                    );
                }
                o.push_str("]}");
            }
            o.push_str("]}");
        }
        // external enums that are matched on: variant names and discriminants only
        let ext: Vec<DefId> = SWITCHED_ADTS.with(|v| v.borrow().clone());
        for did in ext {
            let adt = tcx.adt_def(did);
            if !first {
                o.push_str(",\n");
            }
            first = false;
            let _ = write!(
                o,
                "{{\"adt\":{},\"kind\":\"Enum\",\"pub\":true,\"reach\":true,\"external\":true,\"file\":\"\",\"line\":0,\"has_drop\":false,\"generics\":[],\"variants\":[",
                js(&qpath(tcx, did))
            );
            for (vi, v) in adt.variants().iter_enumerated() {
                if vi.index() > 0 {
                    o.push(',');
                }
                let _ = write!(
                    o,
                    "{{\"name\":{},\"discr\":\"{}\",\"fields\":[]}}",
                    js(&v.name.to_string()),
                    adt.discriminant_for_variant(tcx, vi).val
                );
            }
            o.push_str("]}");
        }
        o.push_str("\n],\"impls\":[\n");
        let mut first = true;
        for id in tcx.hir_free_items() {
            let did = id.owner_id.to_def_id();
            if !matches!(tcx.def_kind(did), DefKind::Impl { .. }) {
                continue;
            }
            let self_ty = tcx.type_of(did).instantiate_identity().skip_norm_wip();
            let (tr, targs) = match tcx.impl_opt_trait_ref(did) {
                Some(tr) => {
                    let tr = tr.skip_binder();
                    let targs: Vec<String> = tr
                        .args
                        .iter()
                        .skip(1)
                        .filter(|a| a.as_region().is_none())
                        .map(|a| js(&with_no_trimmed_paths!(format!("{}", a))))
                        .collect();
                    (Some(qpath(tcx, tr.def_id)), targs)
                }
                None => (None, vec![]),
            };
            let items: Vec<String> = tcx
                .associated_item_def_ids(did)
                .iter()
                .map(|d| js(&ident(tcx, *d).key))
                .collect();
            if !first {
                o.push_str(",\n");
            }
            first = false;
            let (file, line, _) = line_of(tcx, tcx.def_span(did));
            let _ = write!(
                o,
                "{{\"self_ty\":{},\"self_adt\":{},\"trait\":{},\"trait_args\":{},\"items\":{},\"file\":{},\"line\":{}}}",
                js(&ty_str(self_ty)),
                jopt(&adt_of(tcx, self_ty).filter(|_| matches!(self_ty.kind(), ty::Adt(..)))),
                jopt(&tr),
                jarr(&targs),
                jarr(&items),
                js(&file),
                line
            );
        }
        o.push_str("\n]}\n");
        std::fs::create_dir_all(&out).unwrap();
        let tmp = format!("{}/.{}.json.tmp{}", out, krate, std::process::id());
        std::fs::write(&tmp, &o).unwrap();
        std::fs::rename(&tmp, format!("{}/{}.json", out, krate)).unwrap();
        eprintln!("h3facts: {} bodies for {}", cloned.len(), krate);
        Compilation::Continue
    }
}

fn main() {
    let mut args: Vec<String> = std::env::args().collect();
    // RUSTC_WORKSPACE_WRAPPER: argv[1] is the real rustc
    if args.len() > 1 && (args[1].ends_with("rustc") || args[1].contains("/rustc")) {
        args.remove(1);
    }
    rustc_driver::run_compiler(&args, &mut Cb);
}
