"""Self-test of the rules (DESIGN.md section 7): each catalogued mutant is applied to a scratch copy
of /repo's current working tree (outside /repo and /verif, removed afterwards), the tree must still
compile (the fact extraction is a `cargo check`), and the property's rules must report a violation
whose key matches `expect`; benign twins must stay silent. Nothing of h3 is executed."""
import json
import os
import re
import shutil
import subprocess
import sys
import tempfile

from . import facts

VERIF = facts.VERIF


def _copy_tree(dst):
    subprocess.run(["rsync", "-a", "--delete", "--exclude", "target", "--exclude", ".git", facts.REPO + "/", dst + "/"], check=True)


def _sed(path, expr):
    before = open(path, "rb").read()
    subprocess.run(["sed", "-i", "-E", expr, path], check=True)
    return open(path, "rb").read() != before


def _revert(dst, commit):
    p = subprocess.run(["git", "-C", facts.REPO, "show", "--format=", commit], stdout=subprocess.PIPE, check=True)
    q = subprocess.run(["git", "apply", "-R", "--unsafe-paths", "--directory", dst, "-"], input=p.stdout, cwd="/")
    if q.returncode != 0:
        q = subprocess.run(["patch", "-R", "-p1", "-s", "-d", dst], input=p.stdout)
    return q.returncode == 0


def _run_check(prop, repo):
    env = dict(os.environ, VERIF_REPO=repo)
    env.pop("VERIF_TIER", None)
    p = subprocess.run([sys.executable, os.path.join(VERIF, "check"), prop, "--tier", "quick"], env=env, stdout=subprocess.PIPE,
                       stderr=subprocess.STDOUT, text=True)
    keys = re.findall(r"^  \S+ (\S+?:.*) at ", p.stdout, flags=re.M)
    broken = "CHECKER-BROKEN" in p.stdout
    return p.returncode, keys, broken, p.stdout[-1500:]


def run(ctx, prop):
    with open(os.path.join(VERIF, "mutants", "catalogue.json")) as fh:
        cat = json.load(fh)
    muts = [m for m in cat["mutants"] if m["prop"] == prop]
    ben = [m for m in cat["benign"] if m["prop"] == prop]
    # independently seeded changes kept under seeded/<id>/ (patch.diff + meta.json): each must be reported by its property's check
    seeds = []
    sd = os.path.join(VERIF, "seeded")
    for d in sorted(os.listdir(sd)) if os.path.isdir(sd) else []:
        mf = os.path.join(sd, d, "meta.json")
        if os.path.exists(mf) and os.path.exists(os.path.join(sd, d, "patch.diff")):
            with open(mf) as fh:
                if json.load(fh).get("property") == prop:
                    seeds.append(d)
    # behaviour-preserving refactorings kept under benign/<id>/: the property's own check must stay silent on each
    twins = []
    bd = os.path.join(VERIF, "benign")
    for d in sorted(os.listdir(bd)) if os.path.isdir(bd) else []:
        mf = os.path.join(bd, d, "meta.json")
        if os.path.exists(mf):
            with open(mf) as fh:
                mj = json.load(fh)
            if mj.get("property") == prop:
                twins.append((d, mj))
    if not muts and not ben and not seeds and not twins:
        ctx.ok("SELFTEST", "no catalogued mutants for " + prop, "")
        return
    base = tempfile.mkdtemp(prefix="h3-selftest-", dir="/var/tmp")
    try:
        for m in muts + ben:
            benign = m in ben
            dst = os.path.join(base, "tree")
            _copy_tree(dst)
            applied = True
            if "revert" in m:
                # a list reverts several fix commits, newest first (later fixes may touch the same lines)
                for c in (m["revert"] if isinstance(m["revert"], list) else [m["revert"]]):
                    applied = _revert(dst, c) and applied
            for f, e in m.get("edits", []):
                applied = _sed(os.path.join(dst, f), e) and applied
            if not applied:
                # the anchor text of the mutant no longer exists in the tree (refactored): not a verdict about the rule
                ctx.ok("SELFTEST", "%s: not applicable to this tree (edit did not apply)" % m["id"], m["desc"])
                continue
            rc, keys, broken, tail = _run_check(prop, dst)
            if broken:
                ctx.ok("SELFTEST", "%s: mutant does not compile on this tree (skipped)" % m["id"], m["desc"])
                continue
            if benign:
                ctx.check(rc == 0, "SELFTEST", "benign twin " + m["id"], "stays silent: " + m["desc"],
                          "the check raises an alarm on a behaviour-preserving rewrite (%s): %s" % (m["desc"], keys[:3]), "silent")
            else:
                hit = [k for k in keys if re.search(m["expect"], k)]
                ctx.check(rc == 1 and bool(hit), "SELFTEST", "mutant " + m["id"], "reported: " + m["desc"],
                          "the rules do not report the seeded change `%s` (expected a violation matching /%s/, got %s)" % (m["desc"], m["expect"], keys[:4]),
                          (hit[0] if hit else "")[:160])
        for d in seeds:
            dst = os.path.join(base, "tree")
            _copy_tree(dst)
            with open(os.path.join(sd, d, "patch.diff"), "rb") as fh:
                q = subprocess.run(["patch", "-p1", "-s", "-f", "-d", dst], stdin=fh, stdout=subprocess.PIPE, stderr=subprocess.STDOUT)
            if q.returncode != 0:
                ctx.ok("SELFTEST", "seeded %s: not applicable to this tree (patch did not apply)" % d, "")
                continue
            rc, keys, broken, tail = _run_check(prop, dst)
            if broken:
                ctx.ok("SELFTEST", "seeded %s: does not compile on this tree (skipped)" % d, "")
                continue
            ctx.check(rc == 1 and bool(keys), "SELFTEST", "seeded change " + d, "reported",
                      "the rules do not report the independently seeded change seeded/%s (see its notes.md)" % d, (keys[0] if keys else "")[:160])
        for d, mj in twins:
            if mj.get("limitation"):
                ctx.ok("SELFTEST", "refactoring %s: documented limitation, not run (%s)" % (d, mj["limitation"][:120]), "")
                continue
            dst = os.path.join(base, "tree")
            _copy_tree(dst)
            with open(os.path.join(bd, d, "patch.diff"), "rb") as fh:
                q = subprocess.run(["patch", "-p1", "-s", "-f", "-d", dst], stdin=fh, stdout=subprocess.PIPE, stderr=subprocess.STDOUT)
            if q.returncode != 0:
                ctx.ok("SELFTEST", "refactoring %s: not applicable to this tree (patch did not apply)" % d, "")
                continue
            rc, keys, broken, tail = _run_check(prop, dst)
            if broken:
                ctx.ok("SELFTEST", "refactoring %s: does not compile on this tree (skipped)" % d, "")
                continue
            ctx.check(rc == 0, "SELFTEST", "refactoring " + d, "stays silent",
                      "the check raises an alarm on the behaviour-preserving refactoring benign/%s: %s" % (d, keys[:3]), "silent")
    finally:
        shutil.rmtree(base, ignore_errors=True)
