"""Self-test of the rules (DESIGN.md section 7): each catalogued mutant is applied to a scratch copy
of /repo's current working tree (outside /repo and /verif, removed afterwards), the tree must still
compile (the fact extraction is a `cargo check`), and the property's rules must report a violation
whose key matches `expect`; benign twins must stay silent. Nothing of h3 is executed."""
import json
import os
import re
import shutil
import subprocess
import sys
import tempfile

from . import facts

VERIF = facts.VERIF


def _copy_tree(dst):
    subprocess.run(["rsync", "-a", "--delete", "--exclude", "target", "--exclude", ".git", facts.REPO + "/", dst + "/"], check=True)


def _sed(path, expr):
    before = open(path, "rb").read()
    subprocess.run(["sed", "-i", "-E", expr, path], check=True)
    return open(path, "rb").read() != before


def _revert(dst, commit):
    p = subprocess.run(["git", "-C", facts.REPO, "show", "--format=", commit], stdout=subprocess.PIPE, check=True)
    q = subprocess.run(["git", "apply", "-R", "--unsafe-paths", "--directory", dst, "-"], input=p.stdout, cwd="/")
    if q.returncode != 0:
        q = subprocess.run(["patch", "-R", "-p1", "-s", "-d", dst], input=p.stdout)
    return q.returncode == 0


def _run_check(prop, repo):
    env = dict(os.environ, VERIF_REPO=repo)
    env.pop("VERIF_TIER", None)
    p = subprocess.run([sys.executable, os.path.join(VERIF, "check"), prop, "--tier", "quick"], env=env, stdout=subprocess.PIPE,
                       stderr=subprocess.STDOUT, text=True)
    keys = re.findall(r"^  \S+ (\S+?:.*) at ", p.stdout, flags=re.M)
    broken = "CHECKER-BROKEN" in p.stdout
    return p.returncode, keys, broken, p.stdout[-1500:]


def run(ctx, prop):
    with open(os.path.join(VERIF, "mutants", "catalogue.json")) as fh:
        cat = json.load(fh)
    muts = [m for m in cat["mutants"] if m["prop"] == prop]
    ben = [m for m in cat["benign"] if m["prop"] == prop]
    if not muts and not ben:
        ctx.ok("SELFTEST", "no catalogued mutants for " + prop, "")
        return
    base = tempfile.mkdtemp(prefix="h3-selftest-", dir="/var/tmp")
    try:
        for m in muts + ben:
            benign = m in ben
            dst = os.path.join(base, "tree")
            _copy_tree(dst)
            applied = True
            if "revert" in m:
                applied = _revert(dst, m["revert"])
            for f, e in m.get("edits", []):
                applied = _sed(os.path.join(dst, f), e) and applied
            if not applied:
                # the anchor text of the mutant no longer exists in the tree (refactored): not a verdict about the rule
                ctx.ok("SELFTEST", "%s: not applicable to this tree (edit did not apply)" % m["id"], m["desc"])
                continue
            rc, keys, broken, tail = _run_check(prop, dst)
            if broken:
                ctx.ok("SELFTEST", "%s: mutant does not compile on this tree (skipped)" % m["id"], m["desc"])
                continue
            if benign:
                ctx.check(rc == 0, "SELFTEST", "benign twin " + m["id"], "stays silent: " + m["desc"],
                          "the check raises an alarm on a behaviour-preserving rewrite (%s): %s" % (m["desc"], keys[:3]), "silent")
            else:
                hit = [k for k in keys if re.search(m["expect"], k)]
                ctx.check(rc == 1 and bool(hit), "SELFTEST", "mutant " + m["id"], "reported: " + m["desc"],
                          "the rules do not report the seeded change `%s` (expected a violation matching /%s/, got %s)" % (m["desc"], m["expect"], keys[:4]),
                          (hit[0] if hit else "")[:160])
    finally:
        shutil.rmtree(base, ignore_errors=True)
