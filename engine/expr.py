"""A5 comparison normal form and A6 constant folding over path values / origins.

Both value representations are accepted: path values (paths.py: agg has 4 fields, proj
names carry a leading '.') and flow origins (flow.py: agg has 3 fields)."""

MASK = {"u8": 8, "u16": 16, "u32": 32, "u64": 64, "u128": 128, "usize": 64,
        "i8": 8, "i16": 16, "i32": 32, "i64": 64, "i128": 128, "isize": 64}

NEG = {"<": ">=", "<=": ">", ">": "<=", ">=": "<", "==": "!=", "!=": "=="}
SWAP = {"<": ">", "<=": ">=", ">": "<", ">=": "<=", "==": "==", "!=": "!="}
BIN = {"Lt": "<", "Le": "<=", "Gt": ">", "Ge": ">=", "Eq": "==", "Ne": "!="}
METH = {"lt": "<", "le": "<=", "gt": ">", "ge": ">=", "eq": "==", "ne": "!="}


def _last(key):
    return key.rsplit("::", 1)[-1]


def fold(v, consts=None, subst=None):
    """Integer value of a constant expression, or None. `subst(v)` may supply the value of
    a variable sub-term (used to evaluate extracted decision lists over a small domain)."""
    consts = consts or {}
    if subst is not None:
        r = subst(v)
        if r is not None:
            return r
    k = v[0]
    if k == "const":
        if isinstance(v[1], bool):
            return int(v[1])
        if isinstance(v[1], int):
            return v[1]
        if isinstance(v[1], str) and v[1] in consts:
            return consts[v[1]]
        return None
    if k == "cast":
        x = fold(v[1], consts, subst)
        if x is None:
            return None
        bits = MASK.get(v[2])
        if bits:
            x &= (1 << bits) - 1
        return x
    if k == "proj":
        names = tuple(n.lstrip(".") for n in v[2])
        b = v[1]
        if names == ("0",):
            if b[0] == "binop":          # (a op b).0 of a checked operation
                return fold(b, consts, subst)
            if b[0] == "const":          # newtype constant, e.g. VarInt::MAX.0
                return fold(b, consts, subst)
        return None
    if k == "binop":
        a, b = fold(v[2], consts, subst), fold(v[3], consts, subst)
        if a is None or b is None:
            return None
        op = v[1].replace("WithOverflow", "").replace("Unchecked", "")
        try:
            if op == "Add":
                return a + b
            if op == "Sub":
                return a - b
            if op == "Mul":
                return a * b
            if op == "Div":
                return a // b if b else None
            if op == "Rem":
                return a % b if b else None
            if op == "Shl":
                return a << b if 0 <= b < 256 else None
            if op == "Shr":
                return a >> b if 0 <= b < 256 else None
            if op == "BitOr":
                return a | b
            if op == "BitAnd":
                return a & b
            if op == "BitXor":
                return a ^ b
            if op in BIN:
                return int({"<": a < b, "<=": a <= b, ">": a > b, ">=": a >= b, "==": a == b, "!=": a != b}[BIN[op]])
        except Exception:
            return None
        return None
    if k == "unop":
        a = fold(v[2], consts, subst)
        if a is None:
            return None
        if v[1] == "Neg":
            return -a
        return None
    if (k == "call" and _last(v[1]) == "len" and v[2]) or (k == "unop" and v[1] == "PtrMetadata"):
        # length of `x[a..b]` / `x[..b]` with constant bounds (the indexing itself panics when the range does not fit, so on every
        # path that goes on the slice has exactly that length)
        s_ = v[2][0] if k == "call" else v[2]
        if s_[0] == "call" and _last(s_[1]) in ("index", "index_mut") and len(s_[2]) == 2 and s_[2][1][0] == "agg":
            rg = s_[2][1]
            bnd = [fold(x, consts, subst) for x in rg[3]]
            if rg[1].endswith("::Range") and len(bnd) == 2 and None not in bnd and bnd[1] >= bnd[0]:
                return bnd[1] - bnd[0]
            if rg[1].endswith("::RangeTo") and len(bnd) == 1 and bnd[0] is not None:
                return bnd[0]
        if k == "unop":
            return None
    if k == "call":
        name = _last(v[1])
        args = [fold(a, consts, subst) for a in v[2]]
        if any(a is None for a in args):
            return None
        if name == "pow" and v[1].split("::")[0] in MASK and len(args) == 2:
            return args[0] ** args[1]
        if name == "saturating_add" and len(args) == 2 and v[1].split("::")[0] in MASK:
            return min(args[0] + args[1], (1 << MASK[v[1].split("::")[0]]) - 1)
        if name == "saturating_sub" and len(args) == 2 and v[1].split("::")[0] in MASK:
            return max(args[0] - args[1], 0)
        if name == "min" and len(args) == 2:
            return min(args)
        if name == "max" and len(args) == 2:
            return max(args)
        if name in ("from", "into") and len(args) == 1 and ("core::convert" in v[1]):
            return args[0]
        return None
    return None


TYRANGE = {"u8": (0, 255), "u16": (0, 65535), "u32": (0, 2 ** 32 - 1), "u64": (0, 2 ** 64 - 1), "usize": (0, 2 ** 64 - 1),
           "i8": (-128, 127), "i16": (-32768, 32767), "i32": (-2 ** 31, 2 ** 31 - 1), "i64": (-2 ** 63, 2 ** 63 - 1), "isize": (-2 ** 63, 2 ** 63 - 1)}
NAMED = {"%s::MAX" % t: r[1] for t, r in TYRANGE.items()}
NAMED.update({"%s::MIN" % t: r[0] for t, r in TYRANGE.items()})


def vtype(v):
    """Primitive integer type of a value when it is evident from the expression itself, else None."""
    k = v[0]
    if k == "cast":
        return v[2] if v[2] in TYRANGE else None
    if k == "const" and isinstance(v[1], str) and v[1] in NAMED:
        return v[1].split("::")[0]
    if k == "unop" and v[1] == "Neg":
        return vtype(v[2])
    if k == "binop":
        return vtype(v[2]) or vtype(v[3])
    if k == "call" and _last(v[1]) in ("min", "max") and v[1].startswith("core::cmp::") and len(v[2]) == 2:
        return vtype(v[2][0]) or vtype(v[2][1])
    return None


def vrange(v, consts=None):
    """(lo, hi) bounds of an integer expression by interval arithmetic, or None when nothing is known.
    Unknown leaves are bounded by their evident type only."""
    c = fold(v, consts)
    if c is None and v[0] == "const" and v[1] in NAMED:
        c = NAMED[v[1]]
    if c is not None:
        return (c, c)
    k = v[0]
    if k == "cast":
        inner = vrange(v[1], consts)
        tr = TYRANGE.get(v[2])
        if inner and tr and tr[0] <= inner[0] and inner[1] <= tr[1]:
            return inner
        return tr
    if k == "unop" and v[1] == "Neg":
        r = vrange(v[2], consts)
        return (-r[1], -r[0]) if r else None
    if k == "call" and _last(v[1]) in ("min", "max") and v[1].startswith("core::cmp::") and len(v[2]) == 2:
        ty = TYRANGE.get(vtype(v))
        a = vrange(v[2][0], consts) or ty
        b = vrange(v[2][1], consts) or ty
        if not a or not b:
            return None
        f = min if _last(v[1]) == "min" else max
        return (f(a[0], b[0]), f(a[1], b[1]))
    if k == "binop":
        op = v[1].replace("WithOverflow", "").replace("Unchecked", "")
        a, b = vrange(v[2], consts), vrange(v[3], consts)
        if a and b:
            if op == "Add":
                return (a[0] + b[0], a[1] + b[1])
            if op == "Sub":
                return (a[0] - b[1], a[1] - b[0])
    return TYRANGE.get(vtype(v))


def cmp_nf(v, label="true"):
    """(lhs, rel, rhs) that holds when the branch on boolean value v takes edge `label`."""
    truth = label in ("true", True, "1")
    while v[0] == "unop" and v[1] == "Not":
        v = v[2]
        truth = not truth
    rel = None
    if v[0] == "binop" and v[1] in BIN:
        rel, a, b = BIN[v[1]], v[2], v[3]
    elif v[0] == "call" and len(v[2]) == 2 and _last(v[1]) in METH and ("PartialOrd" in v[1] or "PartialEq" in v[1]
                                                                         or "core::cmp" in v[1]):
        rel, a, b = METH[_last(v[1])], v[2][0], v[2][1]
    if rel is None:
        return None
    if not truth:
        rel = NEG[rel]
    if _constant(a) and not _constant(b):      # canonical form: a constant operand on the right (`0 < n` is `n > 0`)
        a, b, rel = b, a, SWAP[rel]
    return (a, rel, b)


def _constant(v):
    if v[0] == "const":
        return True
    if v[0] == "cast":
        return _constant(v[1])
    if v[0] == "proj" and v[1][0] == "const":
        return True
    if v[0] == "binop":
        return _constant(v[2]) and _constant(v[3])
    return False


def orient(nf, is_var):
    """Put the side satisfying is_var on the left."""
    if nf is None:
        return None
    a, rel, b = nf
    if is_var(a):
        return (a, rel, b)
    if is_var(b):
        return (b, SWAP[rel], a)
    return None


INF = float("inf")


def interval(tests, is_var, consts=None):
    """Integer interval [lo, hi] implied for the variable by the comparisons against constants among
    `tests` (iterable of (value, label)). Returns (lo, hi, unrecognised list)."""
    lo, hi = 0, INF
    unrec = []
    for v, label in tests:
        nf = orient(cmp_nf(v, label), is_var)
        if nf is None:
            continue
        c = fold(nf[2], consts)
        if c is None:
            unrec.append((v, label))
            continue
        rel = nf[1]
        if rel == "<":
            hi = min(hi, c - 1)
        elif rel == "<=":
            hi = min(hi, c)
        elif rel == ">":
            lo = max(lo, c + 1)
        elif rel == ">=":
            lo = max(lo, c)
        elif rel == "==":
            lo, hi = max(lo, c), min(hi, c)
        elif rel == "!=":
            if c == lo:
                lo = c + 1
            if c == hi:
                hi = c - 1
        else:
            unrec.append((v, label))
    return lo, hi, unrec


def mentions(v, pred):
    """True if some sub-value satisfies pred."""
    st = [v]
    n = 0
    while st and n < 500:
        x = st.pop()
        n += 1
        if pred(x):
            return True
        k = x[0]
        if k == "agg":
            st.extend(x[3] if len(x) > 3 else x[2])
        elif k == "call":
            st.extend(x[2])
        elif k in ("proj", "discr", "okval", "residual", "errconv", "cast"):
            st.append(x[1])
        elif k == "binop":
            st.extend((x[2], x[3]))
        elif k == "unop":
            st.append(x[2])
        elif k == "phi":
            st.extend(x[1])
    return False


def test_holds(test, consts=None, subst=None):
    """Truth of one recorded branch decision (bb, text, label, value, explicit) under a
    substitution: True / False / None (cannot tell)."""
    _, _, label, v, explicit = test[:5]
    if label in ("true", "false"):
        x = fold(v, consts, subst)
        if x is None:
            nf = cmp_nf(v, "true")
            if nf is None:
                return None
            a, b = fold(nf[0], consts, subst), fold(nf[2], consts, subst)
            if a is None or b is None:
                return None
            x = int({"<": a < b, "<=": a <= b, ">": a > b, ">=": a >= b, "==": a == b, "!=": a != b}[nf[1]])
        return bool(x) == (label == "true")
    if v[0] == "discr":
        return None
    x = fold(v, consts, subst)
    if x is None:
        return None
    if label == "otherwise":
        return x not in (explicit or ())
    try:
        return x == int(label)
    except ValueError:
        return None


def decide(paths, consts, subst):
    """The paths whose every decidable test holds under subst (undecidable tests are kept as 'maybe')."""
    out = []
    for p in paths:
        ok = True
        for t in p.tests:
            h = test_holds(t, consts, subst)
            if h is False:
                ok = False
                break
        if ok:
            out.append(p)
    return out
