"""Obligation bookkeeping, known-findings handling, evidence and report files."""
import json
import os
import re
import time

VERIF = os.path.dirname(os.path.dirname(os.path.abspath(__file__)))
# evidence/ and reports/ describe /repo only; runs against another tree (self-tests, seeded
# changes in scratch copies) write elsewhere so that committed evidence never comes from them
_ALT = os.environ.get("VERIF_REPO", "/repo") != "/repo"
OUT = os.path.join(os.environ.get("VERIF_CACHE", os.path.join(VERIF, ".cache")), "alt-out") if _ALT else VERIF


class Ctx:
    def __init__(self, prop, tier, seed=0):
        self.prop = prop
        self.tier = tier
        self.seed = seed
        self.t0 = time.time()
        self.obligations = []      # dicts: rule, instance, status, detail, loc
        self.violations = []       # dicts: key, rule, msg, loc, path
        self.known_hits = []
        self.assumptions = []
        self.configs = []
        self.stats = {}
        self.notes = []
        self.progs = {}
        self.prog = None
        kf = os.path.join(VERIF, "known_findings.json")
        self.known = {}
        if os.path.exists(kf):
            with open(kf) as fh:
                for f in json.load(fh).get("findings", []):
                    if f.get("property") == prop:
                        self.known[f["key"]] = f

    # ---- obligations
    def ok(self, rule, instance, detail="", loc=None):
        self.obligations.append({"rule": rule, "instance": instance, "status": "ok", "detail": detail, "loc": loc})

    def violation(self, rule, fn_key, construct, msg, loc=None, path=None):
        """Report a violated rule instance. key = rule:function-key:construct (no line numbers)."""
        key = "%s:%s:%s" % (rule, fn_key, construct)
        for v in self.violations + self.known_hits:
            if v["key"] == key:
                return
        rec = {"key": key, "rule": rule, "function": fn_key, "construct": construct, "msg": msg, "loc": loc,
               "path": path}
        if key in self.known:
            self.known_hits.append(rec)
            self.obligations.append({"rule": rule, "instance": "%s:%s" % (fn_key, construct),
                                     "status": "known-finding", "detail": msg, "loc": loc})
        else:
            self.violations.append(rec)
            self.obligations.append({"rule": rule, "instance": "%s:%s" % (fn_key, construct),
                                     "status": "violation", "detail": msg, "loc": loc})

    def check(self, cond, rule, fn_key, construct, msg_bad, detail_ok="", loc=None, path=None):
        if cond:
            self.ok(rule, "%s:%s" % (fn_key, construct), detail_ok, loc)
        else:
            self.violation(rule, fn_key, construct, msg_bad, loc, path)
        return cond

    def missing(self, rule, what):
        """Fail closed: an anchor the rule needs is not in the program."""
        self.violation(rule, what, "ANCHOR-MISSING", "anchor not found in the analysed program: %s "
                       "(rule cannot be evaluated; renamed or removed?)" % what)

    def unrecognised(self, rule, fn_key, construct, msg, loc=None):
        self.violation(rule, fn_key, "UNRECOGNISED-IDIOM:" + construct, msg, loc)

    def floor(self, rule, what, count, minimum):
        if count < minimum:
            self.violation(rule, what, "FLOOR", "only %d instances of %s found, floor is %d (a rule that "
                           "matches fewer sites than were confirmed by hand passes vacuously)" % (count, what, minimum))
        else:
            self.ok(rule, "floor:" + what, "%d instances >= floor %d" % (count, minimum))

    def assume(self, text):
        if text not in self.assumptions:
            self.assumptions.append(text)

    # ---- finishing
    def finish(self, explanation, rule_text):
        wall = time.time() - self.t0
        rep_dir = os.path.join(OUT, "reports", self.prop)
        os.makedirs(rep_dir, exist_ok=True)
        for f in os.listdir(rep_dir):
            try:
                os.unlink(os.path.join(rep_dir, f))
            except OSError:
                pass
        lines = []
        for k in self.known_hits:
            lines.append("KNOWN-FINDING: property=%s %s -- %s" % (self.prop, k["key"], k["msg"]))
        for v in self.violations:
            fn = re.sub(r"[^A-Za-z0-9_.-]+", "_", v["key"])[:150] + ".json"
            p = os.path.join(rep_dir, fn)
            with open(p, "w") as fh:
                json.dump({"property": self.prop, "tier": self.tier, **v,
                           "tree": (self.prog.info if self.prog else {})}, fh, indent=1)
            lines.append("  %s %s at %s\n      %s" % (v["rule"], v["key"], v["loc"], v["msg"]))
            if v.get("path"):
                for pl in v["path"][:40]:
                    lines.append("        " + pl)
            lines.append("VIOLATION property=%s replay=%s" % (self.prop, p))
        n_ok = sum(1 for o in self.obligations if o["status"] == "ok")
        n_all = len(self.obligations)
        distinct = len({(o["rule"], o["instance"]) for o in self.obligations})
        samples = []
        seen_rules = set()
        for o in self.obligations:
            if o["rule"] not in seen_rules:
                seen_rules.add(o["rule"])
                samples.append({k: o[k] for k in ("rule", "instance", "status", "detail", "loc")})
        for o in self.obligations:
            if o["status"] != "ok" and len(samples) < 60:
                samples.append({k: o[k] for k in ("rule", "instance", "status", "detail", "loc")})
        per_rule = {}
        for o in self.obligations:
            r = per_rule.setdefault(o["rule"], {"ok": 0, "violation": 0, "known-finding": 0})
            r[o["status"]] += 1
        ev = {
            "property_id": self.prop,
            "tier": self.tier,
            "seed": self.seed,
            "level": "other",
            "coverage": {
                "explanation": explanation,
                "rule": rule_text,
                "obligations": n_all,
                "discharged": n_ok,
                "evaluations": n_all,
                "distinct_nontrivial": distinct,
                "per_rule": per_rule,
                "samples": samples[:60],
                "all_instances": [
                    "%s | %s | %s" % (o["rule"], o["instance"], o["status"]) for o in self.obligations][:1500],
                "configs": self.configs,
                "program": self.stats,
                "known_findings_matched": [k["key"] for k in self.known_hits],
                "checker_cmd": "./check %s --tier %s" % (self.prop, self.tier),
                "trusted_base": [
                    "rustc nightly MIR construction (mir_built) and name/trait resolution",
                    "engine/ library model of std/bytes/futures adapters (DESIGN.md Appendix A)",
                    "tables/*.toml audited entries, ref/*.json RFC transcriptions",
                    "engine/mir.py normalisations applied before the rules ran (expansion of helpers that are not in tables/known_functions.txt, "
                    "resolution of unambiguous renames against tables/known_functions.txt / known_fields.txt); the ones applied in this run are "
                    "counted under program.renames_resolved / program.helpers_expanded and printed as `note:` lines",
                ],
                "exhaustive": True,
            },
            "assumptions": self.assumptions,
            "wall_s": round(wall, 3),
            "violations": len(self.violations),
        }
        os.makedirs(os.path.join(OUT, "evidence"), exist_ok=True)
        with open(os.path.join(OUT, "evidence", self.prop + ".json"), "w") as fh:
            json.dump(ev, fh, indent=1)
        print("== %s tier=%s: %d obligations, %d discharged, %d known findings, %d violations (%.1fs)" % (
            self.prop, self.tier, n_all, n_ok, len(self.known_hits), len(self.violations), wall))
        for r, c in sorted(per_rule.items()):
            print("   %-8s ok=%d violation=%d known=%d" % (r, c["ok"], c["violation"], c["known-finding"]))
        for ln in lines:
            print(ln)
        return 1 if self.violations else 0
