"""Enumeration-completeness cross-reference for the panic-site audit (thorough tier): clippy's
restriction lints are run as an independent enumerator; every site clippy names must be in the
driver's own enumeration (same file, line inside clippy's span). Clippy gives no verdict here."""
import json
import os
import subprocess

from . import facts, panics

LINTS = ["unwrap_used", "expect_used", "panic", "indexing_slicing", "unreachable"]


def clippy_sites():
    target = os.path.join(facts.CACHE, "target-clippy")
    env = dict(os.environ, CARGO_TARGET_DIR=target, CARGO_NET_OFFLINE="true")
    env.pop("RUSTC_WORKSPACE_WRAPPER", None)
    cmd = ["cargo", "+nightly", "clippy", "--offline", "--lib", "-p", "h3", "-p", "h3-quinn", "-p", "h3-datagram", "-p", "h3-webtransport",
           "--features", "h3-quinn/datagram", "--message-format=json", "--", "-A", "clippy::all"]
    for l in LINTS:
        cmd += ["-W", "clippy::" + l]
    # clippy only reports on a rebuild: drop the members' fingerprints like the fact extraction does
    fp = os.path.join(target, "debug", ".fingerprint")
    if os.path.isdir(fp):
        import shutil
        for d in os.listdir(fp):
            if d.startswith("h3-"):
                shutil.rmtree(os.path.join(fp, d), ignore_errors=True)
    p = subprocess.run(cmd, cwd=facts.REPO, env=env, stdout=subprocess.PIPE, stderr=subprocess.PIPE, text=True)
    if p.returncode != 0:
        raise facts.CheckerBroken("clippy failed:\n" + p.stderr[-2000:])
    out = []
    for line in p.stdout.splitlines():
        try:
            j = json.loads(line)
        except ValueError:
            continue
        if j.get("reason") != "compiler-message":
            continue
        m = j["message"]
        code = (m.get("code") or {}).get("code") or ""
        if not code.startswith("clippy::"):
            continue
        sp = [s for s in m["spans"] if s["is_primary"]]
        if sp:
            out.append((sp[0]["file_name"], sp[0]["line_start"], sp[0]["line_end"], code[8:]))
    return out


def run(ctx, prog):
    mine = {}
    for b in prog.bodies:
        for bb, t, kind in panics.enumerate_sites(b):
            mine.setdefault(t.file or b.file, set()).add(t.ln)
    cs = clippy_sites()
    ctx.floor("C06-x", "sites named by clippy's restriction lints", len(cs), 60)
    gaps = []
    for f, lo, hi, code in cs:
        lines = mine.get(f, set())
        if not any(lo <= ln <= hi for ln in lines):
            gaps.append((f, lo, code))
    for f, lo, code in gaps:
        ctx.violation("C06-x", "%s:%s" % (f, code), "enumeration gap",
                      "clippy::%s names a panic site at %s:%d that the driver's enumeration does not contain: the audit would silently skip it" % (code, f, lo),
                      "%s:%d" % (f, lo))
    ctx.ok("C06-x", "clippy cross-reference", "%d clippy sites, %d matched" % (len(cs), len(cs) - len(gaps)))
