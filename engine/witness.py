"""Compile-fail witnesses (type-level encodings): tiny external programs that must NOT
type-check against the current tree's h3, each paired with a compiling twin that differs
only by the offending expression (so a witness whose path is merely wrong cannot pass).
The programs are only type-checked by rustc (--emit=metadata); nothing is run."""
import glob
import json
import os
import subprocess
import tempfile

from . import facts

WITNESSES = {
    "C16-c": [
        {
            "name": "VarInt tuple constructor is not callable outside h3",
            "fail": "fn main() { let _v = h3::proto::varint::VarInt(1u64 << 63); }",
            "codes": ["E0423", "E0603", "E0532"],
            "twin": "fn main() { let _v = h3::proto::varint::VarInt::from_u64(1u64 << 63); }",
        },
        {
            "name": "VarInt inner field is not writable outside h3",
            "fail": "fn main() { let mut v = h3::proto::varint::VarInt::from_u32(1); v.0 = 1u64 << 63; let _ = v; }",
            "codes": ["E0616"],
            "twin": "fn main() { let v = h3::proto::varint::VarInt::from_u32(1); let _ = v.into_inner(); }",
        },
        {
            "name": "StreamId tuple constructor is not callable outside h3",
            "fail": "fn main() { let _s = h3::quic::StreamId(u64::MAX); }",
            "codes": ["E0423", "E0603", "E0532"],
            "twin": "fn main() { let _s = <h3::quic::StreamId as std::convert::TryFrom<u64>>::try_from(u64::MAX); }",
        },
        {
            "name": "StreamId inner field is not accessible outside h3",
            "fail": "fn main() { let s = <h3::quic::StreamId as std::convert::TryFrom<u64>>::try_from(4).unwrap(); let _ = s.0; }",
            "codes": ["E0616"],
            "twin": "fn main() { let s = <h3::quic::StreamId as std::convert::TryFrom<u64>>::try_from(4).unwrap(); let _ = s.into_inner(); }",
        },
    ],
}


def _h3_rmeta():
    """Fresh metadata of the current tree's h3 (cargo decides freshness), and the deps dir."""
    target = os.environ.get("VERIF_TARGET_DIR", os.path.join(facts.CACHE, "target-witness"))
    env = dict(os.environ, CARGO_TARGET_DIR=target, CARGO_NET_OFFLINE="true", RUSTFLAGS="-Awarnings")
    env.pop("RUSTC_WORKSPACE_WRAPPER", None)
    p = subprocess.run(["cargo", "+nightly", "check", "--offline", "--lib", "-p", "h3", "--features",
                        "i-implement-a-third-party-backend-and-opt-into-breaking-changes", "--message-format=json"],
                       cwd=facts.REPO, env=env, stdout=subprocess.PIPE, stderr=subprocess.PIPE, text=True)
    if p.returncode != 0:
        raise facts.CheckerBroken("cargo check for witnesses failed:\n" + p.stderr[-3000:])
    rmeta = None
    for line in p.stdout.splitlines():
        try:
            j = json.loads(line)
        except ValueError:
            continue
        if j.get("reason") == "compiler-artifact" and j.get("target", {}).get("name") == "h3":
            for f in j.get("filenames", []):
                if f.endswith(".rmeta"):
                    rmeta = f
    if not rmeta:
        raise facts.CheckerBroken("h3 rmeta not found in cargo output")
    return rmeta, os.path.join(target, "debug", "deps")


def _compile(src, rmeta, deps, tmp):
    path = os.path.join(tmp, "w.rs")
    with open(path, "w") as fh:
        fh.write(src + "\n")
    p = subprocess.run(["rustc", "+nightly", "--edition", "2021", "--emit=metadata", "--crate-type", "bin",
                        "--error-format=json", "-Awarnings", "--extern", "h3=" + rmeta, "-L", "dependency=" + deps,
                        "-o", os.path.join(tmp, "w.rmeta"), path],
                       stdout=subprocess.PIPE, stderr=subprocess.PIPE, text=True)
    codes = []
    for line in p.stderr.splitlines():
        try:
            j = json.loads(line)
        except ValueError:
            continue
        if j.get("level") == "error" and j.get("code"):
            codes.append(j["code"]["code"])
    return p.returncode, codes, p.stderr[-600:]


def run(ctx, rule):
    rmeta, deps = _h3_rmeta()
    with tempfile.TemporaryDirectory(prefix="h3witness") as tmp:
        for w in WITNESSES.get(rule, []):
            rc, codes, err = _compile(w["twin"], rmeta, deps, tmp)
            ctx.check(rc == 0, rule, "witness", "twin compiles: " + w["name"],
                      "the compiling twin of the witness does not compile (the witness would pass for the wrong "
                      "reason): %s" % err, "twin type-checks")
            rc, codes, err = _compile(w["fail"], rmeta, deps, tmp)
            ctx.check(rc != 0 and any(c in w["codes"] for c in codes), rule, "witness", "must not compile: " + w["name"],
                      "the witness program compiles or fails for another reason (rc=%s codes=%s): an id can be built "
                      "without the checked constructors" % (rc, codes), "rejected with %s" % codes)
