"""A1 call graph over the analysed crates: static calls, trait-method calls on generic receivers
(to every in-workspace impl of that method), and body -> closure / coroutine it constructs."""
import re
from collections import defaultdict


class CallGraph:
    def __init__(self, prog):
        self.prog = prog
        self.edges = defaultdict(set)
        by_trait_method = defaultdict(list)     # (trait path, method name) -> impl body keys
        for b in prog.bodies:
            if b.trait and b.name and b.self_adt is not None or (b.trait and b.id.get("self_ty")):
                by_trait_method[(b.trait, b.name)].append(b.key)
        keys = set(prog.by_key)
        for b in prog.bodies:
            out = self.edges[b.key]
            for bb, i, s in b.all_stmts():
                if s.s == "assign" and s.rv.rv == "aggregate" and s.rv.agg in ("closure", "coroutine", "coroutine_closure") and s.rv.def_ in keys:
                    out.add(s.rv.def_)
            for bb, t in b.all_terms():
                if t.t != "call" or not t.callee:
                    # function items passed as values (map_err(convert)) are reached through the operand scan below
                    continue
                ck, tk = t.ckey, t.tkey
                if ck in keys:
                    out.add(ck)
                elif tk in keys:
                    out.add(tk)
                tr = t.callee.get("trait")
                if tr and ck not in keys:
                    for k in by_trait_method.get((tr, t.callee.get("name")), ()):
                        out.add(k)
                    # default method bodies live under the trait path itself
                    dk = "%s::%s" % (tr, t.callee.get("name"))
                    if dk in keys:
                        out.add(dk)
                for a in t.args:
                    if a.k == "const" and a.fn is not None and a.fn["key"] in keys:
                        out.add(a.fn["key"])
        self.by_trait_method = by_trait_method

    def reachable(self, roots):
        seen = set()
        st = [r for r in roots if r in self.prog.by_key]
        while st:
            k = st.pop()
            if k in seen:
                continue
            seen.add(k)
            st.extend(self.edges.get(k, ()))
        return seen

    def roots(self, patterns):
        rx = [re.compile(p) for p in patterns]
        return sorted(b.key for b in self.prog.bodies if any(r.search(b.key) for r in rx))
