"""A11 table extraction: byte-string constants, const arrays, HIR literal match tables."""
from . import flow as fl
from .mir import Place


def parse_bytes_literal(s):
    """Bytes of a Rust byte-string / string literal as printed by rustc (b"..", ".."), or None."""
    if s is None:
        return None
    s = s.strip()
    if s.startswith("const "):
        s = s[6:]
    if s.startswith('b"') and s.endswith('"'):
        body = s[2:-1]
    elif s.startswith('"') and s.endswith('"'):
        body = s[1:-1]
    else:
        return None
    out = bytearray()
    i = 0
    while i < len(body):
        c = body[i]
        if c == "\\":
            n = body[i + 1]
            i += 2
            if n == "x":
                out.append(int(body[i:i + 2], 16))
                i += 2
            elif n == "u":
                j = body.index("}", i)
                out.extend(chr(int(body[i + 1:j], 16)).encode())
                i = j + 1
            else:
                out.append({"n": 10, "r": 13, "t": 9, "0": 0, "\\": 92, '"': 34, "'": 39}[n])
        else:
            out.extend(c.encode())
            i += 1
    return bytes(out)


def _bytes_of(o):
    for n in fl.walk(o):
        if n[0] == "const" and isinstance(n[1], str):
            b = parse_bytes_literal(n[1])
            if b is not None:
                return b
    return None


def header_field_array(prog, key):
    """[(name bytes, value bytes)] of a const array of HeaderField aggregates."""
    body = prog.one(key)
    if body is None:
        return None
    f = fl.Flow(body, prog)
    o = f.origin(Place({"l": 0}), depth=12)
    if o[0] != "agg" or o[1] != "array":
        return None
    out = []
    for e in o[2]:
        if e[0] != "agg" or len(e[2]) != 2:
            return None
        out.append((_bytes_of(e[2][0]), _bytes_of(e[2][1])))
    return out


def lit(p):
    """Python value of a HIR literal pattern / expression summary."""
    if isinstance(p, list):
        return tuple(lit(x) for x in p)
    if isinstance(p, dict):
        if "bytes" in p:
            return bytes(p["bytes"])
        if "str" in p:
            return p["str"]
        if "int" in p:
            return int(p["int"])
        if "bool" in p:
            return p["bool"]
        if "path" in p:
            return ("path", p["path"])
        if "or" in p:
            return ("or", tuple(lit(x) for x in p["or"]))
        if "call" in p:
            return ("call", p["call"], tuple(lit(a) for a in p["args"]))
        if "bind" in p:
            return ("bind", p["bind"])
        if "range" in p:
            return ("range", lit(p["range"][0]), lit(p["range"][1]), p["inclusive"])
        if "ctor" in p:
            return ("ctor", p["ctor"], tuple(lit(a) for a in p["args"]))
        if "method" in p:
            return ("method", p["method"], lit(p["recv"]), tuple(lit(a) for a in p["args"]))
        if "expr_at" in p:
            return ("expr", p["expr_at"])
        if "ret" in p:
            return ("ret", lit(p["ret"]))
        if "array" in p:
            return ("array", tuple(lit(a) for a in p["array"]))
    return p


def match_tables(prog, owner):
    """[(arms: [(pattern, guard, body)])] for the literal matches of a body."""
    out = []
    # literal matches written in a helper that was expanded into `owner` (engine/mir.py) belong to `owner` too
    owners = [owner] + [h for c, h in getattr(prog, "inlined", []) if c == owner]
    for o in owners:
        for m in prog.matches.get(o, []):
            out.append([(lit(a["pat"]), a["guard"], lit(a["body"])) for a in m["arms"]])
    return out
