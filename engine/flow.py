"""A4 def-use provenance, reference-target analysis and the transparent-call model."""
from .mir import Place, Operand

# Calls whose result is (a view of / the same value as) their first argument.
TRANSPARENT = (
    "core::pin::Pin::new", "core::pin::Pin::new_unchecked",
)


def callee_short(key):
    """Last two path segments without generics, for printing."""
    return key


def is_transparent(term):
    k = term.tkey or ""
    c = term.ckey or ""
    for t in TRANSPARENT:
        if k == t or c == t:
            return True
    n = term.cname
    if n in ("project", "project_ref") and (k.endswith("::project") or k.endswith("::project_ref")):
        return True  # pin-project generated field projection
    if n in ("deref", "deref_mut", "as_ref", "as_mut", "borrow", "borrow_mut", "clone", "as_mut_slice",
             "as_slice", "as_deref", "as_deref_mut", "get_mut", "get_ref", "by_ref"):
        # only std / core receivers (Option, Pin, arrays, Arc...) or trait methods of std traits
        if k.startswith(("std::", "core::", "alloc::", "[T", "<")):
            return True
    return False


_PRIM = "(?:bool|char|u8|u16|u32|u64|u128|usize|i8|i16|i32|i64|i128|isize)"
_LOSSLESS = __import__("re").compile(r"^<(%s) as core::convert::From<%s>>::from$" % (_PRIM, _PRIM))


def lossless_cast(t):
    """`u64::from(x)` / `x.into()` between primitive integers (and from bool) is the cast `x as u64`: returns the target type."""
    m = _LOSSLESS.match(into_to_from(t) or "")
    return m.group(1) if m else None


# conversions std offers only as TryFrom because their success depends on the pointer width, and which cannot fail on any target
# with pointers of at most 64 bits (every target h3 builds for)
_INFALLIBLE_TRY = {("u64", "usize"), ("u128", "usize"), ("i128", "usize"), ("i64", "isize"), ("i128", "isize")}
_TRYFROM = __import__("re").compile(r"^<(%s) as core::convert::TryFrom<(%s)>>::try_from$" % (_PRIM, _PRIM))


def infallible_try_from(t):
    """`u64::try_from(x_usize)` / `x.try_into()`: always Ok(x as u64); returns the target type."""
    m = _TRYFROM.match(into_to_from(t) or "")
    return m.group(1) if m and (m.group(1), m.group(2)) in _INFALLIBLE_TRY else None


ALIAS = {}      # renamed function -> reference name (filled by mir.Program from normalise_renames)


def into_to_from(t):
    """`<A as Into<B>>::into` is the blanket impl; name the `From` impl it forwards to."""
    k = _into_to_from(t)
    return ALIAS.get(k, k)


def _into_to_from(t):
    ck = t.ckey or "indirect"
    if ck == "core::mem::take" and (t.gargs or "").startswith("[core::option::Option<"):
        return "core::option::Option::take"      # mem::take(&mut opt) is opt.take()
    if ck == "<T as core::convert::Into<U>>::into" and t.gargs:
        parts = split_gargs(t.gargs)
        if len(parts) == 2:
            return "<%s as core::convert::From<%s>>::from" % (strip_generics(parts[1]), parts[0])
    if ck == "<T as core::convert::TryInto<U>>::try_into" and t.gargs:
        parts = split_gargs(t.gargs)
        if len(parts) == 2:
            return "<%s as core::convert::TryFrom<%s>>::try_from" % (strip_generics(parts[1]), parts[0])
    return ck


def split_gargs(g):
    g = g.strip()
    if g.startswith("["):
        g = g[1:-1]
    out, depth, cur = [], 0, ""
    for ch in g:
        if ch in "<([":
            depth += 1
        elif ch in ">)]":
            depth -= 1
        if ch == "," and depth == 0:
            out.append(cur.strip())
            cur = ""
        else:
            cur += ch
    if cur.strip():
        out.append(cur.strip())
    return out


def strip_generics(t):
    """`a::B<C, D>` -> `a::B` (keys name the self ADT without its parameters)."""
    i = t.find("<")
    return t if i < 0 or t.startswith("<") else t[:i]


class Flow:
    def __init__(self, body, prog=None):
        self.body = body
        self.prog = prog
        self._reft = None

    # ------------------------------------------------------------ origins
    def origin(self, x, depth=24, _seen=None):
        """Origin tree of an Operand or Place (see module doc of rules for node kinds)."""
        body = self.body
        if x is None:
            return ("unknown", "missing operand")
        if isinstance(x, Operand):
            if x.k == "const":
                if x.fn is not None:
                    return ("fn", x.fn["key"])
                if x.named is not None:
                    return ("const", x.named)
                if x.int is not None:
                    return ("const", x.signed_int())
                return ("const", x.s)
            if x.place is None:
                return ("unknown", "operand " + str(x.s))
            return self.origin(x.place, depth, _seen)
        place = x
        if depth <= 0:
            return ("unknown", "depth")
        _seen = _seen or frozenset()
        if place.proj:
            # split at the first non-deref projection on a temp: origin of the base local + projection
            base = self.origin(Place({"l": place.local}), depth, _seen)
            names = tuple(
                (e[2] if e[2] is not None else str(e[1])) for e in place.proj if e != "*" and e[0] in ("f", "v"))
            idx = tuple(e for e in place.proj if e != "*" and e[0] in ("ix", "ci", "sub"))
            if idx:
                names = names + ("[]",)
            if base[0] == "agg" and base[1] == "tuple" and names and names[0].isdigit() and int(names[0]) < len(base[2]) and not idx:
                inner = base[2][int(names[0])]          # (a, b).0 is a
                rest = names[1:]
                if not rest:
                    return inner
                if inner[0] == "param":
                    return ("param", inner[1], inner[2] + rest)
                return ("proj", inner, rest)
            if base[0] == "param":
                return ("param", base[1], base[2] + names)
            if base[0] == "proj":
                return ("proj", base[1], base[2] + names)
            if not names:
                return base
            return ("proj", base, names)
        l = place.local
        defs = body.defs.get(l, [])
        if not defs:
            if 1 <= l <= body.arg_count:
                return ("param", l, ())
            return ("unknown", "no def of _%d" % l)
        if l in _seen:
            return ("unknown", "cycle _%d" % l)
        seen2 = _seen | {l}
        outs = []
        for (bb, i, d) in defs:
            outs.append(self._def_origin(bb, i, d, depth - 1, seen2))
        uniq = []
        for o in outs:
            if o not in uniq:
                uniq.append(o)
        if len(uniq) == 1:
            return uniq[0]
        return ("phi", tuple(uniq))

    def _def_origin(self, bb, i, d, depth, seen):
        if i == "term":
            t = d
            if t.t == "yield":
                return ("resume_arg",)
            args = tuple(self.origin(a, depth, seen) for a in t.args)
            if is_transparent(t) and args:
                return args[0]
            lc = lossless_cast(t)
            if lc and len(args) == 1:
                return ("cast", args[0], lc)
            return ("call", into_to_from(t), args, bb)
        rv = d.rv
        r = rv.rv
        if r == "use":
            return self.origin(rv.ops[0], depth, seen)
        if r in ("ref", "rawptr"):
            return self.origin(rv.place, depth, seen)
        if r == "discr":
            return ("discr", self.origin(rv.place, depth, seen))
        if r == "binop":
            return ("binop", rv.op, self.origin(rv.ops[0], depth, seen), self.origin(rv.ops[1], depth, seen))
        if r == "unop":
            return ("unop", rv.op, self.origin(rv.ops[0], depth, seen))
        if r == "cast":
            return ("cast", self.origin(rv.ops[0], depth, seen), rv.ty)
        if r == "repeat":
            return ("agg", "repeat", (self.origin(rv.ops[0], depth, seen),))
        if r == "aggregate":
            if rv.agg == "adt":
                label = "%s::%s" % (rv.adt, rv.variant)
            elif rv.agg in ("closure", "coroutine", "coroutine_closure"):
                label = "%s:%s" % (rv.agg, rv.def_)
            else:
                label = rv.agg
            return ("agg", label, tuple(self.origin(o, depth, seen) for o in rv.ops))
        return ("unknown", "rvalue " + str(rv.s))

    # ------------------------------------------------------------ reference targets
    @property
    def ref_targets(self):
        """local -> set of locals it may point into (through borrows, reborrows, transparent calls)."""
        if self._reft is not None:
            return self._reft
        body = self.body
        rt = {}

        def get(l):
            return rt.setdefault(l, set())
        changed = True
        it = 0
        while changed and it < 20:
            changed = False
            it += 1
            for bb, i, s in body.all_stmts():
                if s.s != "assign" or not s.place.is_local():
                    continue
                dst = s.place.local
                rv = s.rv
                new = set()
                if rv.rv in ("ref", "rawptr"):
                    p = rv.place
                    if "*" in p.proj:
                        # reborrow through a reference held in p.local
                        new |= get(p.local)
                        # &mut (*_9) where _9: &mut &mut T also reaches what _9's targets point to
                    else:
                        new.add(p.local)
                        new |= get(p.local)
                elif rv.rv == "use" and rv.ops[0].place is not None:
                    p = rv.ops[0].place
                    new |= get(p.local)
                elif rv.rv == "cast" and rv.ops[0].place is not None:
                    new |= get(rv.ops[0].place.local)
                if not new <= get(dst):
                    get(dst).update(new)
                    changed = True
            for bb, t in body.all_terms():
                if t.t == "call" and t.dest.is_local() and is_transparent(t) and t.args:
                    a = t.args[0]
                    if a.place is not None:
                        new = set(get(a.place.local))
                        if not new <= get(t.dest.local):
                            get(t.dest.local).update(new)
                            changed = True
            # pointing to a local that itself holds references reaches those too
            for l in list(rt):
                extra = set()
                for tgt in rt[l]:
                    extra |= rt.get(tgt, set())
                if not extra <= rt[l]:
                    rt[l] |= extra
                    changed = True
        self._reft = rt
        return rt

    def may_writers(self, local):
        """Calls (bb, term) that receive a reference which may point into `local`
        (excluding transparent view calls)."""
        out = []
        rt = self.ref_targets
        for bb, t in self.body.all_terms():
            if t.t != "call" or is_transparent(t):
                continue
            for a in t.args:
                if a.place is not None and a.place.is_local() and local in rt.get(a.place.local, ()):
                    ty = self.body.local_ty(a.place.local)
                    if ty.startswith("&mut") or ty.startswith("*mut") or "Pin<&mut" in ty:
                        out.append((bb, t))
                        break
        return out

    def root_local(self, op_or_place):
        """Follow single-def copy/move chains to the underlying local."""
        p = op_or_place.place if isinstance(op_or_place, Operand) else op_or_place
        seen = set()
        while p is not None and p.local not in seen:
            if not p.is_local():
                # `(a, b).0` / `S { f: a, .. }.f` of a value built in place (a helper returning a tuple that was expanded into its caller):
                # the component is the operand the aggregate was built from
                base = self.root_local(Place({"l": p.local})) if p.local not in seen else None
                defs = self.body.defs.get(base.local, []) if (base is not None and base.is_local()) else []
                if len(p.proj) == 1 and p.proj[0] != "*" and p.proj[0][0] == "f" and len(defs) == 1 and defs[0][1] != "term" and \
                        defs[0][2].rv.rv == "aggregate" and defs[0][2].rv.agg in ("tuple", "adt") and p.proj[0][1] < len(defs[0][2].rv.ops) and \
                        defs[0][2].rv.ops[p.proj[0][1]].place is not None:
                    seen.add(p.local)
                    p = defs[0][2].rv.ops[p.proj[0][1]].place
                    continue
                break
            seen.add(p.local)
            defs = self.body.defs.get(p.local, [])
            if len(defs) != 1:
                break
            bb, i, d = defs[0]
            if i == "term":
                break
            if d.rv.rv == "use" and d.rv.ops[0].place is not None:
                p = d.rv.ops[0].place
            else:
                break
        return p


# ---------------------------------------------------------------- origin predicates

def walk(o):
    yield o
    k = o[0]
    if k == "call":
        for a in o[2]:
            yield from walk(a)
    elif k == "agg":
        for a in o[2]:
            yield from walk(a)
    elif k == "binop":
        yield from walk(o[2])
        yield from walk(o[3])
    elif k in ("unop",):
        yield from walk(o[2])
    elif k in ("cast", "discr"):
        yield from walk(o[1])
    elif k == "proj":
        yield from walk(o[1])
    elif k == "phi":
        for a in o[1]:
            yield from walk(a)


def calls_in(o):
    return [n[1] for n in walk(o) if n[0] == "call"]


def params_in(o):
    return [(n[1], n[2]) for n in walk(o) if n[0] == "param"]


def consts_in(o):
    return [n[1] for n in walk(o) if n[0] == "const"]


def has_arith(o):
    return any(n[0] in ("binop", "unop") for n in walk(o))


def fmt(o, depth=0):
    k = o[0]
    if depth > 8:
        return "..."
    if k == "param":
        return "param_%d%s" % (o[1], "".join("." + x for x in o[2]))
    if k == "const":
        return "const(%s)" % (o[1],)
    if k == "fn":
        return "fn(%s)" % o[1]
    if k == "call":
        return "%s(%s)" % (o[1], ", ".join(fmt(a, depth + 1) for a in o[2]))
    if k == "agg":
        return "%s{%s}" % (o[1], ", ".join(fmt(a, depth + 1) for a in o[2]))
    if k == "binop":
        return "%s(%s, %s)" % (o[1], fmt(o[2], depth + 1), fmt(o[3], depth + 1))
    if k == "unop":
        return "%s(%s)" % (o[1], fmt(o[2], depth + 1))
    if k == "cast":
        return "(%s as %s)" % (fmt(o[1], depth + 1), o[2])
    if k == "discr":
        return "discr(%s)" % fmt(o[1], depth + 1)
    if k == "proj":
        return "%s%s" % (fmt(o[1], depth + 1), "".join("." + x for x in o[2]))
    if k == "phi":
        return "phi(%s)" % " | ".join(fmt(a, depth + 1) for a in o[1])
    return "%s" % (o,)


# ---------------------------------------------------------------- inter-procedural inlining of small callees

_RET_CACHE = {}


def ret_origin(prog, body):
    k = (id(prog), body.key)
    if k not in _RET_CACHE:
        _RET_CACHE[k] = Flow(body, prog).origin(Place({"l": 0}))
    return _RET_CACHE[k]


def _simple(o):
    return not any(n[0] in ("unknown", "phi", "resume_arg") for n in walk(o))


def _subst(o, args):
    k = o[0]
    if k == "param":
        i = o[1] - 1
        if i >= len(args):
            return ("unknown", "param out of range")
        a = args[i]
        names = tuple(o[2])
        if not names:
            return a
        if a[0] == "param":
            return ("param", a[1], tuple(a[2]) + names)
        if a[0] == "proj":
            return ("proj", a[1], tuple(a[2]) + names)
        return ("proj", a, names)
    if k == "call":
        return ("call", o[1], tuple(_subst(x, args) for x in o[2]), o[3])
    if k == "agg":
        return ("agg", o[1], tuple(_subst(x, args) for x in o[2]))
    if k == "binop":
        return ("binop", o[1], _subst(o[2], args), _subst(o[3], args))
    if k == "unop":
        return ("unop", o[1], _subst(o[2], args))
    if k == "cast":
        return ("cast", _subst(o[1], args), o[2])
    if k == "discr":
        return ("discr", _subst(o[1], args))
    if k == "proj":
        return ("proj", _subst(o[1], args), o[2])
    return o


def inline(prog, o, depth=3):
    """Replace calls to small in-workspace functions (single-expression return over their
    parameters) by that expression; `Into::into` resolves to the matching `From` impl."""
    k = o[0]
    if k == "call":
        args = tuple(inline(prog, a, depth) for a in o[2])
        if depth > 0:
            key = o[1]
            cands = prog.by_key.get(key, [])
            if len(cands) == 1 and not cands[0].coroutine:
                r = ret_origin(prog, cands[0])
                if _simple(r) and len(list(walk(r))) <= 12:
                    return inline(prog, _subst(r, args), depth - 1)
        return ("call", o[1], args, o[3])
    if k == "agg":
        return ("agg", o[1], tuple(inline(prog, x, depth) for x in o[2]))
    if k == "binop":
        return ("binop", o[1], inline(prog, o[2], depth), inline(prog, o[3], depth))
    if k == "unop":
        return ("unop", o[1], inline(prog, o[2], depth))
    if k == "cast":
        return ("cast", inline(prog, o[1], depth), o[2])
    if k == "discr":
        return ("discr", inline(prog, o[1], depth))
    if k == "proj":
        base = inline(prog, o[1], depth)
        # projection of a known aggregate: pick the field when it is positional
        if base[0] == "agg" and len(o[2]) >= 1 and o[2][0].isdigit() and int(o[2][0]) < len(base[2]):
            inner = base[2][int(o[2][0])]
            rest = tuple(o[2][1:])
            if not rest:
                return inner
            if inner[0] == "param":
                return ("param", inner[1], tuple(inner[2]) + rest)
            return ("proj", inner, rest)
        if base[0] == "param":
            return ("param", base[1], tuple(base[2]) + tuple(o[2]))
        return ("proj", base, o[2])
    if k == "phi":
        return ("phi", tuple(inline(prog, x, depth) for x in o[1]))
    return o


def is_rewrap(o, adt=None, param=1):
    """agg Adt{ param.<fields only> } with no arithmetic and no remaining calls."""
    if o[0] != "agg" or len(o[2]) != 1:
        return False
    if adt is not None and not o[1].startswith(adt + "::"):
        return False
    x = o[2][0]
    while x[0] == "cast":
        x = x[1]
    return x[0] == "param" and x[1] == param
