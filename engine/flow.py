"""A4 def-use provenance, reference-target analysis and the transparent-call model."""
from .mir import Place, Operand

# Calls whose result is (a view of / the same value as) their first argument.
TRANSPARENT = (
    "core::pin::Pin::new", "core::pin::Pin::new_unchecked",
)


def callee_short(key):
    """Last two path segments without generics, for printing."""
    return key


def is_transparent(term):
    k = term.tkey or ""
    c = term.ckey or ""
    for t in TRANSPARENT:
        if k == t or c == t:
            return True
    n = term.cname
    if n in ("deref", "deref_mut", "as_ref", "as_mut", "borrow", "borrow_mut", "clone", "as_mut_slice",
             "as_slice", "as_deref", "as_deref_mut", "get_mut", "get_ref", "by_ref"):
        # only std / core receivers (Option, Pin, arrays, Arc...) or trait methods of std traits
        if k.startswith(("std::", "core::", "alloc::", "[T", "<")):
            return True
    return False


class Flow:
    def __init__(self, body, prog=None):
        self.body = body
        self.prog = prog
        self._reft = None

    # ------------------------------------------------------------ origins
    def origin(self, x, depth=10, _seen=None):
        """Origin tree of an Operand or Place (see module doc of rules for node kinds)."""
        body = self.body
        if isinstance(x, Operand):
            if x.k == "const":
                if x.fn is not None:
                    return ("fn", x.fn["key"])
                if x.named is not None:
                    return ("const", x.named)
                if x.int is not None:
                    return ("const", x.signed_int())
                return ("const", x.s)
            if x.place is None:
                return ("unknown", "operand " + str(x.s))
            return self.origin(x.place, depth, _seen)
        place = x
        if depth <= 0:
            return ("unknown", "depth")
        _seen = _seen or frozenset()
        if place.proj:
            # split at the first non-deref projection on a temp: origin of the base local + projection
            base = self.origin(Place({"l": place.local}), depth, _seen)
            names = tuple(
                (e[2] if e[2] is not None else str(e[1])) for e in place.proj if e != "*" and e[0] in ("f", "v"))
            idx = tuple(e for e in place.proj if e != "*" and e[0] in ("ix", "ci", "sub"))
            if idx:
                names = names + ("[]",)
            if base[0] == "param":
                return ("param", base[1], base[2] + names)
            if base[0] == "proj":
                return ("proj", base[1], base[2] + names)
            if not names:
                return base
            return ("proj", base, names)
        l = place.local
        defs = body.defs.get(l, [])
        if not defs:
            if 1 <= l <= body.arg_count:
                return ("param", l, ())
            return ("unknown", "no def of _%d" % l)
        if l in _seen:
            return ("unknown", "cycle _%d" % l)
        seen2 = _seen | {l}
        outs = []
        for (bb, i, d) in defs:
            outs.append(self._def_origin(bb, i, d, depth - 1, seen2))
        uniq = []
        for o in outs:
            if o not in uniq:
                uniq.append(o)
        if len(uniq) == 1:
            return uniq[0]
        return ("phi", tuple(uniq))

    def _def_origin(self, bb, i, d, depth, seen):
        if i == "term":
            t = d
            if t.t == "yield":
                return ("resume_arg",)
            args = tuple(self.origin(a, depth, seen) for a in t.args)
            if is_transparent(t) and args:
                return args[0]
            return ("call", t.ckey or "indirect", args, bb)
        rv = d.rv
        r = rv.rv
        if r == "use":
            return self.origin(rv.ops[0], depth, seen)
        if r in ("ref", "rawptr"):
            return self.origin(rv.place, depth, seen)
        if r == "discr":
            return ("discr", self.origin(rv.place, depth, seen))
        if r == "binop":
            return ("binop", rv.op, self.origin(rv.ops[0], depth, seen), self.origin(rv.ops[1], depth, seen))
        if r == "unop":
            return ("unop", rv.op, self.origin(rv.ops[0], depth, seen))
        if r == "cast":
            return ("cast", self.origin(rv.ops[0], depth, seen), rv.ty)
        if r == "repeat":
            return ("agg", "repeat", (self.origin(rv.ops[0], depth, seen),))
        if r == "aggregate":
            if rv.agg == "adt":
                label = "%s::%s" % (rv.adt, rv.variant)
            elif rv.agg in ("closure", "coroutine", "coroutine_closure"):
                label = "%s:%s" % (rv.agg, rv.def_)
            else:
                label = rv.agg
            return ("agg", label, tuple(self.origin(o, depth, seen) for o in rv.ops))
        return ("unknown", "rvalue " + str(rv.s))

    # ------------------------------------------------------------ reference targets
    @property
    def ref_targets(self):
        """local -> set of locals it may point into (through borrows, reborrows, transparent calls)."""
        if self._reft is not None:
            return self._reft
        body = self.body
        rt = {}

        def get(l):
            return rt.setdefault(l, set())
        changed = True
        it = 0
        while changed and it < 20:
            changed = False
            it += 1
            for bb, i, s in body.all_stmts():
                if s.s != "assign" or not s.place.is_local():
                    continue
                dst = s.place.local
                rv = s.rv
                new = set()
                if rv.rv in ("ref", "rawptr"):
                    p = rv.place
                    if "*" in p.proj:
                        # reborrow through a reference held in p.local
                        new |= get(p.local)
                        # &mut (*_9) where _9: &mut &mut T also reaches what _9's targets point to
                    else:
                        new.add(p.local)
                        new |= get(p.local)
                elif rv.rv == "use" and rv.ops[0].place is not None:
                    p = rv.ops[0].place
                    new |= get(p.local)
                elif rv.rv == "cast" and rv.ops[0].place is not None:
                    new |= get(rv.ops[0].place.local)
                if not new <= get(dst):
                    get(dst).update(new)
                    changed = True
            for bb, t in body.all_terms():
                if t.t == "call" and t.dest.is_local() and is_transparent(t) and t.args:
                    a = t.args[0]
                    if a.place is not None:
                        new = set(get(a.place.local))
                        if not new <= get(t.dest.local):
                            get(t.dest.local).update(new)
                            changed = True
            # pointing to a local that itself holds references reaches those too
            for l in list(rt):
                extra = set()
                for tgt in rt[l]:
                    extra |= rt.get(tgt, set())
                if not extra <= rt[l]:
                    rt[l] |= extra
                    changed = True
        self._reft = rt
        return rt

    def may_writers(self, local):
        """Calls (bb, term) that receive a reference which may point into `local`
        (excluding transparent view calls)."""
        out = []
        rt = self.ref_targets
        for bb, t in self.body.all_terms():
            if t.t != "call" or is_transparent(t):
                continue
            for a in t.args:
                if a.place is not None and a.place.is_local() and local in rt.get(a.place.local, ()):
                    ty = self.body.local_ty(a.place.local)
                    if ty.startswith("&mut") or ty.startswith("*mut") or "Pin<&mut" in ty:
                        out.append((bb, t))
                        break
        return out

    def root_local(self, op_or_place):
        """Follow single-def copy/move chains to the underlying local."""
        p = op_or_place.place if isinstance(op_or_place, Operand) else op_or_place
        seen = set()
        while p is not None and p.is_local() and p.local not in seen:
            seen.add(p.local)
            defs = self.body.defs.get(p.local, [])
            if len(defs) != 1:
                break
            bb, i, d = defs[0]
            if i == "term":
                break
            if d.rv.rv == "use" and d.rv.ops[0].place is not None:
                p = d.rv.ops[0].place
            else:
                break
        return p


# ---------------------------------------------------------------- origin predicates

def walk(o):
    yield o
    k = o[0]
    if k == "call":
        for a in o[2]:
            yield from walk(a)
    elif k == "agg":
        for a in o[2]:
            yield from walk(a)
    elif k == "binop":
        yield from walk(o[2])
        yield from walk(o[3])
    elif k in ("unop",):
        yield from walk(o[2])
    elif k in ("cast", "discr"):
        yield from walk(o[1])
    elif k == "proj":
        yield from walk(o[1])
    elif k == "phi":
        for a in o[1]:
            yield from walk(a)


def calls_in(o):
    return [n[1] for n in walk(o) if n[0] == "call"]


def params_in(o):
    return [(n[1], n[2]) for n in walk(o) if n[0] == "param"]


def consts_in(o):
    return [n[1] for n in walk(o) if n[0] == "const"]


def has_arith(o):
    return any(n[0] in ("binop", "unop") for n in walk(o))


def fmt(o, depth=0):
    k = o[0]
    if depth > 8:
        return "..."
    if k == "param":
        return "param_%d%s" % (o[1], "".join("." + x for x in o[2]))
    if k == "const":
        return "const(%s)" % (o[1],)
    if k == "fn":
        return "fn(%s)" % o[1]
    if k == "call":
        return "%s(%s)" % (o[1], ", ".join(fmt(a, depth + 1) for a in o[2]))
    if k == "agg":
        return "%s{%s}" % (o[1], ", ".join(fmt(a, depth + 1) for a in o[2]))
    if k == "binop":
        return "%s(%s, %s)" % (o[1], fmt(o[2], depth + 1), fmt(o[3], depth + 1))
    if k == "unop":
        return "%s(%s)" % (o[1], fmt(o[2], depth + 1))
    if k == "cast":
        return "(%s as %s)" % (fmt(o[1], depth + 1), o[2])
    if k == "discr":
        return "discr(%s)" % fmt(o[1], depth + 1)
    if k == "proj":
        return "%s%s" % (fmt(o[1], depth + 1), "".join("." + x for x in o[2]))
    if k == "phi":
        return "phi(%s)" % " | ".join(fmt(a, depth + 1) for a in o[1])
    return "%s" % (o,)
