"""A7 Pending-implies-registered.

For a body that receives a task Context: every path returning a `Poll::Pending` constructed in this
body must carry evidence that a wake-up source was registered on it: a Context-receiving callee whose
result the path established to be Pending, a waker registration/wake call, or a Context-receiving
in-workspace callee that itself registers on every non-error return (summary, memoised)."""
from . import paths as pa

CX = "core::task::wake::Context"
REGISTER = ("AtomicWaker::register", "Waker::wake_by_ref", "Waker::wake", "atomic_waker::AtomicWaker::register")


def cx_params(body):
    out = []
    for i in range(1, body.arg_count + 1):
        if CX in body.local_ty(i):
            out.append(i)
    return out


def _cx_arg(argv, cxs):
    for a in argv:
        if a[0] == "param" and a[1] in cxs:
            return True
        if a[0] == "call" and pa.short(a[1]) in ("get_context", "from_waker"):
            return True
    return False


class WakeAnalysis:
    def __init__(self, prog):
        self.prog = prog
        self.memo = {}
        self.stack = set()

    def paths(self, body):
        try:
            return pa.Explorer(self.prog, body, max_visits=2, max_paths=6000).paths()
        except pa.PathExplosion:
            return None

    def evidence(self, body, p, cxs):
        """Text describing the registration evidence on path p, or None."""
        cx_calls = {}
        for e in p.events:
            if e[0] != "call":
                continue
            t, argv = e[2], e[3]
            ck = t.ckey or ""
            if any(ck.endswith(r) for r in REGISTER):
                return "calls %s" % pa.short(ck)
            if _cx_arg(argv, cxs):
                cx_calls[e[1]] = t
        # a Context-receiving call whose result the path established to be Pending (through `?`, ready!, map*, is_pending ...)
        for tst in p.tests:
            v, lab = tst[3], tst[2]
            probe = v
            want = None
            if v[0] == "discr":
                want = "Pending"
            elif v[0] == "call" and v[1] == "core::task::poll::Poll::is_pending" and v[2]:
                probe, want = v[2][0], "true"
            elif v[0] == "call" and v[1] == "core::task::poll::Poll::is_ready" and v[2]:
                probe, want = v[2][0], "false"
            if want is None or lab != want:
                continue
            x = probe
            names = ()
            while x[0] in ("discr", "proj", "okval") or (x[0] == "call" and x[1] in pa.ADAPTERS and x[2]):
                if x[0] == "proj":
                    names = tuple(x[2]) + names
                x = x[1] if x[0] != "call" else x[2][0]
            # Pending must be the top-level variant of the call's own result (not of a nested payload)
            if any(n.startswith("<") for n in names):
                continue
            if x[0] == "call" and x[3] in cx_calls and "core::task::poll::Poll<" in self._ret_ty(body, cx_calls[x[3]]):
                return "%s returned Pending on this path" % pa.short(x[1])
        for bbc, t in cx_calls.items():
            ty = self._ret_ty(body, t)
            if "core::task::poll::Poll<" in ty:
                continue
            cal = self.prog.one(t.ckey or "")
            if cal is not None and self.registers_always(cal):
                return "%s registers on every non-error return" % pa.short(t.ckey)
        return None

    def _ret_ty(self, body, t):
        return body.local_ty(t.dest.local) if t.dest.is_local() else (t.dest.ty or "")

    def registers_always(self, body):
        k = body.key
        if k in self.memo:
            return self.memo[k]
        if k in self.stack:
            return False
        self.stack.add(k)
        cxs = cx_params(body)
        ok = bool(cxs)
        ps = self.paths(body) if ok else None
        if ps is None:
            ok = False
        else:
            for p in ps:
                if p.end != "return":
                    continue
                sh = p.ret_shape()
                if sh.startswith("Err") or sh.startswith("Residual") or "Ready(Err" in sh:
                    continue
                if self.evidence(body, p, cxs) is None:
                    ok = False
                    break
        self.stack.discard(k)
        self.memo[k] = ok
        return ok

    def check_body(self, body):
        """[(path, evidence or None)] for the Pending returns constructed in this body."""
        cxs = cx_params(body)
        if not cxs or body.coroutine:
            return []
        ps = self.paths(body)
        if ps is None:
            return [(None, None)]
        out = []
        for p in ps:
            if p.end != "return" or p.ret is None:
                continue
            r = p.ret
            if not (r[0] == "agg" and r[1] == "core::task::poll::Poll" and r[2] == "Pending"):
                continue
            out.append((p, self.evidence(body, p, cxs)))
        return out
