"""A3 dispatch tables: classify each path by the variants it established for one scrutinee
(a call result such as `poll_next(..)` or a parameter) and summarise what the path does."""
from . import paths as pa


def root_of(v):
    """(root node, projection names) of a tested value: root is the call / param node."""
    names = ()
    while True:
        k = v[0]
        if k == "discr":
            v = v[1]
        elif k == "proj":
            names = tuple(v[2]) + names
            v = v[1]
        elif k == "okval":
            names = ("?",) + names
            v = v[1]
        elif k in ("residual", "errconv"):
            names = ("?err",) + names
            v = v[1]
        elif k == "param":
            return ("param", v[1]), tuple(v[2]) + names
        elif k == "local":
            return ("local", v[1]), tuple(v[2]) + names
        elif k == "call":
            # `.map_err(f)` changes nothing but the error's payload: a test of the variant or of the Ok payload is a test of the receiver
            if v[1] in ("core::result::Result::map_err", "core::task::poll::Poll::map_err") and v[2] and \
                    not (names and names[0] in ("<Err>", "?err") and len(names) > 1):
                v = v[2][0]
                continue
            # the variant test `?` makes (Continue / Break of Try::branch) is a test of its operand's Ok / Err
            if v[1].endswith("try_trait::Try>::branch") and not names and v[2]:
                v = v[2][0]
                continue
            return ("call", v[1], v[3]), names
        else:
            return None, names


def _norm(names):
    """Drop field selectors, keep the variant downcasts: ('<Ready>','.0','<Ok>','.0') -> ('Ready','Ok')."""
    out = []
    for n in names:
        if n.startswith("<") and n.endswith(">"):
            out.append(n[1:-1])
        elif n == "?":
            out.append("?")
    return tuple(out)


def classify(p, want_root):
    """Variant decisions of path p on the scrutinee selected by want_root(root) -> bool.
    Returns {downcast chain (tuple) : label}."""
    out = {}
    for t in p.tests:
        if t[3][0] != "discr":
            continue
        root, names = root_of(t[3])
        if root is None or not want_root(root):
            continue
        out[_norm(names)] = {"Continue": "Ok", "Break": "Err"}.get(t[2], t[2])
    return out


def frame_class(cls):
    """Collapse a Poll<Result<Option<Frame>>> / Result<Option<Frame>> classification into one label:
    'Pending', 'Err', 'Err:<variant>', 'None', or a frozenset of Frame variant names."""
    chain = ()
    lab = cls.get(chain)
    if lab in ("Ready", "Pending"):
        if lab == "Pending":
            return "Pending"
        chain = chain + ("Ready",)
        lab = cls.get(chain)
    if lab == "?":
        pass
    if lab in ("Ok", "Err"):
        if lab == "Err":
            sub = cls.get(chain + ("Err",))
            return "Err:" + sub if sub else "Err"
        # the payload may have been reached by an explicit `Ok(x) =>` arm or, after an explicit test, through `?`
        chain = chain + ("Ok",) if cls.get(chain + ("Ok",)) is not None or cls.get(chain + ("?",)) is None else chain + ("?",)
        lab = cls.get(chain)
    elif lab is None and cls.get(chain + ("?",)) is not None:
        chain = chain + ("?",)
        lab = cls.get(chain)
    if lab in ("Some", "None"):
        if lab == "None":
            return "None"
        chain = chain + ("Some",)
        lab = cls.get(chain)
        if lab is None:
            return "Some:*"
        return frozenset(lab.split("|"))
    if lab is None:
        return "?"
    return frozenset(lab.split("|"))


FATAL = ("handle_connection_error_on_stream", "handle_connection_error", "set_conn_error_and_wake", "set_conn_error")


_SUMMARY = {}
_STACK = set()


def callee_effect(prog, key, depth=2):
    """(fatal, codes) if EVERY returning path of the in-workspace function `key` raises a connection error
    with the same code set (so that an arm body moved into a private helper is still understood); else None."""
    k = (id(prog), key)
    if k in _SUMMARY:
        return _SUMMARY[k]
    if key in _STACK or depth <= 0:
        return None
    body = prog.one(key)
    if body is None or body.coroutine:
        _SUMMARY[k] = None
        return None
    _STACK.add(key)
    res = None
    try:
        ps = [p for p in pa.Explorer(prog, body, max_visits=1, max_paths=2000).paths() if p.end == "return"]
        outs = {(_fatal_direct(prog, p, depth - 1)) for p in ps}
        if len(outs) == 1:
            f, codes = next(iter(outs))
            if f:
                res = (True, codes)
    except pa.PathExplosion:
        res = None
    _STACK.discard(key)
    _SUMMARY[k] = res
    return res


def _fatal_direct(prog, p, depth):
    fatal = bool(p.calls(*FATAL)) or bool(pa.closure_calls(prog, p, *FATAL))
    codes = set(p.codes("new", "agg:InternalConnectionError::InternalConnectionError")) if fatal else set()
    for e in p.calls():
        ck = e[2].ckey
        if not ck or e[2].cname in FATAL or ck not in prog.by_key:
            continue
        eff = callee_effect(prog, ck, depth)
        if eff:
            fatal = True
            codes |= set(eff[1])
    return fatal, frozenset(codes)


MARKERS = ("reset", "stop_sending", "stop_stream", "send_response", "process_goaway", "set_settings", "poll_data",
           "got_frame_error", "handle_quic_stream_error", "handle_frame_stream_error_on_request_stream", "decode_stateless",
           "poll_grease_stream", "into_inner", "accept_with_frame")


def outcome(prog, p):
    """(return shape, codes raised as connection errors, other (callee, code) uses, fatal?, markers)."""
    fatal, codes_new = _fatal_direct(prog, p, 2)
    other = {(u, c) for (u, c) in p.code_uses() if u not in ("new", "agg:InternalConnectionError::InternalConnectionError")
             and u not in FATAL}
    markers = []
    for e in p.calls():
        n = e[2].cname
        if n in MARKERS:
            if n not in markers:
                markers.append(n)
    # a closure handed to `.map_err(..)` / `.ok_or_else(..)` that certainly ran on this path (the receiver's variant is known) acted too
    for ck, st, _ in p.adapter_closures():
        if st == "yes":
            for c in prog.by_key.get(ck, []):
                for _, t in c.calls(*MARKERS):
                    if t.cname not in markers:
                        markers.append(t.cname)
    shape = p.ret_shape() if p.end == "return" else p.end
    return (shape, frozenset(codes_new), frozenset(other), bool(fatal), tuple(markers))
