"""Small helpers shared by the rule modules."""
from . import flow as fl
from . import paths as pa


def need(ctx, rule, key):
    """The unique body with this key, or report ANCHOR-MISSING (fail closed)."""
    bs = ctx.prog.by_key.get(key, [])
    if len(bs) == 1:
        return bs[0]
    if not bs:
        ctx.missing(rule, key)
    else:
        ctx.violation(rule, key, "ANCHOR-AMBIGUOUS", "%d bodies share the key %s" % (len(bs), key))
    return None


def need_re(ctx, rule, pattern, expect=1):
    bs = ctx.prog.find(pattern)
    if len(bs) == expect:
        return bs if expect != 1 else bs[0]
    ctx.violation(rule, pattern, "ANCHOR-MISSING", "expected %d bodies matching /%s/, found %d: %s"
                  % (expect, pattern, len(bs), [b.key for b in bs][:6]))
    return None


def aggregates(body, adt=None, variant=None):
    """(bb, stmt) of every aggregate construction of the given ADT/variant in the body."""
    out = []
    for bb, i, s in body.all_stmts():
        if s.s == "assign" and s.rv.rv == "aggregate" and s.rv.agg == "adt":
            if adt is not None and s.rv.adt != adt:
                continue
            if variant is not None and s.rv.variant != variant:
                continue
            out.append((bb, s))
    return out


def field_op(stmt, name):
    """Operand initialising field `name` of an ADT aggregate statement."""
    rv = stmt.rv
    for f, o in zip(rv.fields or [], rv.ops):
        if f == name:
            return o
    return None


def calls(body, *names):
    return list(body.calls(*names))


def explorer(ctx, body, **kw):
    return pa.Explorer(ctx.prog, body, **kw)


def all_paths(ctx, rule, body, **kw):
    try:
        return pa.Explorer(ctx.prog, body, **kw).paths()
    except pa.PathExplosion as e:
        ctx.violation(rule, body.key, "PATH-EXPLOSION", str(e))
        return []


def err_paths(paths):
    """Paths whose returned value is an error form (Err / Ready(Err) / residual of `?`)."""
    out = []
    for p in paths:
        if p.end != "return":
            continue
        sh = p.ret_shape()
        if sh.startswith("Residual") or sh.startswith("Err") or "Ready(Err" in sh or sh.startswith("Some(Err"):
            out.append(p)
    return out


def o_has_call(o, *suffixes):
    for c in fl.calls_in(o):
        for s in suffixes:
            if c == s or c.endswith(s):
                return True
    return False


def o_is_param_field(o, *fields, param=1):
    return o[0] == "param" and o[1] == param and tuple(o[2]) == tuple(fields)


def const_int(o):
    if o[0] == "const" and isinstance(o[1], int):
        return o[1]
    if o[0] == "cast":
        return const_int(o[1])
    return None
