"""Small helpers shared by the rule modules."""
from . import flow as fl
from . import paths as pa
from .mir import Place


def need(ctx, rule, key):
    """The unique body with this key, or report ANCHOR-MISSING (fail closed)."""
    bs = ctx.prog.by_key.get(key, [])
    if len(bs) == 1:
        return bs[0]
    if not bs:
        ctx.missing(rule, key)
    else:
        ctx.violation(rule, key, "ANCHOR-AMBIGUOUS", "%d bodies share the key %s" % (len(bs), key))
    return None


def need_re(ctx, rule, pattern, expect=1):
    bs = ctx.prog.find(pattern)
    if len(bs) == expect:
        return bs if expect != 1 else bs[0]
    ctx.violation(rule, pattern, "ANCHOR-MISSING", "expected %d bodies matching /%s/, found %d: %s"
                  % (expect, pattern, len(bs), [b.key for b in bs][:6]))
    return None


def aggregates(body, adt=None, variant=None):
    """(bb, stmt) of every aggregate construction of the given ADT/variant in the body."""
    out = []
    for bb, i, s in body.all_stmts():
        if s.s == "assign" and s.rv.rv == "aggregate" and s.rv.agg == "adt":
            if adt is not None and s.rv.adt != adt:
                continue
            if variant is not None and s.rv.variant != variant:
                continue
            out.append((bb, s))
    return out


def field_op(stmt, name):
    """Operand initialising field `name` of an ADT aggregate statement."""
    rv = stmt.rv
    for f, o in zip(rv.fields or [], rv.ops):
        if f == name:
            return o
    return None


def calls(body, *names):
    return list(body.calls(*names))


def explorer(ctx, body, **kw):
    return pa.Explorer(ctx.prog, body, **kw)


def all_paths(ctx, rule, body, **kw):
    try:
        return pa.Explorer(ctx.prog, body, **kw).paths()
    except pa.PathExplosion as e:
        ctx.violation(rule, body.key, "PATH-EXPLOSION", str(e))
        return []


def err_paths(paths):
    """Paths whose returned value is an error form (Err / Ready(Err) / residual of `?`)."""
    out = []
    for p in paths:
        if p.end != "return":
            continue
        sh = p.ret_shape()
        if sh.startswith("Residual") or sh.startswith("Err") or "Ready(Err" in sh or sh.startswith("Some(Err"):
            out.append(p)
    return out


def o_has_call(o, *suffixes):
    for c in fl.calls_in(o):
        for s in suffixes:
            if c == s or c.endswith(s):
                return True
    return False


def o_is_param_field(o, *fields, param=1):
    return o[0] == "param" and o[1] == param and tuple(o[2]) == tuple(fields)


def const_int(o):
    if o[0] == "const" and isinstance(o[1], int):
        return o[1]
    if o[0] == "cast":
        return const_int(o[1])
    return None


def forwarder(prog, body):
    """A13: (ok, detail). A pure forwarder's body is one call to a method of the same name on a
    field projection of self, all remaining parameters passed unchanged, result returned unchanged."""
    f = fl.Flow(body, prog)
    real = [(bb, t) for bb, t in body.all_terms() if t.t == "call" and not fl.is_transparent(t)]
    if len(real) != 1:
        return False, "%d calls (expected exactly one forwarded call): %s" % (len(real), [t.ckey for _, t in real])
    bb, t = real[0]
    if t.cname != body.name:
        return False, "forwards to a different method: %s" % t.ckey
    ro = f.origin(Place({"l": 0}))
    if not (ro[0] == "call" and ro[3] == bb):
        return False, "returned value is %s, not the forwarded call's result" % fl.fmt(ro)
    args = [f.origin(a) for a in t.args]
    if not args or args[0][0] != "param" or args[0][1] != 1 or not args[0][2]:
        return False, "receiver is %s, expected a field of self" % (fl.fmt(args[0]) if args else "?")
    for i, a in enumerate(args[1:], start=2):
        if a != ("param", i, ()):
            return False, "argument %d is %s, expected parameter %d unchanged" % (i - 1, fl.fmt(a), i)
    if len(args) != body.arg_count:
        return False, "passes %d arguments for %d parameters" % (len(args), body.arg_count)
    return True, "-> %s on self.%s" % (t.tkey, ".".join(args[0][2]))


def strip_unwrap(o):
    """Remove value-preserving wrappers (unwrap/expect/casts) everywhere in an origin."""
    k = o[0]
    if k == "call" and o[1].rsplit("::", 1)[-1] in ("unwrap", "expect", "unwrap_unchecked") and o[2]:
        return strip_unwrap(o[2][0])
    if k == "cast":
        return strip_unwrap(o[1])
    if k == "call":
        return ("call", o[1], tuple(strip_unwrap(a) for a in o[2]), o[3])
    if k == "agg":
        return ("agg", o[1], tuple(strip_unwrap(a) for a in o[2]))
    if k == "proj":
        b = strip_unwrap(o[1])
        if b[0] == "param":
            return ("param", b[1], tuple(b[2]) + tuple(o[2]))
        if b[0] == "proj":
            return ("proj", b[1], tuple(b[2]) + tuple(o[2]))
        return ("proj", b, o[2])
    return o


def ret(prog, body, depth=3):
    """Inlined origin of the value a (single-expression) function returns."""
    return fl.inline(prog, fl.ret_origin(prog, body), depth)


def closure_ret_shapes(ctx, key, depth=4):
    """Shapes of the values a closure body may return."""
    out = set()
    for c in ctx.prog.by_key.get(key, []):
        try:
            for p in pa.Explorer(ctx.prog, c).paths():
                if p.end == "return":
                    out.add(p.ret_shape(depth))
        except pa.PathExplosion:
            out.add("?")
    return out


def residual_error_shapes(ctx, p):
    """For a path that returns through `?` (shape Residual(..)): the set of shapes the returned error
    may have after the From conversion the `?` applies, and a description of where it came from.
    Shapes are like 'FrameError::Incomplete'; 'any:<type>' when the variant is not determined."""
    prog = ctx.prog
    r = p.ret
    if r is None or r[0] != "errconv":
        return set(), "not a residual"
    inner = r[1]
    fr = [e for e in p.calls("from_residual")]
    src = dst = None
    if fr and fr[-1][2].gargs:
        parts = fl.split_gargs(fr[-1][2].gargs)
        if len(parts) == 2:
            d = fl.split_gargs(parts[0][parts[0].index("<") + 1:-1]) if "<" in parts[0] else []
            s = fl.split_gargs(parts[1][parts[1].index("<") + 1:-1]) if "<" in parts[1] else []
            dst = d[-1] if d else None
            src = s[-1] if s else None
    # error built by a map_err closure
    if inner[0] == "call" and inner[1] in ("core::result::Result::map_err",) and len(inner[2]) > 1 and inner[2][1][0] in ("closure", "fn"):      # (a named fn is a closure with a name)
        shapes = closure_ret_shapes(ctx, inner[2][1][1])
        if src == dst or src is None:
            return shapes, "map_err closure"
        conv = "<%s as core::convert::From<%s>>::from" % (fl.strip_generics(dst), src)
        out = set()
        for c in prog.by_key.get(conv, []):
            for q in pa.Explorer(prog, c).paths():
                if q.end == "return":
                    out.add(q.ret_shape())
        return out or {"any:%s" % dst}, "map_err closure then " + conv
    if src is not None and dst is not None and src != dst:
        conv = "<%s as core::convert::From<%s>>::from" % (fl.strip_generics(dst), src)
        out = set()
        for c in prog.by_key.get(conv, []):
            for q in pa.Explorer(prog, c).paths():
                if q.end == "return":
                    out.add(q.ret_shape())
        return out or {"any:%s" % dst}, conv
    return {"any:%s" % (dst or "?")}, "error of %s passed through" % pa.short(inner[1] if inner[0] == "call" else "?")


def taint_locals(body, seeds, skip_calls=()):
    """Flow-insensitive taint over the locals of one MIR body. `seeds`: {local: set(labels)}. A local is tainted by a label when a
    value derived from a seed may reach it: through assignments (any operand place rooted in a tainted local), references,
    aggregates (closures capture), call results (any tainted argument) and `&mut x` arguments of calls (x may be rewritten from the
    other arguments). Returns {local: set(labels)}."""
    taint = {l: set(v) for l, v in seeds.items()}
    refs = {}       # local holding `&mut x` / `&x` -> x
    for bb, i, st in body.all_stmts():
        if st.s == "assign" and st.rv.rv in ("ref", "rawptr") and st.place.is_local() and st.rv.place is not None:
            refs[st.place.local] = st.rv.place.local

    def of(pl):
        return taint.get(pl.local, set()) if pl is not None else set()
    changed = True
    while changed:
        changed = False
        for bb, i, st in body.all_stmts():
            if st.s != "assign":
                continue
            src = set()
            if st.rv.place is not None:
                src |= of(st.rv.place)
            for o in st.rv.ops:
                if o.place is not None:
                    src |= of(o.place)
            if src - taint.get(st.place.local, set()):
                taint.setdefault(st.place.local, set()).update(src)
                changed = True
        for bb, t in body.all_terms():
            if t.t != "call" or bb in skip_calls:       # (skip_calls: blocks whose call is not a derivation, e.g. the operation observed)
                continue
            src = set()
            for a in t.args:
                if a.place is not None:
                    src |= of(a.place)
            targets = [t.dest.local] + [refs[a.place.local] for a in t.args if a.place is not None and a.place.is_local() and a.place.local in refs]
            for l in targets:
                if src - taint.get(l, set()):
                    taint.setdefault(l, set()).update(src)
                    changed = True
    return taint
