"""A14 panic-site enumeration and guard-based discharge.

A *site* is an explicit construct that panics for some operand values: Option/Result
unwrap/expect, core::panicking::* (panic!/assert!/unreachable!), Index::index*, the
panicking `bytes`/slice API, and MIR Assert terminators (bounds, overflow, division).
Each site of a body is looked at on every explored path that reaches it; it is
*discharged* when on all those paths a guard from a small vocabulary precedes it."""
from . import paths as pa
from . import expr

API = ("get_u8", "get_u16", "get_u32", "get_u64", "copy_to_slice", "copy_to_bytes", "advance", "put_u8", "put_u16", "put_u32", "put_u64",
       "put_slice", "put", "split_to", "split_off", "copy_from_slice")


def site_kind(t):
    """Kind string of a terminator if it is a panic site, else None."""
    if t.t == "assert":
        return "assert:%s" % (t.aop or t.akind)
    if t.t != "call" or not t.callee:
        return None
    k = t.ckey or ""
    tk = t.tkey or ""
    n = t.cname
    if n in ("unwrap", "expect", "unwrap_unchecked") and k.startswith(("core::option::Option", "core::result::Result")):
        return n
    if k.startswith(("core::panicking::", "std::rt::", "std::panicking::")):
        return "panic"
    if n in ("index", "index_mut") and "core::ops::index" in tk:
        return "index"
    if n in API and ("bytes::" in k or "bytes::" in tk or "core::slice" in k):
        return "api:" + n
    # http::HeaderMap's infallible growth methods panic once the map would exceed its MAX_SIZE (24577 entries are enough):
    # the number of received field lines is the peer's choice, so these are panic sites like the bytes API
    if n in ("with_capacity", "append", "insert", "reserve", "entry", "extend") and "http::header::map::HeaderMap" in k:
        return "api:HeaderMap::" + n
    return None
    return None


def enumerate_sites(body):
    out = []
    for bb, t in body.all_terms():
        k = site_kind(t)
        if k:
            out.append((bb, t, k))
    return out


def _is_len_of(v, s):
    """v is the length of slice value s."""
    if v is None:
        return False
    if v[0] == "unop" and v[1] == "PtrMetadata" and v[2] == s:
        return True
    if v[0] == "call" and pa.short(v[1]) == "len" and v[2] and v[2][0] == s:
        return True
    return False


def _slice_of_len(v):
    if v is None:
        return None
    if v[0] == "unop" and v[1] == "PtrMetadata":
        return v[2]
    if v[0] == "call" and pa.short(v[1]) == "len" and v[2]:
        return v[2][0]
    return None


def emptiness(tests, s, consts):
    """True: the tests establish that slice value s is empty; False: that it is not; None: neither."""
    for tst in tests:
        v = tst[3]
        if v[0] == "call" and pa.short(v[1]) == "is_empty" and v[2] and v[2][0] == s:
            return tst[2] == "true"
    lo, hi, _ = expr.interval([(t[3], t[2]) for t in tests], lambda v: _is_len_of(v, s), consts)
    if lo >= 1:
        return False
    if hi == 0:
        return True
    return None


def _lower_bound(tests, is_var, consts):
    lo, hi, _ = expr.interval([(t[3], t[2]) for t in tests], is_var, consts)
    return lo


def _is_len_call(v):
    return v[0] == "call" and pa.short(v[1]) in ("remaining", "len") and (v[1].startswith(("bytes::", "<", "core::slice", "[T]", "alloc::vec", "alloc::collections")) or "Buf" in v[1])


def _has_len(v):
    return expr.mentions(v, _is_len_call)


def _mem_len_sum(v):
    """v is built only from small constants, remaining()/len() of buffers and sums of those."""
    if v[0] == "const" and isinstance(v[1], int):
        return 0 <= v[1] < (1 << 32)
    if _is_len_call(v):
        return True
    if v[0] == "proj" and tuple(n.lstrip(".") for n in v[2]) == ("0",):
        return _mem_len_sum(v[1])
    if v[0] == "binop" and v[1].replace("WithOverflow", "") == "Add":
        return _mem_len_sum(v[2]) and _mem_len_sum(v[3])
    return False


def guard_for(path, ev_index, ev, kind, consts):
    """Return a text describing the guard that makes this site safe on this path, or None."""
    prior = [path.tests[e[2]] for e in path.events[:ev_index] if e[0] == "test"]
    if kind.startswith("assert:"):
        t = ev[2]
        va, vb = ev[3]
        if t.akind == "bounds":
            ln, ix = va, vb
            i = expr.fold(ix, consts) if ix is not None else None
            n = expr.fold(ln, consts) if ln is not None else None
            if i is not None and n is not None:
                return "constant index %d < constant length %d" % (i, n) if i < n else None
            s = _slice_of_len(ln)
            if s is None or i is None:
                return None
            # non-emptiness / length guards on the same slice
            for tst in prior:
                v = tst[3]
                if v[0] == "call" and pa.short(v[1]) == "is_empty" and v[2] and v[2][0] == s and tst[2] == "false" and i == 0:
                    return "!is_empty() on the same slice"
            lo = _lower_bound(prior, lambda v: _is_len_of(v, s), consts)
            if lo > i:
                return "len() >= %d established" % lo
            # slice is buf.chunk(): remaining()/has_remaining() of the same buffer
            if s[0] == "call" and pa.short(s[1]) == "chunk" and s[2]:
                b = s[2][0]
                for tst in prior:
                    v = tst[3]
                    if v[0] == "call" and pa.short(v[1]) == "has_remaining" and v[2] and v[2][0] == b and tst[2] == "true" and i == 0:
                        return "has_remaining() on the same buffer"
                lo = _lower_bound(prior, lambda v: v[0] == "call" and pa.short(v[1]) == "remaining" and v[2] and v[2][0] == b, consts)
                if lo > i:
                    return "remaining() >= %d on the same buffer" % lo
            return None
        if t.akind in ("overflow", "divzero", "remzero", "overflowneg"):
            # interval arithmetic on the operand expressions (clamped casts: `x.min(isize::MAX as usize) as isize`)
            ty = expr.TYRANGE.get(expr.vtype(va)) if va is not None else None
            if ty and t.akind == "overflowneg":
                r = expr.vrange(va, consts)
                if r and r[0] > ty[0]:
                    return "operand range [%d, %d] excludes the type minimum" % r
            if ty and t.akind == "overflow" and t.aop in ("Add", "Sub") and vb is not None:
                ra, rb = expr.vrange(va, consts), expr.vrange(vb, consts)
                if ra and rb:
                    lo, hi = (ra[0] + rb[0], ra[1] + rb[1]) if t.aop == "Add" else (ra[0] - rb[1], ra[1] - rb[0])
                    if ty[0] <= lo and hi <= ty[1]:
                        return "operand ranges keep the result in [%d, %d]" % (lo, hi)
            if t.akind == "overflow" and t.aop == "Add" and va is not None and vb is not None and _mem_len_sum(va) and _mem_len_sum(vb) \
                    and (_has_len(va) or _has_len(vb)):
                # a sum of lengths of buffers that are in memory at the same time cannot exceed the address space
                return "sum of in-memory buffer lengths (remaining()/len())"
            if t.akind == "overflow" and t.aop == "Sub" and va is not None and vb is not None and _is_len_call(vb) and vb[2]:
                # a - chunk.len() where chunk = take_chunk(.., a): the chunk was cut to at most `a` bytes (BufList::take_chunk, split_to(min(..)))
                src_ = vb[2][0]
                while src_[0] in ("proj", "okval"):
                    src_ = src_[1]
                if src_[0] == "call" and pa.short(src_[1]) == "take_chunk" and len(src_[2]) >= 2 and src_[2][-1] == va:
                    return "subtrahend is the length of a chunk taken with that very limit (take_chunk(.., limit))"
            a = expr.fold(va, consts) if va is not None else None
            b = expr.fold(vb, consts) if vb is not None else None
            if t.akind in ("divzero", "remzero"):
                return "constant non-zero divisor" if (a is not None and a != 0) else None
            if a is not None and b is not None:
                op = t.aop
                try:
                    r = {"Add": a + b, "Sub": a - b, "Mul": a * b, "Shl": a << b if 0 <= b < 128 else None, "Shr": a >> b if 0 <= b < 128 else None}.get(op)
                except Exception:
                    r = None
                if r is not None and 0 <= r < (1 << 64) and (op not in ("Shl", "Shr") or b < 64):
                    return "constant operands"
            if t.aop in ("Shl", "Shr") and b is not None and 0 <= b < 8:
                return "constant shift < 8"
            return None
        return None
    t, argv, kv = ev[2], ev[3], (ev[4] if len(ev) > 4 else None)
    if kind in ("unwrap", "expect", "unwrap_unchecked"):
        if kv is not None and len(kv) == 1:
            want = 1 if t.ckey.startswith("core::option::Option") else 0
            if kv == {want}:
                return "variant established on the path (is_some / match / constructor)"
        v = argv[0] if argv else None
        if v is not None and v[0] == "call":
            # value produced by a constructor whose argument is constant / checked
            if v[1] == "h3::proto::varint::VarInt::from_u64" and v[2]:
                c = expr.fold(v[2][0], consts)
                if c is not None and 0 <= c < (1 << 62):
                    return "VarInt::from_u64 of a constant below 2^62"
            if pa.short(v[1]) == "try_from" and v[2] and v[2][0][0] == "call" and pa.short(v[2][0][1]) in ("index", "index_mut"):
                return None
        return None
    if kind == "index":
        recv, idx = (argv + (None, None))[:2]
        # RangeFull never panics
        if idx is not None and idx[0] == "agg" and idx[1].endswith("RangeFull"):
            return "RangeFull"
        # buf[..min(.., buf.len())]
        if idx is not None and idx[0] == "agg" and idx[1].endswith("RangeTo") and idx[3] and recv is not None:
            end = idx[3][0]
            if end[0] == "call" and pa.short(end[1]) == "min" and any(_same_call(a_, ("call", "len", (recv,))) for a_ in end[2]):
                return "range end = min(.., len() of the same slice)"
        return None
    if kind == "panic":
        # assert!(chunk.len() <= X) where chunk was cut by take_chunk(.., X): the failing branch cannot be taken
        if prior:
            nf = expr.cmp_nf(prior[-1][3], prior[-1][2])
            if nf and nf[1] == ">" and _is_len_call(nf[0]) and nf[0][2]:
                src_ = nf[0][2][0]
                while src_[0] in ("proj", "okval"):
                    src_ = src_[1]
                if src_[0] == "call" and pa.short(src_[1]) == "take_chunk" and len(src_[2]) >= 2 and _same_call(src_[2][-1], nf[2]) and \
                        not _touched_between(path, src_[3], ev_index, nf[2]):
                    return "asserted bound is the very limit the chunk was taken with (take_chunk(.., limit))"
        return None
    if kind.startswith("api:HeaderMap::"):
        if kind.endswith("with_capacity") and argv:
            c = expr.fold(argv[0], consts)
            if c is not None and 0 <= c <= 24576:
                return "constant capacity %d within http's limit" % c
        return None
    if kind.startswith("api:"):
        n = kind[4:]
        if not argv:
            return None
        b = argv[0]
        need = {"get_u8": 1, "put_u8": None}.get(n)
        amount = argv[1] if len(argv) > 1 else None
        if n in ("copy_to_bytes", "advance", "split_to") and amount is not None:
            # amount is remaining() of the same buffer, or min(.., remaining/len)
            if amount[0] == "call" and pa.short(amount[1]) in ("remaining", "len") and amount[2] and amount[2][0] == b:
                return "amount = remaining() of the same buffer"
            # min(.., b.remaining()) never exceeds what the buffer holds
            if amount[0] == "call" and pa.short(amount[1]) == "min" and amount[1].startswith(("core::cmp::", "<usize as core::cmp::Ord>", "core::num::")) and \
                    any(a_[0] == "call" and pa.short(a_[1]) in ("remaining", "len") and a_[2] and _same_buf(a_[2][0], b) for a_ in amount[2]):
                return "amount = min(.., remaining() of the same buffer)"
            lo = None
            for tst in prior:
                nf = expr.orient(expr.cmp_nf(tst[3], tst[2]), lambda v: v[0] == "call" and pa.short(v[1]) == "remaining" and v[2] and v[2][0] == b)
                if nf and nf[1] == ">=" and nf[2] == amount:
                    return "remaining() >= amount established on the same buffer"
            c = expr.fold(amount, consts)
            if c is not None:
                lo = _lower_bound(prior, lambda v: v[0] == "call" and pa.short(v[1]) == "remaining" and v[2] and v[2][0] == b, consts)
                if lo >= c:
                    return "remaining() >= %d established" % c
            return None
        if n == "get_u8":
            lo = _lower_bound(prior, lambda v: v[0] == "call" and pa.short(v[1]) == "remaining" and v[2] and v[2][0] == b, consts)
            if lo >= 1:
                return "remaining() >= 1 established"
            for tst in prior:
                v = tst[3]
                if v[0] == "call" and pa.short(v[1]) == "has_remaining" and v[2] and v[2][0] == b and tst[2] == "true":
                    return "has_remaining() on the same buffer"
            return None
        if n == "copy_to_slice" and amount is not None:
            # destination is a constant sub-range of a local array: needs remaining() >= its width
            w = None
            if amount[0] == "call" and pa.short(amount[1]) == "index_mut" and len(amount[2]) > 1 and amount[2][1][0] == "agg":
                r = [expr.fold(x, consts) for x in amount[2][1][3]]
                if len(r) == 2 and None not in r:
                    w = r[1] - r[0]
            if w is not None:
                lo = _lower_bound(prior, lambda v: v[0] == "call" and pa.short(v[1]) == "remaining" and v[2] and v[2][0] == b, consts)
                if lo >= w:
                    return "remaining() >= %d established" % w
            return None
        return None
    return None


def _same_call(a, b):
    """Two values are the same read-only length query of the same object (`buf.len()` asked twice), whatever the call sites."""
    if a == b:
        return True
    return a[0] == "call" and b[0] == "call" and pa.short(a[1]) == pa.short(b[1]) and pa.short(a[1]) in ("len", "remaining", "capacity") and \
        tuple(a[2]) == tuple(b[2])


def _touched_between(path, from_site, to_index, q):
    """A call between the call site `from_site` and event `to_index` receives the object q is asked of (other than a length query)."""
    if q[0] != "call" or not q[2]:
        return False
    obj = q[2][0]
    seen = False
    for e in path.events[:to_index]:
        if e[0] != "call":
            continue
        if e[1] == from_site:
            seen = True
            continue
        if seen and any(a == obj for a in e[3]) and e[2].cname not in ("len", "remaining", "capacity", "is_empty", "deref", "deref_mut", "chunk"):
            return True
    return False


def _same_buf(x, b):
    """x and b denote the same buffer (a `&*x` / deref_mut reborrow in between does not matter)."""
    def strip(v):
        while v[0] == "call" and pa.short(v[1]) in ("deref", "deref_mut", "borrow", "borrow_mut", "as_ref", "as_mut") and v[2]:
            v = v[2][0]
        return v
    return strip(x) == strip(b)


def audit_body(prog, body, max_visits=1, max_paths=4000, env=None, with_slots=False):
    """[(bb, term, kind, status, detail)] with status 'discharged' | 'open' | 'unreached'.
    `env` (local -> value) specialises the exploration to the argument values every reachable caller passes.
    with_slots: a sixth element says whether the site counts against an audited-table ceiling: sites of one kind and callee that
    never lie on the same path (the same statement written into both arms of a branch instead of after it) share one slot."""
    sites = enumerate_sites(body)
    if not sites:
        return []
    try:
        ps = pa.Explorer(prog, body, max_visits=max_visits, max_paths=max_paths).paths(env=env)
    except pa.PathExplosion:
        return [(bb, t, k, "open", "path explosion") + ((True,) if with_slots else ()) for bb, t, k in sites]
    res = {}
    on_paths = {}
    for pi, p in enumerate(ps):
        for i, e in enumerate(p.events):
            if e[0] not in ("call", "assert"):
                continue
            t = e[2]
            k = site_kind(t)
            if not k:
                continue
            on_paths.setdefault(e[1], set()).add(pi)
            g = guard_for(p, i, e, k, prog.consts)
            cur = res.get(e[1])
            if cur is None:
                res[e[1]] = [g is not None, g, 1]
            else:
                cur[0] = cur[0] and g is not None
                cur[1] = cur[1] if g is None else (g if cur[1] is None or cur[0] else cur[1])
                cur[2] += 1
    out = []
    for bb, t, k in sites:
        r = res.get(bb)
        if r is None:
            out.append((bb, t, k, "unreached", "no explored path reaches the site (infeasible under the constant/variant facts)"))
        elif r[0]:
            out.append((bb, t, k, "discharged", "%s (%d paths)" % (r[1], r[2])))
        else:
            out.append((bb, t, k, "open", ""))
    if with_slots:
        slots = {}
        out2 = []
        for row in out:
            bb, t, k = row[:3]
            grp = (k, t.ckey if t.t == "call" else (t.akind, t.aop))
            mine = on_paths.get(bb)
            opened = True
            if mine:
                for sl in slots.setdefault(grp, []):
                    if not (sl & mine):
                        sl |= mine
                        opened = False
                        break
                else:
                    slots[grp].append(set(mine))
            out2.append(row + (opened,))
        return out2
    return out
