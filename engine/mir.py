"""In-memory model of the fact base: Program -> Body -> blocks/statements/terminators,
with CFG helpers (successors without unwind edges, dominators, reachability), place and
operand wrappers, and a MIR pretty printer used in reports."""
import os
import re
from collections import defaultdict


class Place:
    __slots__ = ("local", "proj", "ty", "adt")

    def __init__(self, j):
        self.local = j["l"]
        pr = []
        for e in j.get("pr", ()):
            if e == "*":
                pr.append("*")
            elif "f" in e:
                pr.append(("f", e["f"], e.get("n")))
            elif "v" in e:
                pr.append(("v", e["v"], e.get("n")))
            elif "ix" in e:
                pr.append(("ix", e["ix"]))
            elif "ci" in e:
                pr.append(("ci", e["ci"], e.get("from_end", False)))
            elif "sub" in e:
                pr.append(("sub",) + tuple(e["sub"]))
            else:
                pr.append(("o", e.get("o")))
        self.proj = tuple(pr)
        self.ty = j.get("ty")
        self.adt = j.get("adt")

    @property
    def key(self):
        return (self.local, self.proj)

    def is_local(self):
        return not self.proj

    def fields(self):
        """Names of the fields projected, outermost last."""
        return [e[2] if e[2] is not None else str(e[1]) for e in self.proj if e != "*" and e[0] == "f"]

    def variants(self):
        return [e[2] for e in self.proj if e != "*" and e[0] == "v"]

    def noderef(self):
        """Projection with derefs removed (for comparing places through references)."""
        return tuple(e for e in self.proj if e != "*")

    def __eq__(self, o):
        return isinstance(o, Place) and self.key == o.key

    def __hash__(self):
        return hash(self.key)

    def __str__(self):
        s = "_%d" % self.local
        for e in self.proj:
            if e == "*":
                s = "(*%s)" % s
            elif e[0] == "f":
                s = "%s.%s" % (s, e[2] if e[2] is not None else e[1])
            elif e[0] == "v":
                s = "(%s as %s)" % (s, e[2])
            elif e[0] == "ix":
                s = "%s[_%d]" % (s, e[1])
            elif e[0] == "ci":
                s = "%s[%s%d]" % (s, "-" if e[2] else "", e[1])
            else:
                s = "%s{%s}" % (s, e[1:])
        return s

    __repr__ = __str__


class Operand:
    __slots__ = ("k", "place", "ty", "int", "size", "named", "fn", "s", "gargs")

    def __init__(self, j):
        self.k = j["k"]
        self.place = None
        self.ty = self.int = self.size = self.named = self.fn = self.s = self.gargs = None
        if self.k in ("copy", "move"):
            self.place = Place(j["p"])
        elif self.k == "const":
            self.ty = j.get("ty")
            if j.get("int") is not None:
                self.int = int(j["int"])
                self.size = j.get("size")
            self.named = j.get("named")
            self.fn = j.get("fn")
            self.gargs = j.get("gargs")
            self.s = j.get("s")
        else:
            self.s = j.get("s")

    def is_const(self):
        return self.k == "const"

    def signed_int(self):
        if self.int is None:
            return None
        if self.ty and self.ty.startswith("i") and self.size:
            bits = self.size * 8
            if self.int >= 1 << (bits - 1):
                return self.int - (1 << bits)
        return self.int

    def __str__(self):
        if self.place is not None:
            return "%s %s" % (self.k, self.place)
        if self.k == "const":
            if self.named:
                return "const %s" % self.named
            if self.fn:
                return "fn %s" % self.fn["key"]
            if self.int is not None:
                return "const %d_%s" % (self.signed_int(), self.ty)
            return "%s" % self.s
        return str(self.s)

    __repr__ = __str__


class Rvalue:
    __slots__ = ("rv", "ops", "place", "op", "agg", "adt", "variant", "vidx", "fields", "def_", "ty", "bk",
                 "kind", "s", "count")

    def __init__(self, j):
        self.rv = j["rv"]
        self.ops = []
        self.place = self.op = self.agg = self.adt = self.variant = self.vidx = self.fields = None
        self.def_ = self.ty = self.bk = self.kind = self.s = self.count = None
        r = self.rv
        if r == "use":
            self.ops = [Operand(j["op"])]
        elif r in ("ref", "rawptr", "discr"):
            self.place = Place(j["p"])
            self.bk = j.get("bk")
        elif r == "binop":
            self.op = j["op"]
            self.ops = [Operand(j["a"]), Operand(j["b"])]
        elif r == "unop":
            self.op = j["op"]
            self.ops = [Operand(j["a"])]
        elif r == "cast":
            self.kind = j["kind"]
            self.ty = j["ty"]
            self.ops = [Operand(j["op"])]
        elif r == "repeat":
            self.ops = [Operand(j["op"])]
            self.count = j.get("count")
        elif r == "aggregate":
            self.agg = j["agg"]
            self.adt = j.get("adt")
            self.variant = j.get("variant")
            self.vidx = j.get("vidx")
            self.fields = j.get("fields")
            self.def_ = j.get("def")
            self.ops = [Operand(o) for o in j["ops"]]
        else:
            self.s = j.get("s")

    def __str__(self):
        r = self.rv
        if r == "use":
            return str(self.ops[0])
        if r == "ref":
            return "&%s%s" % ("mut " if self.bk == "mut" else "", self.place)
        if r == "rawptr":
            return "&raw %s" % self.place
        if r == "discr":
            return "discriminant(%s)" % self.place
        if r == "binop":
            return "%s(%s, %s)" % (self.op, self.ops[0], self.ops[1])
        if r == "unop":
            return "%s(%s)" % (self.op, self.ops[0])
        if r == "cast":
            return "%s as %s (%s)" % (self.ops[0], self.ty, self.kind)
        if r == "repeat":
            return "[%s; %s]" % (self.ops[0], self.count)
        if r == "aggregate":
            if self.agg == "adt":
                return "%s::%s { %s }" % (self.adt, self.variant, ", ".join(
                    "%s: %s" % (f, o) for f, o in zip(self.fields or [], self.ops)))
            if self.agg in ("closure", "coroutine", "coroutine_closure"):
                return "%s %s [%s]" % (self.agg, self.def_, ", ".join(map(str, self.ops)))
            return "%s(%s)" % (self.agg, ", ".join(map(str, self.ops)))
        return str(self.s)


class Stmt:
    __slots__ = ("s", "place", "rv", "vidx", "ln", "mac", "file")

    def __init__(self, j):
        self.s = j["s"]
        self.place = Place(j["p"])
        self.rv = Rvalue(j["v"]) if "v" in j else None
        self.vidx = j.get("vidx")
        self.ln = j.get("ln")
        self.mac = j.get("mac")
        self.file = j.get("file")

    def __str__(self):
        if self.s == "assign":
            return "%s = %s" % (self.place, self.rv)
        return "discriminant(%s) = %s" % (self.place, self.vidx)


class Term:
    __slots__ = ("t", "ln", "mac", "file", "callee", "resolved", "indirect", "args", "dest", "target", "op",
                 "targets", "otherwise", "place", "cond", "expected", "kind", "akind", "aop", "a", "b",
                 "resume", "drop", "false_edge", "s", "recv_ty", "recv_adt", "gargs", "value", "resume_arg")

    def __init__(self, j):
        self.t = j["t"]
        self.ln = j.get("ln")
        self.mac = j.get("mac")
        self.file = j.get("file")
        self.callee = self.resolved = self.indirect = self.dest = self.op = self.place = None
        self.args = []
        self.target = j.get("target")
        self.targets = None
        self.otherwise = None
        self.cond = self.expected = self.kind = self.akind = self.aop = self.a = self.b = None
        self.resume = self.drop = self.false_edge = self.s = None
        self.recv_ty = self.recv_adt = self.gargs = self.value = self.resume_arg = None
        t = self.t
        if t == "call":
            self.callee = j.get("callee")
            self.resolved = j.get("resolved")
            if "indirect" in j:
                self.indirect = Operand(j["indirect"])
            self.args = [Operand(a) for a in j["args"]]
            self.dest = Place(j["dest"])
            self.recv_ty = j.get("recv_ty")
            self.recv_adt = j.get("recv_adt")
            self.gargs = j.get("gargs")
        elif t == "switch":
            self.op = Operand(j["op"])
            self.targets = [(int(v), b) for v, b in j["targets"]]
            self.otherwise = j["otherwise"]
        elif t == "drop":
            self.place = Place(j["p"])
        elif t == "assert":
            self.cond = Operand(j["cond"])
            self.expected = j["expected"]
            self.akind = j.get("kind")
            self.aop = j.get("op")
            for n in ("a", "b"):
                if n in j:
                    setattr(self, n, Operand(j[n]))
            if "len" in j:
                self.a = Operand(j["len"])
                self.b = Operand(j["index"])
        elif t == "yield":
            self.resume = j["resume"]
            self.drop = j["drop"]
            self.value = Operand(j["value"])
            self.resume_arg = Place(j["resume_arg"])
        elif t == "goto":
            self.false_edge = j.get("false_edge")
        elif t == "other":
            self.s = j.get("s")

    # ---- callee naming
    @property
    def ckey(self):
        """Most precise key of the callee: the resolved impl item if known."""
        if self.resolved:
            return self.resolved["key"]
        if self.callee:
            return self.callee["key"]
        return None

    @property
    def tkey(self):
        """Key of the callee as written (the trait item for trait calls)."""
        return self.callee["key"] if self.callee else None

    @property
    def cname(self):
        if self.callee:
            return self.callee.get("name")
        return None

    def is_call(self, *names):
        """True if the call's callee key (declared or resolved) ends with one of names."""
        if self.t != "call" or not self.callee:
            return False
        keys = [self.tkey, self.ckey]
        if self.ckey == "core::mem::take" and (self.gargs or "").startswith("[core::option::Option<"):
            keys.append("core::option::Option::take")        # mem::take(&mut opt) is opt.take()
        if self.ckey in ("<T as core::convert::Into<U>>::into", "<T as core::convert::TryInto<U>>::try_into"):
            from . import flow as _flow
            keys.append(_flow.into_to_from(self))              # `.into()` names the From impl it forwards to (and its alias)
        for k in keys:
            for n in names:
                if k == n or k.endswith("::" + n) or k.endswith(n):
                    return True
        return False

    def __str__(self):
        t = self.t
        if t == "call":
            c = self.ckey or ("indirect " + str(self.indirect))
            return "%s = %s(%s) -> bb%s" % (self.dest, c, ", ".join(map(str, self.args)), self.target)
        if t == "switch":
            return "switchInt(%s) -> [%s, otherwise: bb%d]" % (
                self.op, ", ".join("%d: bb%d" % x for x in self.targets), self.otherwise)
        if t == "goto":
            return "goto -> bb%d%s" % (self.target, " (false edge)" if self.false_edge is not None else "")
        if t == "drop":
            return "drop(%s) -> bb%d" % (self.place, self.target)
        if t == "assert":
            return "assert(%s == %s, %s %s) -> bb%d" % (self.cond, self.expected, self.akind, self.aop or "", self.target)
        if t == "yield":
            return "yield -> [resume: bb%d, drop: bb%d]" % (self.resume, self.drop)
        if t == "other":
            return "other(%s)" % self.s
        return t


class Block:
    __slots__ = ("idx", "cleanup", "stmts", "term")

    def __init__(self, idx, j):
        self.idx = idx
        self.cleanup = j["cleanup"]
        self.stmts = [Stmt(s) for s in j["stmts"]]
        self.term = Term(j["term"])


class Body:
    def __init__(self, j, crate):
        self.j = j
        self.crate = crate
        self.id = j["id"]
        self.key = j["id"]["key"]
        self.path = j["id"]["path"]
        self.name = j["id"].get("name")
        self.self_adt = j["id"].get("self_adt")
        self.trait = j["id"].get("trait")
        self.kind = j["kind"]
        self.file = j["file"]
        self.line = j["line"]
        self.hi_line = j["hi_line"]
        self.coroutine = j["coroutine"]
        self.pub = j["pub"]
        self.reach = j["reach"]
        self.parent = j.get("parent")
        self.arg_count = j["arg_count"]
        self.locals = j["locals"]
        self._blocks = None
        self._vars = None
        self._dom = None
        self._preds = None
        self._defs = None

    @property
    def blocks(self):
        if self._blocks is None:
            self._blocks = [Block(i, b) for i, b in enumerate(self.j["blocks"])]
        return self._blocks

    @property
    def vars(self):
        """user variable name -> list of places"""
        if self._vars is None:
            v = defaultdict(list)
            for x in self.j["vars"]:
                v[x["name"]].append(Place(x["p"]))
            self._vars = v
        return self._vars

    def var_name(self, place_or_local):
        """Name of the user variable that is exactly this place / local, if any."""
        key = place_or_local.key if isinstance(place_or_local, Place) else (place_or_local, ())
        for n, ps in self.vars.items():
            for p in ps:
                if p.key == key:
                    return n
        return None

    def local_ty(self, l):
        return self.locals[l]["ty"]

    def local_adt(self, l):
        return self.locals[l].get("adt")

    def loc(self, x=None):
        ln = getattr(x, "ln", None) if x is not None else None
        f = getattr(x, "file", None) if x is not None else None
        return "%s:%s" % (f or self.file, ln if ln is not None else self.line)

    # ---- CFG
    def succs(self, bb, yield_drop=False):
        b = self.blocks[bb]
        t = b.term
        k = t.t
        out = []
        if k == "goto":
            out = [("", t.target)]
        elif k == "switch":
            out = [(v, tb) for v, tb in t.targets] + [("otherwise", t.otherwise)]
        elif k in ("call", "drop", "assert"):
            out = [("", t.target)] if t.target is not None and t.target >= 0 else []
        elif k == "yield":
            out = [("resume", t.resume)]
            if yield_drop and t.drop is not None and t.drop >= 0:
                out.append(("yield_drop", t.drop))
        return [(l, x) for l, x in out if not self.blocks[x].cleanup]

    def reachable(self, start=0):
        seen = {start}
        st = [start]
        while st:
            b = st.pop()
            for _, s in self.succs(b):
                if s not in seen:
                    seen.add(s)
                    st.append(s)
        return seen

    @property
    def preds(self):
        if self._preds is None:
            p = defaultdict(list)
            for b in self.reachable():
                for l, s in self.succs(b):
                    p[s].append((l, b))
            self._preds = p
        return self._preds

    @property
    def dom(self):
        """dominator sets (bb -> set of dominators), for blocks reachable from bb0."""
        if self._dom is None:
            reach = self.reachable()
            order = self.rpo()
            dom = {b: set(reach) for b in reach}
            dom[0] = {0}
            changed = True
            while changed:
                changed = False
                for b in order:
                    if b == 0:
                        continue
                    ps = [p for _, p in self.preds[b] if p in dom]
                    if not ps:
                        continue
                    new = set.intersection(*(dom[p] for p in ps)) | {b}
                    if new != dom[b]:
                        dom[b] = new
                        changed = True
            self._dom = dom
        return self._dom

    def rpo(self):
        seen = set()
        post = []

        def dfs(b):
            stack = [(b, iter(self.succs(b)))]
            seen.add(b)
            while stack:
                n, it = stack[-1]
                adv = False
                for _, s in it:
                    if s not in seen:
                        seen.add(s)
                        stack.append((s, iter(self.succs(s))))
                        adv = True
                        break
                if not adv:
                    post.append(n)
                    stack.pop()
        dfs(0)
        return list(reversed(post))

    def dominates(self, a, b):
        return b in self.dom and a in self.dom[b]

    def reach_from(self, start, avoid=()):
        """Blocks reachable from start (inclusive) without entering blocks in avoid."""
        avoid = set(avoid)
        seen = set()
        st = [start]
        while st:
            b = st.pop()
            if b in seen or b in avoid:
                continue
            seen.add(b)
            for _, s in self.succs(b):
                st.append(s)
        return seen

    def loop_heads(self):
        """Targets of back edges (an edge whose target dominates its source)."""
        heads = set()
        for b in self.reachable():
            for _, s in self.succs(b):
                if self.dominates(s, b):
                    heads.add(s)
        return heads

    def return_blocks(self):
        return [b for b in self.reachable() if self.blocks[b].term.t == "return"]

    # ---- iteration helpers
    def calls(self, *names):
        for b in sorted(self.reachable()):
            t = self.blocks[b].term
            if t.t == "call" and (not names or t.is_call(*names)):
                yield b, t

    def calls_re(self, regex):
        rx = re.compile(regex)
        for b in sorted(self.reachable()):
            t = self.blocks[b].term
            if t.t == "call" and t.callee and (rx.search(t.ckey or "") or rx.search(t.tkey or "")):
                yield b, t

    def all_terms(self):
        for b in sorted(self.reachable()):
            yield b, self.blocks[b].term

    def all_stmts(self):
        for b in sorted(self.reachable()):
            for i, s in enumerate(self.blocks[b].stmts):
                yield b, i, s

    @property
    def defs(self):
        """local -> list of (bb, idx|'term', stmt_or_term) that assign the whole local."""
        if self._defs is None:
            d = defaultdict(list)
            for b in sorted(self.reachable()):
                blk = self.blocks[b]
                for i, s in enumerate(blk.stmts):
                    if s.s == "assign" and s.place.is_local():
                        d[s.place.local].append((b, i, s))
                t = blk.term
                if t.t == "call" and t.dest.is_local():
                    d[t.dest.local].append((b, "term", t))
                if t.t == "yield" and t.resume_arg.is_local():
                    d[t.resume_arg.local].append((b, "term", t))
            self._defs = d
        return self._defs

    # ---- printing
    def dump(self, blocks=None):
        out = ["fn %s  [%s:%d]  kind=%s coroutine=%s args=%d" % (self.key, self.file, self.line, self.kind,
                                                                  self.coroutine, self.arg_count)]
        names = {}
        for n, ps in self.vars.items():
            for p in ps:
                names.setdefault(str(p), n)
        for i, l in enumerate(self.locals):
            nm = names.get("_%d" % i)
            out.append("  let _%d: %s%s" % (i, l["ty"], ("   // " + nm) if nm else ""))
        for n, ps in self.vars.items():
            for p in ps:
                if not p.is_local():
                    out.append("  debug %s => %s" % (n, p))
        reach = self.reachable()
        for b in (blocks if blocks is not None else range(len(self.blocks))):
            blk = self.blocks[b]
            if blk.cleanup:
                continue
            out.append("  bb%d:%s" % (b, "" if b in reach else "  (unreachable)"))
            for s in blk.stmts:
                out.append("    %-90s // %s%s" % (s, s.ln, (" " + s.mac) if s.mac else ""))
            t = blk.term
            out.append("    %-90s // %s%s" % (t, t.ln, (" " + t.mac) if t.mac else ""))
        return "\n".join(out)


_TABLES = os.path.join(os.path.dirname(os.path.dirname(os.path.abspath(__file__))), "tables")


def signature(bj):
    ls = bj["locals"]
    return "(%s) -> %s" % (", ".join(l["ty"] for l in ls[1:bj["arg_count"] + 1]), ls[0]["ty"])


def _known_functions(config=None):
    """{key: signature} of the reference tree for this configuration (all configurations when config is None)."""
    p = os.path.join(_TABLES, "known_functions.txt")
    out = {}
    if os.path.exists(p):
        for ln in open(p).read().split("\n"):
            x = ln.split("\t")
            if len(x) == 3 and (config is None or x[0] == config):
                out[x[1]] = x[2]
    return out


def _known_fields():
    p = os.path.join(_TABLES, "known_fields.txt")
    out = {}
    if os.path.exists(p):
        for ln in open(p).read().split("\n"):
            x = ln.split("\t")
            if len(x) == 5:
                out[(x[0], x[1], int(x[2]))] = (x[3], x[4])
    return out


def _known_consts():
    p = os.path.join(_TABLES, "known_consts.txt")
    out = {}
    if os.path.exists(p):
        for ln in open(p).read().split("\n"):
            x = ln.split("\t")
            if len(x) == 3:
                out[x[0]] = (x[1], x[2])
    return out


_PRIMS = {"u8": 1, "u16": 2, "u32": 4, "u64": 8, "u128": 16, "usize": 8, "i8": 1, "i16": 2, "i32": 4, "i64": 8, "i128": 16, "isize": 8, "bool": 1}


def normalise_consts(data, kconsts, log=None):
    """A named constant the vocabulary does not contain is replaced where it is used: by its literal value when its type is
    a primitive integer (`const MASK: u64 = 127`), by the one reference constant of the same type and value when it is an alias
    of a typed constant (`const CANCEL: Code = Code::H3_REQUEST_CANCELLED`). Anything else is left alone."""
    if not kconsts:
        return
    byval = {}
    for k, (ty, iv) in kconsts.items():
        byval.setdefault((ty, iv), []).append(k)
    new = {}
    for c, d in data.items():
        for k in d["consts"]:
            if k["key"] not in kconsts and k.get("int") is not None:
                new[k["key"]] = (k.get("ty") or "?", str(k["int"]), k.get("size"))
    if not new:
        return
    plan = {}
    for k, (ty, iv, size) in new.items():
        if ty in _PRIMS:
            plan[k] = ("lit", ty, iv, size or _PRIMS[ty])
        else:
            cand = byval.get((ty, iv), [])
            if len(cand) == 1:
                plan[k] = ("alias", cand[0])
    if not plan:
        return
    if log is not None:
        log.extend(("const", k, (v[1] if v[0] == "alias" else "%s_%s" % (v[2], v[1]))) for k, v in plan.items())

    def walk(x):
        if isinstance(x, dict):
            if x.get("k") == "const" and x.get("named") in plan:
                p = plan[x["named"]]
                if p[0] == "alias":
                    x["named"] = x["named_path"] = x["s"] = p[1]
                else:
                    x.pop("named", None)
                    x.pop("named_path", None)
                    x["ty"], x["int"], x["size"], x["s"] = p[1], p[2], p[3], "%s_%s" % (p[2], p[1])
            for v in x.values():
                walk(v)
        elif isinstance(x, list):
            for v in x:
                walk(v)
    for c, d in data.items():
        walk(d["bodies"])

    # the literal match tables (HIR patterns / arm values) name constants as {"path": key}
    def walk_pat(x):
        if isinstance(x, list):
            return [walk_pat(v) for v in x]
        if isinstance(x, dict):
            if set(x) == {"path"} and x["path"] in plan:
                pl = plan[x["path"]]
                return {"path": pl[1]} if pl[0] == "alias" else {"int": pl[2]}
            return {k: walk_pat(v) for k, v in x.items()}
        return x
    for c, d in data.items():
        d["matches"] = walk_pat(d.get("matches", []))


def _split_sig(sig):
    """('(A, B<C, D>) -> R') -> (['A', 'B<C, D>'], 'R')"""
    if not sig.startswith("(") or ") -> " not in sig:
        return None
    depth, cur, args = 0, "", []
    i = 1
    while i < len(sig):
        ch = sig[i]
        if ch in "<([":
            depth += 1
        elif ch in ">)]":
            if ch == ")" and depth == 0:
                break
            depth -= 1
        if ch == "," and depth == 0:
            args.append(cur.strip())
            cur = ""
        else:
            cur += ch
        i += 1
    if cur.strip():
        args.append(cur.strip())
    ret = sig[i:].split(") -> ", 1)
    return args, (ret[1] if len(ret) == 2 else "?")


def _apply_param_perm(data, perm, log=None):
    for c, d in data.items():
        for bj in d["bodies"]:
            k = bj["id"]["key"]
            if k in perm:
                p = perm[k]
                n = len(p)
                # current local (1 + p[i]) becomes local (1 + i)
                lm = {1 + p[i]: 1 + i for i in range(n)}

                def walk(x):
                    if isinstance(x, dict):
                        if "l" in x and isinstance(x["l"], int) and x["l"] in lm:
                            x["l"] = lm[x["l"]]
                        if "ix" in x and isinstance(x["ix"], int) and x["ix"] in lm:
                            x["ix"] = lm[x["ix"]]
                        for v in x.values():
                            walk(v)
                    elif isinstance(x, list):
                        for v in x:
                            walk(v)
                walk(bj["blocks"])
                walk(bj.get("vars", []))
                ls = bj["locals"]
                bj["locals"] = [ls[0]] + [ls[1 + p[i]] for i in range(n)] + ls[1 + n:]
                if log is not None:
                    log.append(("params", k, "order %s" % p))
            for blk in bj["blocks"]:
                t = blk["term"]
                if t["t"] == "call":
                    ck = _term_key(t)
                    if ck in perm and len(t["args"]) == len(perm[ck]):
                        t["args"] = [t["args"][j] for j in perm[ck]]


def normalise_renames(data, known, kfields, log=None):
    """Resolve unambiguous renames back to the names the rules know: a function of the reference tree that is missing while
    exactly one unknown function with the same parent path and the same signature exists (and vice versa) is that function
    under a new name; likewise a field whose name changed while index and type stayed. Anything ambiguous is left alone and
    the rules that need the old name fail closed (ANCHOR-MISSING)."""
    if not known:
        return
    present = {}
    for c, d in data.items():
        for bj in d["bodies"]:
            present[bj["id"]["key"]] = bj
    plain = lambda k: "{closure" not in k
    missing = [k for k in known if k not in present and plain(k)]
    new = [k for k in present if k not in known and plain(k)]
    par = lambda k: k.rsplit("::", 1)[0]
    alias = {}
    for k in missing:
        cand = [n for n in new if par(n) == par(k) and signature(present[n]) == known[k]]
        if len(cand) == 1:
            back = [k2 for k2 in missing if par(k2) == par(cand[0]) and known[k2] == known[k]]
            if len(back) == 1:
                alias[cand[0]] = k
    # second pass: a function that moved between a free function and a method (or to another impl) keeps its signature; accept
    # the match only if the signature is not trivial and unique on both sides within the crate
    left_missing = [k for k in missing if k not in alias.values()]
    left_new = [n for n in new if n not in alias]
    crate = lambda k: k.lstrip("<").split("::", 1)[0]
    for k in left_missing:
        sig = known[k]
        if sig.startswith("() ->") or sig.count(",") + (0 if sig.startswith("()") else 1) < 1:
            continue
        cand = [n for n in left_new if crate(n) == crate(k) and signature(present[n]) == sig]
        back = [k2 for k2 in left_missing if crate(k2) == crate(k) and known[k2] == sig]
        if len(cand) == 1 and len(back) == 1:
            alias[cand[0]] = k
    # third pass: a private helper whose signature was changed (a `&mut self` method turned into a free function over the fields it
    # uses, or the reverse) keeps its NAME: a missing reference function and exactly one unknown function of the same crate with
    # the same last path segment are the same helper. The rules then look at its new body under the name they know.
    left_missing = [k for k in missing if k not in alias.values()]
    left_new = [n for n in new if n not in alias]
    last = lambda k: k.rsplit("::", 1)[-1]
    for k in left_missing:
        cand = [n for n in left_new if crate(n) == crate(k) and last(n) == last(k)]
        back = [k2 for k2 in left_missing if crate(k2) == crate(k) and last(k2) == last(k)]
        if len(cand) == 1 and len(back) == 1 and not last(k).startswith(("new", "from", "into", "default", "fmt", "clone", "drop")):
            alias[cand[0]] = k
    # parameters of a known function given in another order (all parameter types distinct): locals and call arguments are permuted back
    perm = {}
    for k, bj in present.items():
        if k in known and plain(k) and signature(bj) != known[k]:
            ref = known[k]
            ref_args = _split_sig(ref)
            cur_args = [l["ty"] for l in bj["locals"][1:bj["arg_count"] + 1]]
            if ref_args is not None and sorted(ref_args[0]) == sorted(cur_args) and len(set(cur_args)) == len(cur_args) and ref_args[1] == bj["locals"][0]["ty"]:
                perm[k] = [cur_args.index(t) for t in ref_args[0]]      # reference position i <- current position perm[i]
    if perm:
        _apply_param_perm(data, perm, log)
    # fields: same adt / variant / index / type, different name
    falias = {}     # (index, new name) -> old name
    for c, d in data.items():
        for a in d["adts"]:
            for v in a["variants"]:
                names = {f["name"] for f in v["fields"]}
                for i, f in enumerate(v["fields"]):
                    kf = kfields.get((a["adt"], v["name"], i))
                    if kf and kf[0] != f["name"] and kf[1] == f["ty"] and kf[0] not in names and len(v["fields"]) == len([1 for kk in kfields if kk[:2] == (a["adt"], v["name"])]):
                        falias[(i, f["name"])] = kf[0]
                        if log is not None:
                            log.append(("field", "%s.%s" % (a["adt"], f["name"]), kf[0]))
                        f["name"] = kf[0]
    if not alias and not falias:
        return
    if log is not None:
        log.extend(("fn", n, k) for n, k in alias.items())

    def ren(s):
        if s in alias:
            return alias[s]
        for n, k in alias.items():
            if s.startswith(n + "::"):
                return k + s[len(n):]
        return s

    def walk(x):
        if isinstance(x, dict):
            for kk, v in list(x.items()):
                if kk in ("key", "parent", "def", "owner") and isinstance(v, str):
                    nv = ren(v)
                    if nv != v:
                        x[kk] = nv
                        if kk == "key" and "name" in x and isinstance(x["name"], str) and "{closure" not in nv:
                            x["name"] = nv.rsplit("::", 1)[-1]
                elif kk == "items" and isinstance(v, list):
                    x[kk] = [ren(s) if isinstance(s, str) else s for s in v]
                elif kk == "fields" and isinstance(v, list) and falias:
                    x[kk] = [falias.get((i, s), s) if isinstance(s, str) else s for i, s in enumerate(v)]
                    for s in v:
                        walk(s)
                else:
                    walk(v)
            if falias and "f" in x and "n" in x and (x["f"], x["n"]) in falias:
                x["n"] = falias[(x["f"], x["n"])]
        elif isinstance(x, list):
            for v in x:
                walk(v)
    walk(data)


def _term_key(t):
    if t.get("resolved"):
        return t["resolved"]["key"]
    return t["callee"]["key"] if t.get("callee") else None


def _remap(j, nl, nb, file):
    """Deep copy of a block list of a callee with locals shifted by nl and block ids by nb."""
    def walk(x):
        if isinstance(x, dict):
            y = {k: walk(v) for k, v in x.items()}
            if "l" in y and isinstance(y["l"], int):
                y["l"] += nl
            if "ix" in y and isinstance(y["ix"], int):
                y["ix"] += nl
            return y
        if isinstance(x, list):
            return [walk(v) for v in x]
        return x
    out = []
    for blk in j:
        nbk = walk(blk)
        for s in nbk["stmts"]:
            s.setdefault("file", file)
        t = nbk["term"]
        t.setdefault("file", file)
        for k in ("target", "otherwise", "resume", "drop"):
            if isinstance(t.get(k), int) and t[k] >= 0:
                t[k] += nb
        if t.get("targets"):
            t["targets"] = [[v, b + nb] for v, b in t["targets"]]
        out.append(nbk)
    return out


def body_hash(bj):
    """Content hash of a body that does not depend on where it stands in the file or on its own name."""
    import hashlib
    import json as _json

    def strip(x):
        if isinstance(x, dict):
            return {k: strip(v) for k, v in x.items() if k not in ("ln", "col", "file", "mac", "line", "hi_line", "id", "parent", "vars", "reach", "pub")}
        if isinstance(x, list):
            return [strip(v) for v in x]
        return x
    s = _json.dumps(strip(bj), sort_keys=True)
    s = re.sub(r"@[^ {}]*:\d+:\d+: \d+:\d+", "@", s)
    s = s.replace(bj["id"]["key"], "<self>")
    return hashlib.sha1(s.encode()).hexdigest()[:16]


def _known_closures(config):
    p = os.path.join(_TABLES, "known_closures.txt")
    out = {}
    if os.path.exists(p) and config:
        for ln in open(p).read().split("\n"):
            x = ln.split("\t")
            if len(x) == 3 and x[0] == config:
                out[x[1]] = x[2]
    return out


def normalise_closures(data, kclos, log=None, known=None):
    """Closures are numbered in source order, so adding or removing one renumbers its siblings. Within each parent function
    the closures of the analysed tree are matched to those of the reference tree by content: a match takes the reference key,
    a closure without a match gets a key no rule can know (`{closure#new<N>}`) - it is then treated like any unknown helper."""
    if not kclos:
        return
    cre = re.compile(r"^(.*)::\{closure#(\d+)\}$")
    ren = {}
    for c, d in data.items():
        by_parent = {}
        for bj in d["bodies"]:
            mm = cre.match(bj["id"]["key"])
            if mm:
                by_parent.setdefault(mm.group(1), []).append(bj)
        for parent, bodies in by_parent.items():
            ref = {k: h for k, h in kclos.items() if cre.match(k) and cre.match(k).group(1) == parent}
            if not ref:
                continue
            cur = {bj["id"]["key"]: body_hash(bj) for bj in bodies}
            if len(cur) == len(ref) or all(ref.get(k) == h for k, h in cur.items()):
                continue            # same number of closures: nothing was renumbered (a closure whose content changed keeps its key)
            byh = {}
            for k, h in ref.items():
                byh.setdefault(h, []).append(k)
            used, plan = set(), {}
            for k in sorted(cur, key=lambda s: int(cre.match(s).group(2))):
                cand = sorted(r for r in byh.get(cur[k], []) if r not in used)
                if cand:
                    plan[k] = cand[0]
                    used.add(cand[0])
            left_cur = [k for k in cur if k not in plan]
            left_ref = [k for k in ref if k not in used]
            if left_ref and known:
                # a closure that moved, together with the code around it, into a new helper the parent calls (an `async move {..}` block
                # extracted into a private function): found by content among the closures of unknown functions called from the parent
                pb = [bj for bj in d["bodies"] if bj["id"]["key"] == parent]
                callees = {blk["term"]["callee"].get("key") for bj in pb for blk in bj["blocks"] if blk["term"].get("t") == "call" and blk["term"].get("callee")}
                moved = {}
                for r in list(left_ref):
                    cand = [bj["id"]["key"] for bj in d["bodies"] if cre.match(bj["id"]["key"]) and cre.match(bj["id"]["key"]).group(1) in callees and
                            cre.match(bj["id"]["key"]).group(1) not in known and body_hash(bj) == ref[r] and bj["id"]["key"] not in moved]
                    if len(cand) == 1:
                        moved[cand[0]] = r
                if len(moved) == len(left_ref):
                    plan.update(moved)
                    left_ref = []
            if left_ref:
                continue            # a reference closure changed AND the numbering moved: ambiguous, leave the keys alone
            fresh = 0
            for k in sorted(left_cur):
                plan[k] = "%s::{closure#new%d}" % (parent, fresh)
                fresh += 1
            for k, tgt in plan.items():
                if tgt != k:
                    ren[k] = tgt
    if not ren:
        return
    if log is not None:
        log.extend(("closure", k, v) for k, v in sorted(ren.items()))
    keys = sorted(ren, key=len, reverse=True)

    def r1(s):
        if s in ren:
            return ren[s]
        for k in keys:
            if s.startswith(k + "::"):
                return ren[k] + s[len(k):]
        return s

    def walk(x):
        if isinstance(x, dict):
            for kk, v in list(x.items()):
                if kk in ("key", "parent", "def", "owner", "path") and isinstance(v, str):
                    x[kk] = r1(v)
                else:
                    walk(v)
        elif isinstance(x, list):
            for v in x:
                walk(v)
    walk(data)


_OPT, _RES, _POLL = "core::option::Option", "core::result::Result", "core::task::poll::Poll"
_VIDX = {(_OPT, "None"): 0, (_OPT, "Some"): 1, (_RES, "Ok"): 0, (_RES, "Err"): 1, (_POLL, "Ready"): 0, (_POLL, "Pending"): 1}
# adapter -> (receiver adt, variant on which the closure runs, closure takes the payload?, index of the closure argument,
#             what becomes of the closure's result, what the other variant gives)
_ADAPTERS = {
    (_OPT, "is_some_and"): ("Some", True, 1, "ret", "const:false"), (_OPT, "is_none_or"): ("Some", True, 1, "ret", "const:true"),
    (_RES, "is_ok_and"): ("Ok", True, 1, "ret", "const:false"), (_RES, "is_err_and"): ("Err", True, 1, "ret", "const:false"),
    (_OPT, "map"): ("Some", True, 1, "wrap:Some", "none"), (_RES, "map"): ("Ok", True, 1, "wrap:Ok", "same"),
    (_RES, "map_err"): ("Err", True, 1, "wrap:Err", "same"),
    (_OPT, "and_then"): ("Some", True, 1, "ret", "none"), (_RES, "and_then"): ("Ok", True, 1, "ret", "same"),
    (_OPT, "map_or"): ("Some", True, 2, "ret", "arg1"), (_RES, "map_or"): ("Ok", True, 2, "ret", "arg1"),
    (_OPT, "unwrap_or_else"): ("None", False, 1, "ret", "payload:Some"), (_RES, "unwrap_or_else"): ("Err", True, 1, "ret", "payload:Ok"),
    (_OPT, "ok_or_else"): ("None", False, 1, "wrap:Err", "okpayload"),
    (_OPT, "or_else"): ("None", False, 1, "ret", "same"), (_RES, "or_else"): ("Err", True, 1, "ret", "same"),
    (_POLL, "map"): ("Ready", True, 1, "wrap:Ready", "same"),
}


def _adapter_of(t):
    c = t.get("callee") or {}
    k, n = c.get("key") or "", c.get("name")
    for adt in (_OPT, _RES, _POLL):
        if k.startswith(adt + "::") or k.startswith(adt + "<"):
            if k.startswith(_POLL + "<") and "Result" in k:
                return None                  # Poll<Result<..>>::map_ok / map_err: two levels, left to the library model
            return (adt, n) if (adt, n) in _ADAPTERS else None
    return None


def desugar_adapters(data, known, log=None):
    """`x.is_some_and(|v| ..)`, `x.map_or(d, |v| ..)`, `r.map_err(|e| ..)`, `o.unwrap_or_else(|| ..)` ... with a closure the rule
    vocabulary does not know are rewritten into what they mean - a switch on the receiver's variant and a direct call of the closure
    on the payload - so that the closure's code is then expanded in place like any unknown helper (inline_new_helpers) and every
    analysis sees the explicit `match` the combinator stands for. Closures of the reference tree keep the library model."""
    expanded = set()
    if not known:
        return expanded
    for c, d in data.items():
        bodies = {bj["id"]["key"]: bj for bj in d["bodies"]}
        for bj in d["bodies"]:
            # single-definition closure locals of this body
            cdef = {}
            for blk in bj["blocks"]:
                for s in blk["stmts"]:
                    v = s.get("v") or {}
                    if s.get("s") == "assign" and v.get("rv") == "aggregate" and v.get("agg") == "closure" and not s["p"].get("pr"):
                        cdef.setdefault(s["p"]["l"], []).append(v.get("def"))
            i = 0
            while i < len(bj["blocks"]) and len(bj["blocks"]) < 4000:
                t = bj["blocks"][i]["term"]
                i += 1
                if t["t"] != "call":
                    continue
                ad = _adapter_of(t)
                if not ad:
                    continue
                variant, with_payload, ci, mode, other = _ADAPTERS[ad]
                args = t["args"]
                if len(args) <= ci or args[ci].get("k") not in ("move", "copy") or args[ci]["p"].get("pr"):
                    continue
                ckeys = cdef.get(args[ci]["p"]["l"], [])
                if len(ckeys) != 1 or ckeys[0] in known or ckeys[0] not in bodies:
                    continue
                cb = bodies[ckeys[0]]
                if cb["coroutine"] or cb["arg_count"] != (2 if with_payload else 1) or args[0].get("k") not in ("move", "copy"):
                    continue
                adt = ad[0]
                x = args[0]["p"]
                pos = {kk: t[kk] for kk in ("ln", "col", "file") if kk in t}
                tgt = t.get("target")
                if not isinstance(tgt, int) or tgt < 0:
                    continue
                nl = len(bj["locals"])
                bj["locals"] = bj["locals"] + [{"ty": "isize"}, {"ty": "?"}]
                dl, rl = nl, nl + 1
                nb = len(bj["blocks"])
                b_run, b_other, b_wrap = nb, nb + 1, nb + 2

                def payload(vname):
                    return {"l": x["l"], "pr": list(x.get("pr", [])) + [{"v": _VIDX[(adt, vname)], "n": vname}, {"f": 0, "n": "0"}]}

                def assign(place, rv):
                    return dict({"s": "assign", "p": place, "v": rv}, **pos)

                def agg(a, vname, ops):
                    return {"rv": "aggregate", "agg": "adt", "adt": a, "variant": vname, "vidx": _VIDX[(a, vname)], "fields": ["0"][:len(ops)], "ops": ops}
                blk = bj["blocks"][i - 1]
                blk["stmts"].append(assign({"l": dl}, {"rv": "discr", "p": x}))
                blk["term"] = dict({"t": "switch", "op": {"k": "move", "p": {"l": dl}}, "targets": [[str(_VIDX[(adt, variant)]), b_run]], "otherwise": b_other}, **pos)
                cargs = [args[ci]] + ([{"k": "move", "p": payload(variant)}] if with_payload else [])
                run = {"cleanup": False, "stmts": [], "term": dict({"t": "call", "callee": {"path": ckeys[0], "key": ckeys[0], "name": ckeys[0].rsplit("::", 2)[-2] if "::" in ckeys[0] else ckeys[0],
                                                                                                "self_ty": None, "self_adt": None, "trait": None, "trait_args": [], "krate": c},
                                                                       "gargs": "[]", "resolved_same": True, "args": cargs, "dest": {"l": rl}, "target": b_wrap}, **pos)}
                if mode == "ret":
                    wrap_st = [assign(t["dest"], {"rv": "use", "op": {"k": "move", "p": {"l": rl}}})]
                else:
                    wv = mode.split(":")[1]
                    inner = {"k": "move", "p": {"l": rl}}
                    if adt == _OPT and wv == "Err":           # ok_or_else: Option -> Result
                        wrap_st = [assign(t["dest"], agg(_RES, "Err", [inner]))]
                    else:
                        wrap_st = [assign(t["dest"], agg(adt, wv, [inner]))]
                wrap = {"cleanup": False, "stmts": wrap_st, "term": dict({"t": "goto", "target": tgt}, **pos)}
                if other.startswith("const:"):
                    ost = [assign(t["dest"], {"rv": "use", "op": {"k": "const", "ty": "bool", "int": "1" if other.endswith("true") else "0", "size": 1, "s": other[6:]}})]
                elif other == "same":
                    ost = [assign(t["dest"], {"rv": "use", "op": {"k": "move", "p": x}})]
                elif other == "none":
                    ost = [assign(t["dest"], dict(agg(_OPT, "None", []), fields=[]))]
                elif other == "arg1":
                    ost = [assign(t["dest"], {"rv": "use", "op": args[1]})]
                elif other.startswith("payload:"):
                    ost = [assign(t["dest"], {"rv": "use", "op": {"k": "move", "p": payload(other.split(":")[1])}})]
                elif other == "okpayload":
                    ost = [assign(t["dest"], agg(_RES, "Ok", [{"k": "move", "p": payload("Some")}]))]
                else:
                    continue
                oth = {"cleanup": False, "stmts": ost, "term": dict({"t": "goto", "target": tgt}, **pos)}
                bj["blocks"] += [run, oth, wrap]
                expanded.add(ckeys[0])
                if log is not None:
                    log.append((bj["id"]["key"], "%s::%s(%s)" % (adt.rsplit("::", 1)[-1], ad[1], ckeys[0].rsplit("::", 1)[-1])))
    return expanded


def inline_new_helpers(data, known, log=None, closures=()):
    """MIR-level inlining of helpers the rule vocabulary (tables/known_functions.txt) does not contain: the rules were written
    against the functions of the reference tree, so code moved into a NEW private helper is analysed where it is called, by
    every engine alike (paths, flow, panic sites, wake-ups). The helper's own body is dropped when every call was expanded."""
    if not known:
        return
    for c, d in data.items():
        by_key = {}
        for bj in d["bodies"]:
            by_key.setdefault(bj["id"]["key"], []).append(bj)
        new = {k for k, v in by_key.items() if k not in known and ("{closure" not in k or k in closures) and len(v) == 1 and not v[0]["coroutine"]}
        if not new:
            continue
        left = set()
        for rnd in range(3):
            again = False
            for bj in d["bodies"]:
                i = 0
                while i < len(bj["blocks"]):
                    t = bj["blocks"][i]["term"]
                    k = _term_key(t) if t["t"] == "call" else None
                    if k in new and k != bj["id"]["key"] and by_key[k][0]["arg_count"] == len(t["args"]) and len(bj["blocks"]) < 4000:
                        g = by_key[k][0]
                        nl, nb = len(bj["locals"]), len(bj["blocks"])
                        bj["locals"] = bj["locals"] + [dict(x, user=False) for x in g["locals"]]
                        blocks = _remap(g["blocks"], nl, nb, g["file"])
                        pos = {kk: t[kk] for kk in ("ln", "col") if kk in t}
                        for nbk in blocks:
                            if nbk["term"]["t"] == "return":
                                nbk["stmts"].append(dict({"s": "assign", "p": t["dest"], "v": {"rv": "use", "op": {"k": "move", "p": {"l": nl}}}}, **pos))
                                tgt = t.get("target")
                                nbk["term"] = dict({"t": "goto", "target": tgt}, **pos) if isinstance(tgt, int) and tgt >= 0 else dict({"t": "unreachable"}, **pos)
                        blk = bj["blocks"][i]
                        for n, a in enumerate(t["args"]):
                            blk["stmts"].append(dict({"s": "assign", "p": {"l": nl + n + 1}, "v": {"rv": "use", "op": a}}, **pos))
                        blk["term"] = dict({"t": "goto", "target": nb}, **pos)
                        bj["blocks"] += blocks
                        bj.setdefault("inlined", []).append(k)
                        again = True
                        if log is not None:
                            log.append((bj["id"]["key"], k))
                    elif k in new:
                        left.add(k)
                    i += 1
            if not again:
                break
        # drop helper bodies whose every call site was expanded (closures of other bodies may still call them: keep those)
        still = set()
        for bj in d["bodies"]:
            for blk in bj["blocks"]:
                t = blk["term"]
                if t["t"] == "call" and _term_key(t) in new and bj["id"]["key"] not in new:
                    still.add(_term_key(t))
        called = {k for k, _ in [(kk, 0) for kk in new] if any(k in (bj.get("inlined") or []) for bj in d["bodies"])}
        d["bodies"] = [bj for bj in d["bodies"] if not (bj["id"]["key"] in called and bj["id"]["key"] not in still and not bj["pub"])]


class Program:
    def __init__(self, data, info=None):
        self.info = info or {}
        self.crates = data
        self.inlined = []
        self.renamed = []
        cfg = self.info.get("config")
        normalise_consts(data, _known_consts(), self.renamed)
        normalise_closures(data, _known_closures(cfg), self.renamed, set(_known_functions(None)))
        normalise_renames(data, _known_functions(cfg) if cfg else {}, _known_fields(), self.renamed)
        # function aliases are also needed where a callee name is computed (Into -> From in engine/flow.py)
        from . import flow as _flow
        _flow.ALIAS.update({new: old for kind, new, old in self.renamed if kind == "fn"})
        allk = set(_known_functions(None))
        self.desugared = []
        clos = desugar_adapters(data, allk, self.desugared)
        inline_new_helpers(data, allk, self.inlined, clos)
        self.bodies = []
        self.by_key = defaultdict(list)
        self.adts = {}
        self.consts = {}
        self.matches = defaultdict(list)
        self.impls = []
        for c, d in data.items():
            for bj in d["bodies"]:
                b = Body(bj, c)
                self.bodies.append(b)
                self.by_key[b.key].append(b)
            for a in d["adts"]:
                self.adts[a["adt"]] = a
            for k in d["consts"]:
                if k.get("int") is not None:
                    self.consts[k["key"]] = int(k["int"])
            for m in d["matches"]:
                self.matches[m["owner"]].append(m)
            for i in d["impls"]:
                i["crate"] = c
                self.impls.append(i)

    def stats(self):
        return {
            "crates": sorted(self.crates),
            "bodies": len(self.bodies),
            "blocks": sum(len(b.j["blocks"]) for b in self.bodies),
            "adts": len(self.adts),
            "consts": len(self.consts),
            "hir_match_tables": sum(len(v) for v in self.matches.values()),
            "impls": len(self.impls),
        }

    def find(self, pattern=None, *, self_adt=None, name=None, trait=None, closure=None, key=None):
        """Bodies whose key matches. `pattern` is a regex searched in the key."""
        out = []
        for b in self.bodies:
            if key is not None and b.key != key:
                continue
            if pattern is not None and not re.search(pattern, b.key):
                continue
            if self_adt is not None and b.self_adt != self_adt:
                continue
            if name is not None and b.name != name:
                continue
            if trait is not None and (b.trait or "") != trait:
                continue
            if closure is not None and (("{closure" in b.key) != closure):
                continue
            out.append(b)
        return out

    def one(self, key):
        bs = self.by_key.get(key, [])
        if len(bs) == 1:
            return bs[0]
        return None

    def closures_of(self, body):
        return [b for b in self.bodies if b.parent == body.key]

    def descendants(self, body):
        out = []
        for c in self.closures_of(body):
            out.append(c)
            out.extend(self.descendants(c))
        return out

    def const(self, key):
        return self.consts.get(key)

    def callers_of(self, *names):
        """All (body, bb, term) calling a callee whose key ends with one of names."""
        for b in self.bodies:
            for bb, t in b.calls(*names):
                yield b, bb, t
