"""A3: variant-constrained path exploration over the MIR CFG.

Enumerates the acyclic-ish paths of one body (each block at most `max_visits` times per
path, unwind edges excluded), keeping a constraint store (enum place -> allowed variants,
boolean expression -> value) so that nested pattern tests and repeated guard reads stay
consistent, and a path-local environment of structural values so that the shape of the
value returned on each path (`Poll::Ready(Err(..))`, `Pending`, ...) and the arguments of
marker calls are known. Nothing is executed and no solver is involved: values are
syntactic terms, branches are pruned only by variant/boolean/constant facts."""
from .mir import Place, Operand
from . import flow

STD_ENUMS = {
    "core::option::Option": {"None": 0, "Some": 1},
    "core::result::Result": {"Ok": 0, "Err": 1},
    "core::task::poll::Poll": {"Ready": 0, "Pending": 1},
    "core::ops::control_flow::ControlFlow": {"Continue": 0, "Break": 1},
    "core::cmp::Ordering": {"Less": -1, "Equal": 0, "Greater": 1},
}

BRANCH = "core::ops::try_trait::Try>::branch"

# Appendix A library model: adapter -> (how the result's top-level variant relates to the input's,
# the input variant on which the closure argument runs). Variant indices: Option None=0 Some=1,
# Result Ok=0 Err=1, Poll Ready=0 Pending=1.
ADAPTERS = {
    "core::result::Result::map_err": ("same", 1),
    "core::result::Result::map": ("same", 0),
    "core::result::Result::or_else": (None, 1),
    "core::result::Result::and_then": (None, 0),
    "core::result::Result::unwrap_or_else": (None, 1),
    "core::option::Option::map": ("same", 1),
    "core::option::Option::and_then": (None, 1),
    "core::option::Option::ok_or_else": ("opt2res", 0),
    "core::option::Option::ok_or": ("opt2res", None),
    "core::option::Option::unwrap_or_else": (None, 0),
    "core::option::Option::filter": (None, 1),
    "core::task::poll::Poll::map_err": ("same", "ready"),
    "core::task::poll::Poll::map_ok": ("same", "ready"),
    "core::task::poll::Poll::map": ("same", 0),
    "core::result::Result::ok": ("res2opt", None),
    "core::result::Result::err": ("res2opt_err", None),
}
_REL = {
    "same": lambda s: s,
    "opt2res": lambda s: {1 - x for x in s},        # Some(1)->Ok(0), None(0)->Err(1)
    "res2opt": lambda s: {1 - x for x in s},        # Ok(0)->Some(1), Err(1)->None(0)
    "res2opt_err": lambda s: set(s),                # Ok(0)->None(0), Err(1)->Some(1)
}
FROM_RESIDUAL = ">::from_residual"


class PathExplosion(Exception):
    pass


def vfmt(v, d=0):
    if d > 7:
        return "..."
    k = v[0]
    if k == "param":
        return "param_%d%s" % (v[1], "".join(v[2]))
    if k == "local":
        return "_%d%s" % (v[1], "".join(v[2]) if len(v) > 2 else "")
    if k == "const":
        return "%s" % (v[1],)
    if k == "fn":
        return "fn:%s" % v[1]
    if k == "agg":
        nm = v[2] if v[2] else v[1]
        return "%s(%s)" % (nm, ", ".join(vfmt(x, d + 1) for x in v[3]))
    if k == "call":
        return "%s@bb%d(%s)" % (short(v[1]), v[3], ", ".join(vfmt(x, d + 1) for x in v[2]))
    if k == "proj":
        return "%s%s" % (vfmt(v[1], d + 1), "".join(v[2]))
    if k == "binop":
        return "%s(%s, %s)" % (v[1], vfmt(v[2], d + 1), vfmt(v[3], d + 1))
    if k == "unop":
        return "%s(%s)" % (v[1], vfmt(v[2], d + 1))
    if k == "cast":
        return "(%s as %s)" % (vfmt(v[1], d + 1), v[2])
    if k == "discr":
        return "discr(%s)" % vfmt(v[1], d + 1)
    if k in ("okval", "residual", "errconv"):
        return "%s(%s)" % (k, vfmt(v[1], d + 1))
    if k == "closure":
        return "closure:%s" % v[1]
    return str(v)


def short(key):
    """Compact callee name for shapes: last path segment(s)."""
    if key is None:
        return "?"
    k = key
    if k.startswith("<") and ">::" in k:
        head, name = k.rsplit(">::", 1)
        return name
    return k.rsplit("::", 1)[-1]


def head_call(v):
    """(callee key, projection names) of the call a tested value was derived from, looking
    through discr / field projections / `?` payloads; (None, ()) if it is not call-rooted."""
    names = ()
    while True:
        k = v[0]
        if k == "discr":
            v = v[1]
        elif k == "proj":
            names = tuple(v[2]) + names
            v = v[1]
        elif k == "okval":
            names = ("?",) + names
            v = v[1]
        elif k in ("residual", "errconv"):
            names = ("?err",) + names
            v = v[1]
        elif k == "call":
            return v[1], names
        else:
            return None, names


ADAPTER_NAMES = ("branch", "map_err", "ok_or_else", "ok_or", "map", "into", "from", "from_residual", "as_ref", "as_mut", "ok", "err")


def source_call(v):
    """(callee key, opt2res?) of the fallible call a tested value was derived from, looking through discr, payload projections
    (`<Ok>.0`, `?` payloads) and the result adapters (`.map_err(f)`, `.ok_or_else(f)`, Try::branch): the call whose outcome -
    or whose outcome's payload - the test decides. opt2res? is True when the tested level itself went through ok_or / ok_or_else
    (the test's Ok/Err then stand for the Option's Some/None). A test on any other field of the result gives (None, False)."""
    flip = False
    payload = False
    while True:
        k = v[0]
        if k == "discr":
            v = v[1]
        elif k == "proj":
            if any(not (n.startswith("<") and n.endswith(">")) and n not in (".0", "0") for n in v[2]):
                return None, False
            payload = True
            v = v[1]
        elif k in ("okval", "residual", "errconv"):
            payload = True
            v = v[1]
        elif k == "call" and short(v[1]) in ADAPTER_NAMES and v[1].startswith(("core::", "<core::", "<T as core::", "<U as core::")) and v[2]:
            if short(v[1]) in ("ok_or_else", "ok_or") and not payload:
                flip = True
            v = v[2][0]
        elif k == "call":
            return v[1], flip
        else:
            return None, False


def _adapter_on_known(ck, argv):
    """Result of a std Option/Result adapter when its receiver is an aggregate of the variant the adapter leaves alone."""
    if not argv or argv[0][0] != "agg" or not ck.startswith(("core::option::Option::", "core::result::Result::")):
        return None
    x, var, n = argv[0], argv[0][2], short(ck)
    pay = x[3][0] if x[3] else None
    if n == "map_err" and var == "Ok":
        return x
    if n in ("map", "and_then") and var in ("Err", "None"):
        return x
    if n in ("unwrap_or", "unwrap_or_else", "unwrap_or_default", "unwrap", "expect", "unwrap_unchecked") and var in ("Some", "Ok") and pay is not None:
        return pay
    if n == "unwrap_or" and var == "None" and len(argv) > 1:
        return argv[1]
    if n == "ok_or" and len(argv) > 1:
        if var == "Some" and pay is not None:
            return ("agg", "core::result::Result", "Ok", (pay,))
        if var == "None":
            return ("agg", "core::result::Result", "Err", (argv[1],))
    if n == "ok_or_else" and var == "Some" and pay is not None:
        return ("agg", "core::result::Result", "Ok", (pay,))
    if n in ("or", "or_else") and var in ("Some", "Ok"):
        return x
    return None


def mentions_local(v):
    return any(x[0] in ("local", "unknown") for x in subvalues(v))


def subvalues(v):
    yield v
    k = v[0]
    if k == "agg":
        for x in v[3]:
            yield from subvalues(x)
    elif k == "call":
        for x in v[2]:
            yield from subvalues(x)
    elif k in ("proj", "discr", "okval", "residual", "errconv", "cast"):
        yield from subvalues(v[1])
    elif k == "binop":
        yield from subvalues(v[2])
        yield from subvalues(v[3])
    elif k == "unop":
        yield from subvalues(v[2])


class Path:
    __slots__ = ("body", "blocks", "labels", "events", "env", "cons", "end", "ret", "tests")

    def __init__(self, body):
        self.body = body
        self.blocks = []
        self.labels = []
        self.events = []   # (kind, bb, data...)
        self.env = {}
        self.cons = {}
        self.end = None
        self.ret = None
        self.tests = []   # (bb, tested value as text, edge label, value) for every branch decided on the path

    def tested(self, substr, label=None):
        """Branch decisions on this path whose tested value mentions substr."""
        return [t for t in self.tests if substr in t[1] and (label is None or t[2] == label)]

    def variant_tests(self, *callee_suffixes):
        """[(projection names, edge label, test)] of the enum tests on values returned by a call
        to one of the callees (matched by key suffix)."""
        out = []
        for t in self.tests:
            if t[3][0] != "discr":
                continue
            ck, names = head_call(t[3])
            if ck and any(ck == s or ck.endswith(s) for s in callee_suffixes):
                out.append((names, t[2], t))
        return out

    def outcomes(self, *callee_suffixes):
        """Normalised chain of decisions (Ok/Err/Some/None/Ready/Pending/<payload variant>..) this path made about the result of
        a call to one of the callees and its payloads, whether it was taken apart by `?` (Continue/Break), through
        `.map_err(..)` / `.ok_or_else(..)` or by an explicit match: `match f() { Ok(Some(x)) => .. }` and `match f()? { Some(x) => .. }`
        both give ['Ok', 'Some']."""
        out = []
        for t in self.tests:
            if t[3][0] != "discr":
                continue
            ck, flip = source_call(t[3])
            if not ck or not any(ck == s or ck.endswith(s) for s in callee_suffixes):
                continue
            lab = {"Continue": "Ok", "Break": "Err"}.get(t[2], t[2])
            if flip:
                lab = {"Ok": "Some", "Err": "None"}.get(lab, lab)
            out.append(lab)
        return out

    def calls(self, *names):
        out = []
        for e in self.events:
            if e[0] == "call":
                t = e[2]
                if not names or t.is_call(*names):
                    out.append(e)
                else:
                    nk = flow.into_to_from(t)        # canonical callee name (Into -> From, mem::take on an Option -> Option::take)
                    if nk != t.ckey and any(nk == n or nk.endswith("::" + n) or nk.endswith(n) for n in names):
                        out.append(e)
        return out

    def has_call(self, *names):
        return bool(self.calls(*names))

    def codes(self, *users):
        """Code constants on the path; with users: only those handed to a call/aggregate so named."""
        return {e[2] for e in self.events if e[0] == "code" and (not users or e[3] in users)}

    def code_uses(self):
        return {(e[3], e[2]) for e in self.events if e[0] == "code"}

    def closures(self):
        return [e[2] for e in self.events if e[0] == "closure"]

    def adapter_closures(self):
        """(closure key, 'yes'|'no'|'maybe', bb) for closures handed to Appendix A adapters on this path:
        whether the closure ran is read off the variant the path later established for the input."""
        out = []
        for e in self.events:
            if e[0] != "call":
                continue
            t, argv = e[2], e[3]
            ck = flow.into_to_from(t)
            if ck not in ADAPTERS:
                continue
            cl = [a for a in argv[1:] if a[0] in ("closure", "fn")]     # a named fn handed to an adapter is a closure with a name
            if not cl:
                continue
            trig = ADAPTERS[ck][1]
            status = "maybe"
            known = self.cons.get(vfmt(argv[0]))
            if isinstance(known, frozenset) and trig is not None:
                if trig == "ready":
                    status = "no" if known == frozenset({1}) else "maybe"
                elif known == frozenset({trig}):
                    status = "yes"
                elif trig not in known:
                    status = "no"
            for c in cl:
                out.append((c[1], status, e[1]))
        return out

    def stores(self):
        return [e for e in self.events if e[0] == "store"]

    def ret_shape(self, depth=4):
        if self.ret is None:
            return self.end
        v = self.ret
        if v[0] in ("residual", "errconv"):
            # `Err(e)?` (e.g. an `Err(..)` returned by a helper and propagated) is `return Err(e)`
            inner, e = v[1], None
            if inner[0] == "agg" and inner[2] == "Err":
                e = inner
            elif inner[0] == "agg" and inner[2] == "Ready" and inner[3] and inner[3][0][0] == "agg" and inner[3][0][2] == "Err":
                e = inner[3][0]
            if e is not None:
                s = shape(e, depth)
                return "Ready(%s)" % s if self.body.locals[0]["ty"].startswith("core::task::poll::Poll<") else s
        return shape(v, depth)

    def describe(self, maxlen=60):
        b = self.body
        out = []
        for i, bb in enumerate(self.blocks):
            t = b.blocks[bb].term
            lab = self.labels[i] if i < len(self.labels) else ""
            if t.t in ("switch", "call", "return", "yield", "assert") or i == 0:
                out.append("bb%d [%s] %s%s" % (bb, b.loc(t), str(t)[:160], (" --%s-->" % (lab,)) if lab != "" else ""))
        if len(out) > maxlen:
            out = out[:maxlen // 2] + ["..."] + out[-maxlen // 2:]
        return out


def shape(v, depth=4):
    """Constructor skeleton of a value: Ready(Err(call:convert)), Pending, ..."""
    if v is None:
        return "?"
    k = v[0]
    if depth <= 0:
        return "_"
    if k == "agg":
        if v[1] in STD_ENUMS or v[2] in ("Ready", "Pending", "Ok", "Err", "Some", "None", "Continue", "Break"):
            if not v[3]:
                return v[2]
            return "%s(%s)" % (v[2], ",".join(shape(x, depth - 1) for x in v[3]))
        if v[1] == "tuple":
            if not v[3]:
                return "()"
            return "(%s)" % ",".join(shape(x, depth - 1) for x in v[3])
        return "%s" % (v[2] and ("%s::%s" % (v[1].rsplit("::", 1)[-1], v[2])) or v[1])
    if k == "call":
        return "call:%s" % short(v[1])
    if k == "errconv":
        return "Residual(%s)" % shape(v[1], depth - 1)
    if k == "okval":
        return "okval(%s)" % shape(v[1], depth - 1)
    if k == "residual":
        return "residual(%s)" % shape(v[1], depth - 1)
    if k == "param":
        return "param%s" % "".join(v[2])
    if k == "const":
        return "const:%s" % (v[1],)
    if k == "proj":
        return "%s%s" % (shape(v[1], depth - 1), "".join(v[2]))
    if k == "closure":
        return "closure"
    return k


class Explorer:
    def __init__(self, prog, body, max_paths=30000, max_visits=2, code_prefix="h3::error::codes::Code::",
                 follow_yield_drop=False, depth=0, bb_base=0):
        self.depth = depth          # inlining depth (helpers unknown to the rule vocabulary are explored inline)
        self.bb_base = bb_base      # block ids / locals of an inlined frame are shifted so that they stay distinct
        self.prog = prog
        self.body = body
        self.max_paths = max_paths
        self.max_visits = max_visits
        self.code_prefix = code_prefix
        self.follow_yield_drop = follow_yield_drop
        self.npaths = 0
        self.stop_at = set()

    # ------------------------------------------------------------------ values
    def universe(self, adt):
        if adt in STD_ENUMS:
            return set(STD_ENUMS[adt].values())
        a = self.prog.adts.get(adt)
        if a and a["kind"] == "Enum":
            return {int(v["discr"]) for v in a["variants"]}
        return None

    def variant_index(self, adt, name):
        if adt in STD_ENUMS:
            return STD_ENUMS[adt].get(name)
        a = self.prog.adts.get(adt)
        if a:
            for v in a["variants"]:
                if v["name"] == name:
                    return int(v["discr"]) if v["discr"] is not None else 0
        return None

    def eval_operand(self, env, op):
        if op.k == "const":
            if op.fn is not None:
                return ("fn", op.fn["key"])
            if op.named is not None:
                return ("const", op.named)
            if op.int is not None:
                return ("const", op.signed_int())
            return ("const", op.s)
        if op.place is None:
            return ("unknown", str(op.s))
        return self.eval_place(env, op.place)

    def eval_place(self, env, place):
        l = place.local
        if l in env:
            v = env[l]
        elif 1 <= l <= self.body.arg_count:
            v = ("param", l, ())
        else:
            v = ("local", l + self.bb_base, ())
        pending_variant = None
        for e in place.proj:
            if e == "*":
                continue
            if e[0] == "v":
                if v[0] == "agg" and v[2] == e[2]:
                    pending_variant = None
                    continue
                pending_variant = e[2]
                continue
            if e[0] == "f":
                name = e[2] if e[2] is not None else str(e[1])
                if v[0] == "agg" and pending_variant is None and e[1] < len(v[3]):
                    v = v[3][e[1]]
                    continue
                if v[0] == "closure" and pending_variant is None and len(v) > 2 and e[1] < len(v[2]):
                    v = v[2][e[1]]          # an upvar of a closure whose body was expanded in place: the captured value
                    continue
                if pending_variant is not None:
                    # branch(..) payloads
                    if v[0] == "call" and v[1].endswith(BRANCH):
                        if pending_variant == "Continue":
                            inner = v[2][0]
                            if inner[0] == "agg" and inner[2] in ("Ok", "Some") and inner[3]:
                                v = inner[3][0]       # `Ok(x)?` is x
                            else:
                                v = ("okval", inner)
                            pending_variant = None
                            continue
                        if pending_variant == "Break":
                            v = ("residual", v[2][0])
                            pending_variant = None
                            continue
                    names = ("<%s>" % pending_variant, "." + name)
                    pending_variant = None
                else:
                    names = ("." + name,)
                if v[0] in ("param", "local"):
                    v = (v[0], v[1], v[2] + names)
                elif v[0] == "proj":
                    v = ("proj", v[1], v[2] + names)
                else:
                    v = ("proj", v, names)
                continue
            # indexing: constant indices are distinct places; a variable index is named by its local
            if e[0] == "ci":
                names = ("[%s%d]" % ("-" if e[2] else "", e[1]),)
            elif e[0] == "ix":
                iv = env.get(e[1])
                names = ("[%s]" % (iv[1] if (iv is not None and iv[0] == "const") else "_%d" % e[1]),)
            else:
                names = ("[..]",)
            if v[0] in ("param", "local"):
                v = (v[0], v[1], v[2] + names)
            elif v[0] == "proj":
                v = ("proj", v[1], v[2] + names)
            else:
                v = ("proj", v, names)
        if pending_variant is not None:
            names = ("<%s>" % pending_variant,)
            if v[0] in ("param", "local"):
                v = (v[0], v[1], v[2] + names)
            elif v[0] == "proj":
                v = ("proj", v[1], v[2] + names)
            else:
                v = ("proj", v, names)
        return v

    def eval_rvalue(self, env, rv):
        r = rv.rv
        if r == "use":
            return self.eval_operand(env, rv.ops[0])
        if r in ("ref", "rawptr"):
            return self.eval_place(env, rv.place)
        if r == "discr":
            return ("discr", self.eval_place(env, rv.place))
        if r == "binop":
            return ("binop", rv.op, self.eval_operand(env, rv.ops[0]), self.eval_operand(env, rv.ops[1]))
        if r == "unop":
            return ("unop", rv.op, self.eval_operand(env, rv.ops[0]))
        if r == "cast":
            return ("cast", self.eval_operand(env, rv.ops[0]), rv.ty)
        if r == "repeat":
            return ("agg", "repeat", None, (self.eval_operand(env, rv.ops[0]),))
        if r == "aggregate":
            ops = tuple(self.eval_operand(env, o) for o in rv.ops)
            if rv.agg == "adt":
                return ("agg", rv.adt, rv.variant, ops)
            if rv.agg in ("closure", "coroutine", "coroutine_closure"):
                return ("closure", rv.def_, ops)
            return ("agg", rv.agg, None, ops)
        return ("unknown", str(rv.s))

    # ------------------------------------------------------------------ constraints
    def known_variant(self, v, cons):
        """Set of possible discriminant values of enum value v, or None if unknown."""
        if v[0] == "agg" and v[2] is not None:
            idx = self.variant_index(v[1], v[2])
            if idx is not None:
                return {idx}
        key = vfmt(v)
        if key in cons and isinstance(cons[key], (set, frozenset)):
            return set(cons[key])
        if v[0] == "call" and v[1] in ADAPTERS and ADAPTERS[v[1]][0] and v[2]:
            inner = self.known_variant(v[2][0], cons)
            if inner is not None:
                return _REL[ADAPTERS[v[1]][0]](inner)
        if v[0] == "call" and v[1] == "core::option::Option::take" and v[2]:
            return self.known_variant(v[2][0], cons)        # what take() hands back is what the slot held
        if v[0] == "call" and v[1].endswith(BRANCH):
            if v[2] and v[2][0][0] == "errconv":
                return {1}      # a value built by from_residual (an inner `?` that failed) is an error: Try::branch answers Break
            inner = self.known_variant(v[2][0], cons)
            if inner is not None and len(inner) == 1:
                # Result: Ok(0)->Continue(0), Err(1)->Break(1); Option: Some(1)->Continue(0), None(0)->Break(1)
                if "core::option::Option" in v[1]:
                    return {0} if inner == {1} else {1}
                if "core::result::Result" in v[1]:
                    return set(inner)
        return None

    @staticmethod
    def _bkey(v):
        """Constraint key of a boolean value. A comparison by PartialEq (`a == b` written as a call) has the same answer wherever
        it is asked on the path as long as its operands are the same values: the call site is left out of the key."""
        if v[0] == "call" and short(v[1]) in ("eq", "ne") and len(v[2]) == 2 and ("PartialEq" in v[1] or "core::cmp" in v[1]):
            return "%s(%s, %s)" % (short(v[1]), vfmt(v[2][0]), vfmt(v[2][1]))
        return vfmt(v)

    def bool_value(self, v, cons):
        if v[0] == "const" and isinstance(v[1], int):
            return bool(v[1])
        if v[0] == "const" and v[1] in ("true", "false", "const true", "const false"):
            return v[1].endswith("true")
        if v[0] == "unop" and v[1] == "Not":
            b = self.bool_value(v[2], cons)
            return None if b is None else (not b)
        if v[0] == "call" and v[2]:
            n = short(v[1])
            tests = {"is_some": ("core::option::Option", 1), "is_none": ("core::option::Option", 0),
                     "is_ok": ("core::result::Result", 0), "is_err": ("core::result::Result", 1),
                     "is_ready": ("core::task::poll::Poll", 0), "is_pending": ("core::task::poll::Poll", 1)}
            if n in tests and v[1].startswith("core::"):
                kv = self.known_variant(v[2][0], cons)
                if kv is not None and len(kv) == 1:
                    return kv == {tests[n][1]}
        key = self._bkey(v)
        c = cons.get(key)
        if isinstance(c, bool):
            return c
        if v[0] == "binop":
            from . import expr
            x = expr.fold(v, self.prog.consts)
            if x is not None:
                return bool(x)
        return None

    def assume_bool(self, v, val, cons):
        if v[0] == "unop" and v[1] == "Not":
            return self.assume_bool(v[2], not val, cons)
        if v[0] == "call" and v[2]:
            n = short(v[1])
            tests = {"is_some": 1, "is_none": 0, "is_ok": 0, "is_err": 1, "is_ready": 0, "is_pending": 1}
            if n in tests and v[1].startswith("core::"):
                want = tests[n] if val else 1 - tests[n]
                self.assume_variant(v[2][0], {want}, cons)
        cons[self._bkey(v)] = val

    def assume_variant(self, v, allowed, cons):
        """Record that enum value v has one of the discriminants in `allowed`, and what that
        implies for the value it was derived from (`?` and the Appendix A adapters)."""
        allowed = frozenset(allowed)
        cons[vfmt(v)] = allowed
        if v[0] != "call" or not v[2]:
            return
        if v[1].endswith(BRANCH) and len(allowed) == 1:
            a = next(iter(allowed))
            if "core::option::Option" in v[1]:
                self.assume_variant(v[2][0], {1} if a == 0 else {0}, cons)
            elif "core::result::Result" in v[1]:
                self.assume_variant(v[2][0], {a}, cons)
        elif v[1] in ADAPTERS and ADAPTERS[v[1]][0]:
            rel = ADAPTERS[v[1]][0]
            inv = {"same": lambda s: s, "opt2res": lambda s: {1 - x for x in s},
                   "res2opt": lambda s: {1 - x for x in s}, "res2opt_err": lambda s: set(s)}[rel]
            self.assume_variant(v[2][0], inv(set(allowed)), cons)

    def invalidate(self, cons, root_desc):
        """Drop constraints about values rooted at root_desc (e.g. 'param_1')."""
        for k in [k for k in cons if root_desc in k]:
            del cons[k]

    # ------------------------------------------------------------------ exploration
    def paths(self, start=0, env=None, cons=None, stop_at=()):
        self.npaths = 0
        self.stop_at = set(stop_at)
        out = []
        p = Path(self.body)
        p.env = dict(env or {})
        p.cons = dict(cons or {})
        self._walk(start, p, {}, out)
        return out

    def _fork(self, p):
        q = Path(self.body)
        q.blocks = list(p.blocks)
        q.labels = list(p.labels)
        q.events = list(p.events)
        q.env = dict(p.env)
        q.cons = dict(p.cons)
        q.tests = list(p.tests)
        return q

    def _scan_codes(self, p, bb, vals, user):
        """Record Code constants that are (part of) the values handed to `user`."""
        pre = self.code_prefix
        st = list(vals)
        n = 0
        while st and n < 64:
            v = st.pop()
            n += 1
            if v is None:
                continue
            if v[0] == "const" and isinstance(v[1], str) and v[1].startswith(pre):
                p.events.append(("code", bb, v[1][len(pre):], user))
            elif v[0] == "agg":
                st.extend(v[3])
            elif v[0] == "call" and short(v[1]) in ("value", "into", "from", "new") and v[1].startswith(("h3::error", "<")):
                st.extend(v[2])

    def _walk(self, bb, p, visits, out):
        body = self.body
        while True:
            if bb in self.stop_at and p.blocks:
                p.end = "stop"
                p.blocks.append(bb)
                out.append(p)
                self._count()
                return
            if visits.get(bb, 0) >= self.max_visits:
                p.end = "loop-cut"
                p.blocks.append(bb)
                out.append(p)
                self._count()
                return
            visits = dict(visits)
            visits[bb] = visits.get(bb, 0) + 1
            rb = bb + self.bb_base      # recorded block id (distinct per inlined frame)
            p.blocks.append(rb)
            blk = body.blocks[bb]
            env = p.env
            for s in blk.stmts:
                if s.s == "assign":
                    val = self.eval_rvalue(env, s.rv)
                    if val[0] == "closure":
                        p.events.append(("closure", rb, val[1]))
                    elif val[0] == "agg" and val[2] is not None and val[1] not in STD_ENUMS:
                        self._scan_codes(p, rb, val[3], "agg:%s::%s" % (val[1].rsplit("::", 1)[-1], val[2]))
                    if s.place.is_local():
                        env[s.place.local] = val
                    else:
                        tgt = self.eval_place(env, s.place)
                        p.events.append(("store", rb, s.place, val, tgt, s))
                        self.invalidate(p.cons, vfmt(tgt))
                        base = env.get(s.place.local)
                        if base is not None and base[0] == "agg" and "*" not in s.place.proj:
                            # in-place update of a locally built aggregate: forget its shape
                            env[s.place.local] = ("local", s.place.local + self.bb_base, ())
                elif s.s == "setdiscr":
                    p.events.append(("store", rb, s.place, ("variant", s.vidx), self.eval_place(env, s.place), s))
            t = blk.term
            k = t.t
            if k == "return":
                p.end = "return"
                p.ret = self.eval_place(env, Place({"l": 0}))
                out.append(p)
                self._count()
                return
            if k in ("unreachable", "resume", "other"):
                p.end = "unreachable" if k != "other" else "other"
                if k == "other":
                    out.append(p)
                    self._count()
                return
            if k == "goto":
                p.labels.append("")
                bb = t.target
                continue
            if k == "drop":
                p.events.append(("drop", rb, t.place, self.eval_place(env, t.place)))
                p.labels.append("")
                bb = t.target
                continue
            if k == "assert":
                p.events.append(("assert", rb, t, (self.eval_operand(env, t.a) if t.a is not None else None,
                                                   self.eval_operand(env, t.b) if t.b is not None else None)))
                p.labels.append("")
                bb = t.target
                continue
            if k == "yield":
                p.events.append(("yield", rb, t))
                env[t.resume_arg.local] = ("resume_arg", rb)
                if self.follow_yield_drop and t.drop is not None and t.drop >= 0 and not body.blocks[t.drop].cleanup:
                    q = self._fork(p)
                    q.labels.append("yield_drop")
                    q.end = "cancelled"
                    q.blocks.append(t.drop)
                    out.append(q)
                    self._count()
                p.labels.append("resume")
                bb = t.resume
                continue
            if k == "call":
                argv = tuple(self.eval_operand(env, a) for a in t.args)
                ck = flow.into_to_from(t)
                self._scan_codes(p, rb, argv, short(ck))
                acc = self._accessor(ck, argv)
                simp = _adapter_on_known(ck, argv)
                if flow.is_transparent(t) and argv:
                    val = argv[0]
                elif simp is not None:
                    val = simp          # an adapter applied to a value whose variant is written out: `Ok(x).map_err(f)` is `Ok(x)`
                elif acc is not None:
                    val = acc       # a workspace function that only projects / rewraps its argument (`fn into_inner(self) -> u64 { self.0 }`)
                elif flow.lossless_cast(t) and len(argv) == 1:
                    val = ("cast", argv[0], flow.lossless_cast(t))       # u64::from(x) is `x as u64`
                elif flow.infallible_try_from(t) and len(argv) == 1:
                    val = ("agg", "core::result::Result", "Ok", (("cast", argv[0], flow.infallible_try_from(t)),))     # u64::try_from(usize)
                elif ck.endswith(FROM_RESIDUAL) and argv and argv[0][0] == "residual":
                    val = ("errconv", argv[0][1])
                else:
                    val = ("call", ck, argv, rb)
                kv = None
                if t.cname in ("unwrap", "expect", "unwrap_unchecked") and argv:
                    kv = self.known_variant(argv[0], p.cons)
                p.events.append(("call", rb, t, argv, kv))
                # a call that receives &mut into a param may change its fields
                if not flow.is_transparent(t):
                    for a, av in zip(t.args, argv):
                        if a.place is not None and av[0] == "param":
                            ty = body.local_ty(a.place.local) if a.place.is_local() else (a.place.ty or "")
                            if ty.startswith("&mut") or "Pin<&mut" in ty:
                                self.invalidate(p.cons, vfmt(("param", av[1], ())))
                if t.dest.is_local():
                    env[t.dest.local] = val
                else:
                    p.events.append(("store", rb, t.dest, val, self.eval_place(env, t.dest), t))
                if t.target is None or t.target < 0:
                    p.end = "diverge"
                    out.append(p)
                    self._count()
                    return
                p.labels.append("")
                bb = t.target
                continue
            if k == "switch":
                v = self.eval_operand(env, t.op)
                succs = self._switch_succs(t, v, p)
                if not succs:
                    p.end = "infeasible"
                    return
                vtxt = vfmt(v)
                expl = tuple(x for x, _ in t.targets)
                if len(succs) == 1:
                    lab, tb, upd = succs[0]
                    upd(p.cons)
                    p.labels.append(lab)
                    p.tests.append((rb, vtxt, lab, v, expl)); p.events.append(("test", rb, len(p.tests) - 1))
                    bb = tb
                    continue
                for lab, tb, upd in succs[1:]:
                    q = self._fork(p)
                    upd(q.cons)
                    q.labels.append(lab)
                    q.tests.append((rb, vtxt, lab, v, expl)); q.events.append(("test", rb, len(q.tests) - 1))
                    self._walk(tb, q, visits, out)
                lab, tb, upd = succs[0]
                upd(p.cons)
                p.labels.append(lab)
                p.tests.append((rb, vtxt, lab, v, expl)); p.events.append(("test", rb, len(p.tests) - 1))
                bb = tb
                continue
            raise RuntimeError("unknown terminator " + k)

    _ACC = {}

    def _accessor(self, ck, argv):
        """Value of a call to a tiny workspace function without calls or branches (an accessor, a newtype wrapper), in terms of the
        caller's argument values; None for anything else. `x.into_inner()` and `x.0` are then the same value."""
        if self.depth >= 3 or not ck or not ck.startswith(("h3", "<h3")):
            return None
        key = (id(self.prog), ck)
        if key not in Explorer._ACC:
            b = self.prog.one(ck)
            # by-value arguments only: a value that was moved or copied in cannot be mutated behind the summary's back
            ok = b is not None and not b.coroutine and "{closure" not in ck and len(b.blocks) <= 2 and b.arg_count >= 1 and \
                all(not b.locals[i + 1]["ty"].startswith(("&", "*")) for i in range(b.arg_count)) and \
                all(blk.term.t in ("return", "goto", "unreachable", "resume") for blk in b.blocks) and \
                all(s.s == "assign" and s.rv.rv in ("use", "ref", "cast", "aggregate", "rawptr") for blk in b.blocks if not blk.cleanup for s in blk.stmts)
            Explorer._ACC[key] = b if ok else None
        b = Explorer._ACC[key]
        if b is None or b.arg_count != len(argv):
            return None
        sub = Explorer(self.prog, b, max_paths=4, max_visits=1, depth=self.depth + 1, bb_base=700000)
        try:
            qs = sub.paths(env={i + 1: a for i, a in enumerate(argv)})
        except PathExplosion:
            return None
        if len(qs) == 1 and qs[0].end == "return" and qs[0].ret is not None and not [e for e in qs[0].events if e[0] in ("call", "store", "assert")]:
            r = qs[0].ret
            if not mentions_local(r):
                return r
        return None

    def _count(self):
        self.npaths += 1
        if self.npaths > self.max_paths:
            raise PathExplosion("%s: more than %d paths" % (self.body.key, self.max_paths))

    def _switch_succs(self, t, v, p):
        """List of (label, target, constraint-update fn) for the feasible edges."""
        body = self.body
        cons = p.cons
        out = []
        if v[0] == "const" and isinstance(v[1], int):
            for val, tb in t.targets:
                if val == v[1] or (val == (v[1] & ((1 << 128) - 1))):
                    return [(str(val), tb, lambda c: None)]
            return [("otherwise", t.otherwise, lambda c: None)]
        if v[0] == "discr":
            pv = v[1]
            key = vfmt(pv)
            allowed = self.known_variant(pv, cons)
            explicit = [val for val, _ in t.targets]
            # universe, to turn "otherwise" into a set
            uni = None
            adt = None
            if t.op.place is not None:
                # find the discriminant statement to learn the ADT of the switched place
                for (b2, i2, d) in body.defs.get(t.op.place.local, []):
                    if i2 != "term" and d.rv.rv == "discr":
                        pl = d.rv.place
                        adt = pl.adt if pl.proj else body.local_adt(pl.local)
            if adt:
                uni = self.universe(adt)
            for val, tb in t.targets:
                sval = val if val < (1 << 127) else val - (1 << 128)
                if allowed is not None and sval not in allowed and val not in allowed:
                    continue
                out.append((self._vname(adt, sval), tb, (lambda c, pv=pv, sval=sval: self.assume_variant(pv, {sval}, c))))
            # otherwise edge
            if allowed is not None:
                rest = {a for a in allowed if a not in explicit}
            elif uni is not None:
                rest = {a for a in uni if a not in explicit}
            else:
                rest = None
            tb = t.otherwise
            if rest is None:
                out.append(("otherwise", tb, lambda c: None))
            elif rest and body.blocks[tb].term.t != "unreachable":
                out.append(("|".join(self._vname(adt, r) for r in sorted(rest)), tb,
                            (lambda c, pv=pv, rest=frozenset(rest): self.assume_variant(pv, rest, c))))
            return out
        # boolean / integer switch on a computed value
        bval = self.bool_value(v, cons)
        is_bool = (len(t.targets) == 1 and t.targets[0][0] == 0)
        if is_bool:
            fb = t.targets[0][1]
            tb = t.otherwise
            if bval is True:
                return [("true", tb, lambda c: None)]
            if bval is False:
                return [("false", fb, lambda c: None)]
            return [("false", fb, (lambda c, v=v: self.assume_bool(v, False, c))),
                    ("true", tb, (lambda c, v=v: self.assume_bool(v, True, c)))]
        key = vfmt(v)
        known = cons.get(key)
        explicit = [val for val, _ in t.targets]
        for val, tb in t.targets:
            if isinstance(known, frozenset) and val not in known:
                continue
            if isinstance(known, tuple) and known[0] == "not" and val in known[1]:
                continue
            out.append((str(val), tb, (lambda c, key=key, val=val: c.__setitem__(key, frozenset({val})))))
        if not (isinstance(known, frozenset) and all(k in explicit for k in known)):
            if self.body.blocks[t.otherwise].term.t != "unreachable" or not out:
                out.append(("otherwise", t.otherwise,
                            (lambda c, key=key, ex=frozenset(explicit): c.__setitem__(key, ("not", ex)))))
        return out

    def _vname(self, adt, idx):
        if adt in STD_ENUMS:
            for n, i in STD_ENUMS[adt].items():
                if i == idx:
                    return n
        a = self.prog.adts.get(adt) if adt else None
        if a:
            for v in a["variants"]:
                if v["discr"] is not None and int(v["discr"]) == idx:
                    return v["name"]
        return str(idx)


# ---------------------------------------------------------------------- summaries

def body_codes(prog, body, depth=2, _seen=None, prefix="h3::error::codes::Code::"):
    """All Code constants mentioned in a body, its closures, and (depth-bounded) its
    in-workspace callees. Flow-insensitive: used for closures and small helpers."""
    _seen = _seen if _seen is not None else set()
    if body.key in _seen:
        return set()
    _seen.add(body.key)
    out = set()
    for bb, i, s in body.all_stmts():
        if s.s == "assign":
            for o in s.rv.ops:
                if o.k == "const" and o.named and o.named.startswith(prefix):
                    out.add(o.named[len(prefix):])
            if s.rv.rv == "aggregate" and s.rv.agg in ("closure", "coroutine"):
                for c in prog.by_key.get(s.rv.def_, []):
                    out |= body_codes(prog, c, depth, _seen, prefix)
    for bb, t in body.all_terms():
        if t.t == "call":
            for o in t.args:
                if o.k == "const" and o.named and o.named.startswith(prefix):
                    out.add(o.named[len(prefix):])
            if depth > 0 and t.ckey:
                for c in prog.by_key.get(t.ckey, []):
                    out |= body_codes(prog, c, depth - 1, _seen, prefix)
    return out


def path_codes(prog, path, depth=1):
    """Codes named on the path itself plus those of closures that ran (or may have run) on it."""
    out = set(path.codes())
    seen = set()
    for ck, status, _ in path.adapter_closures():
        seen.add(ck)
        if status != "no":
            for c in prog.by_key.get(ck, []):
                out |= body_codes(prog, c, depth)
    for ck in path.closures():
        if ck not in seen:
            for c in prog.by_key.get(ck, []):
                out |= body_codes(prog, c, depth)
    return out


def closure_calls(prog, path, *names):
    """Calls (closure key, term) made inside closures that ran / may have run on this path."""
    out = []
    done = set()
    todo = [ck for ck, st, _ in path.adapter_closures() if st != "no"]
    adapters = {ck for ck, _, _ in path.adapter_closures()}
    todo += [ck for ck in path.closures() if ck not in adapters]
    for ck in todo:
        if ck in done:
            continue
        done.add(ck)
        for c in prog.by_key.get(ck, []):
            for bb, t in c.calls(*names):
                out.append((ck, t))
    return out
