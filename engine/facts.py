"""Fact extraction (A0): runs the h3facts driver over /repo's current working tree and
loads the JSON fact base. Static only: cargo *check* is run, nothing of h3 is executed.

Freshness (DESIGN.md 2.3): facts are keyed by a SHA-256 over every *.rs / Cargo.toml /
Cargo.lock of the analysed tree plus the driver binary; on a miss the members'
fingerprints are removed so cargo cannot skip the wrapper, and the fact files must have
been written by this run.
"""
import fcntl
import hashlib
import json
import os
import shutil
import subprocess
import sys
import time

VERIF = os.path.dirname(os.path.dirname(os.path.abspath(__file__)))
REPO = os.environ.get("VERIF_REPO", "/repo")
CACHE = os.environ.get("VERIF_CACHE", os.path.join(VERIF, ".cache"))
DRIVER_DIR = os.path.join(VERIF, "driver")
DRIVER = os.path.join(DRIVER_DIR, "target", "release", "h3facts")

MEMBERS = ["h3", "h3_quinn", "h3_datagram", "h3_webtransport"]

CONFIGS = {
    # name: (cargo args, crates expected)
    "ws": (
        ["--lib", "-p", "h3", "-p", "h3-quinn", "-p", "h3-datagram", "-p", "h3-webtransport",
         "--features", "h3-quinn/datagram"],
        MEMBERS,
    ),
    "h3-plain": (["--lib", "-p", "h3"], ["h3"]),
    "h3-tracing": (["--lib", "-p", "h3", "--features", "tracing"], ["h3"]),
}


class CheckerBroken(Exception):
    """The checker could not run (exit 2): compile error, missing toolchain..."""


def _run(cmd, cwd=None, env=None, timeout=1800):
    p = subprocess.run(cmd, cwd=cwd, env=env, stdout=subprocess.PIPE, stderr=subprocess.STDOUT,
                       text=True, timeout=timeout)
    return p.returncode, p.stdout


def _sysroot():
    rc, out = _run(["rustc", "+nightly", "--print", "sysroot"])
    if rc != 0:
        raise CheckerBroken("nightly toolchain not available: " + out)
    return out.strip()


def ensure_driver():
    src = [os.path.join(DRIVER_DIR, "src", "main.rs"), os.path.join(DRIVER_DIR, "Cargo.toml")]
    if os.path.exists(DRIVER) and all(os.path.getmtime(DRIVER) >= os.path.getmtime(s) for s in src):
        return
    env = dict(os.environ, CARGO_NET_OFFLINE="true")
    rc, out = _run(["cargo", "build", "--release", "--offline"], cwd=DRIVER_DIR, env=env)
    if rc != 0 or not os.path.exists(DRIVER):
        raise CheckerBroken("driver build failed:\n" + out[-4000:])


def tree_hash(repo=None):
    repo = repo or REPO
    h = hashlib.sha256()
    files = []
    for root, dirs, fnames in os.walk(repo):
        dirs[:] = sorted(d for d in dirs if d not in ("target", ".git", "fuzz", ".duvet", "docs", "ci"))
        for f in sorted(fnames):
            if f.endswith(".rs") or f in ("Cargo.toml", "Cargo.lock"):
                files.append(os.path.join(root, f))
    for f in files:
        h.update(os.path.relpath(f, repo).encode())
        h.update(b"\0")
        with open(f, "rb") as fh:
            h.update(fh.read())
        h.update(b"\0")
    with open(DRIVER, "rb") as fh:
        h.update(hashlib.sha256(fh.read()).digest())
    return h.hexdigest()[:24], len(files)


def _gc(facts_root, keep=8):
    try:
        ents = [(os.path.getmtime(os.path.join(facts_root, d)), d) for d in os.listdir(facts_root)]
    except FileNotFoundError:
        return
    ents.sort(reverse=True)
    for _, d in ents[keep:]:
        shutil.rmtree(os.path.join(facts_root, d), ignore_errors=True)


def ensure_facts(config="ws", repo=None):
    """Returns (dir with <crate>.json files, info dict)."""
    repo = repo or REPO
    os.makedirs(CACHE, exist_ok=True)
    lock = open(os.path.join(CACHE, "lock"), "w")
    fcntl.flock(lock, fcntl.LOCK_EX)
    try:
        ensure_driver()
        th, nfiles = tree_hash(repo)
        facts_root = os.path.join(CACHE, "facts")
        out = os.path.join(facts_root, th, config)
        args, crates = CONFIGS[config]
        marker = os.path.join(out, "COMPLETE")
        info = {"tree_hash": th, "source_files_hashed": nfiles, "config": config, "repo": repo,
                "cargo_args": args}
        if os.path.exists(marker) and all(os.path.exists(os.path.join(out, c + ".json")) for c in crates):
            info["cache"] = "hit"
            os.utime(os.path.join(facts_root, th))
            return out, info
        t0 = time.time()
        if os.path.isdir(out):
            shutil.rmtree(out)
        os.makedirs(out)
        target = os.environ.get("VERIF_TARGET_DIR", os.path.join(CACHE, "target-" + config))
        fp = os.path.join(target, "debug", ".fingerprint")
        if os.path.isdir(fp):
            for d in os.listdir(fp):
                if d.startswith("h3-"):
                    shutil.rmtree(os.path.join(fp, d), ignore_errors=True)
        env = dict(os.environ)
        sysroot = _sysroot()
        env["LD_LIBRARY_PATH"] = sysroot + "/lib" + (":" + env["LD_LIBRARY_PATH"] if env.get("LD_LIBRARY_PATH") else "")
        env["RUSTFLAGS"] = "-Zmir-opt-level=0 -Awarnings"
        env["RUSTC_WORKSPACE_WRAPPER"] = DRIVER
        env["H3FACTS_OUT"] = out
        env["H3FACTS_CRATES"] = ",".join(crates)
        env["CARGO_TARGET_DIR"] = target
        env["CARGO_NET_OFFLINE"] = "true"
        env.pop("RUSTC_WRAPPER", None)
        rc, log = _run(["cargo", "+nightly", "check", "--offline"] + args, cwd=repo, env=env)
        if rc != 0:
            raise CheckerBroken("cargo check failed for config %s (the tree does not compile?):\n%s"
                                % (config, log[-6000:]))
        missing = [c for c in crates if not os.path.exists(os.path.join(out, c + ".json"))]
        if missing:
            raise CheckerBroken("driver did not write facts for %s (cargo skipped the wrapper?)\n%s"
                                % (missing, log[-3000:]))
        with open(marker, "w") as fh:
            fh.write(str(time.time()))
        info["cache"] = "miss"
        info["extract_s"] = round(time.time() - t0, 2)
        _gc(facts_root)
        return out, info
    finally:
        fcntl.flock(lock, fcntl.LOCK_UN)
        lock.close()


def load(config="ws", repo=None):
    from .mir import Program
    d, info = ensure_facts(config, repo)
    _, crates = CONFIGS[config]
    data = {}
    for c in crates:
        with open(os.path.join(d, c + ".json")) as fh:
            data[c] = json.load(fh)
    info = dict(info, config=config)
    prog = Program(data, info)
    return prog


if __name__ == "__main__":
    try:
        for cfg in sys.argv[1:] or ["ws"]:
            d, info = ensure_facts(cfg)
            print(d, info)
    except CheckerBroken as e:
        print("CHECKER-BROKEN:", e)
        sys.exit(2)
