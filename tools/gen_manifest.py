#!/usr/bin/python3
"""Regenerates MANIFEST.json from the rule modules present under rules/ (META dicts) and
properties.jsonl. Properties without a rule module are listed under not_applicable."""
import importlib, json, os, sys
HERE = os.path.dirname(os.path.dirname(os.path.abspath(__file__)))
sys.path.insert(0, HERE)
props = [json.loads(l) for l in open(os.path.join(HERE, "properties.jsonl"))]
NA = {}     # every property has a rule module; C01 is claimed for its structural necessary conditions only (see rules/C01.py)
checks, na = [], []
for p in props:
    pid = p["id"]
    path = os.path.join(HERE, "rules", pid + ".py")
    if pid in NA or not os.path.exists(path):
        na.append({"property_id": pid, "reason": NA.get(pid, "static rules for this property are not implemented yet in this commit (planned: DESIGN.md section 4)")})
        continue
    mod = importlib.import_module("rules." + pid)
    meta = getattr(mod, "META", {})
    checks.append({
        "property_id": pid,
        "quick_cmd": "./check %s --tier quick" % pid,
        "thorough_cmd": "./check %s --tier thorough" % pid,
        "evidence_file": "/verif/evidence/%s.json" % pid,
        "replay_cmd_template": "./check %s --explain {path}" % pid,
        "engine": "h3facts+rules",
        "level_claimed": {
            "category": "other",
            "text": meta.get("level", mod.EXPLANATION),
            "design_ref": "DESIGN.md section 4, " + pid,
        },
        "level_note": meta.get("note", "Trusted base: rustc's MIR construction and name/trait resolution; the engine's library model of std/bytes/futures adapters (DESIGN.md Appendix A); audited tables under tables/ and RFC transcriptions under ref/. Decides the structural clauses named in the level text, not value-level behaviour."),
        "technique": meta.get("technique", "static analysis: custom MIR/HIR queries (rustc_private driver) - " + mod.RULES),
    })
m = {
    "version": 1,
    "setup_cmd": "./check --setup",
    "hooks": {"guard": "hyperium_h3_verif", "enable": "none needed: static analysis reads /repo's source as it is (no hooks, no instrumentation)",
              "baseline_off_cmd": "cd /repo && cargo test --workspace --no-fail-fast --offline", "source_commits": [], "add_only": True},
    "engines": [{"name": "h3facts+rules", "path": "/verif/driver, /verif/engine, /verif/rules",
                 "serves_properties": [c["property_id"] for c in checks],
                 "kind_free_text": "rustc_private driver dumping MIR (as built), HIR literal tables, ADTs, constants of /repo's current tree under cargo +nightly check; Python rule engine: CFG/dominators, variant-constrained path exploration, def-use provenance, who-may-call, table agreement"}],
    "checks": checks,
    "notes": "Static analysis only; nothing of h3 is executed. Known findings: known_findings.json. Seeded changes: seeded/.",
    "not_applicable": na,
}
json.dump(m, open(os.path.join(HERE, "MANIFEST.json"), "w"), indent=1)
print("checks:", [c["property_id"] for c in checks], "n/a:", [n["property_id"] for n in na])
