#!/bin/bash
# tools/validate_seed.sh <Cxx> <A|B>: confirm a seeded change in its own scratch worktree /tmp/seed/Cxx:
# (c) patch alone: existing suite passes; (b) patch+demo: some test fails; (a) demo alone: all pass.
set -u
P=$1; V=$2; W=${SEEDROOT:-/tmp/seed}/$P; O=$W/out/$V
cd $W || exit 2
export CARGO_NET_OFFLINE=true
FLAKY='request_invalid_frame_after_trailers|request_invalid_frame_first'
run() { cargo test --workspace --no-fail-fast --offline 2>&1 | grep -E "^test .* FAILED|^test result|error(\[|:)" | grep -vE "$FLAKY" ; }
reset() { git checkout -q -- . ; git clean -fdq -e out -e target ; }
reset
git apply $O/patch.diff || { echo '{"ok":false,"why":"patch does not apply"}' > $O/validation.json; exit 1; }
c=$(run); cf=$(echo "$c" | grep -cE "FAILED|^error")
reset
git apply $O/patch.diff; git apply $O/demo.diff || { echo '{"ok":false,"why":"demo does not apply on patch"}' > $O/validation.json; reset; exit 1; }
b=$(run); bf=$(echo "$b" | grep -cE "^test .* FAILED"); be=$(echo "$b" | grep -cE "^error(\[E[0-9]+\]|: could not compile)")
reset
git apply $O/demo.diff || { echo '{"ok":false,"why":"demo does not apply on clean tree"}' > $O/validation.json; reset; exit 1; }
a=$(run); af=$(echo "$a" | grep -cE "FAILED|^error")
reset
ok=false; [ "$cf" = 0 ] && [ "$bf" -gt 0 ] && [ "$be" = 0 ] && [ "$af" = 0 ] && ok=true
python3 - "$ok" "$cf" "$bf" "$af" "$be" <<PY > $O/validation.json
import json,sys
ok,cf,bf,af,be=sys.argv[1:]
print(json.dumps({"ok":ok=="true","patch_alone_failures":int(cf),"patch_plus_demo_failing_tests":int(bf),"demo_alone_failures":int(af),"compile_errors_with_demo":int(be),
 "failing_with_patch_and_demo": """$b""".splitlines()[:12], "cmd":"cargo test --workspace --no-fail-fast --offline (flaky request_invalid_frame_after_trailers / request_invalid_frame_first ignored)"}, indent=1))
PY
echo "$P $V ok=$ok c=$cf b=$bf a=$af"
