#!/usr/bin/python3
"""For every seeded change under /tmp/seed/Cxx/out/{A,B}: apply it to the scratch worktree /var/tmp/mut,
run every claimed check's quick command against that tree, record which checks report a violation."""
import glob, json, os, re, subprocess, sys
W = "/var/tmp/mut2"
if not os.path.isdir(W):      # scratch worktree of /repo, created on demand (remove it with `git -C /repo worktree remove --force`)
    __import__("subprocess").run(["git", "-C", "/repo", "worktree", "add", "-q", "--detach", W, "HEAD"])
V = "/verif"
props = sorted(f[:-3] for f in os.listdir(V + "/rules") if re.match(r"C\d+\.py$", f))
head = subprocess.check_output(["git", "-C", "/repo", "rev-parse", "HEAD"], text=True).strip()
subprocess.run(["git", "-C", W, "checkout", "-q", "--detach", head])
out = {}
src = sys.argv[1] if len(sys.argv) > 1 else "/tmp/seed"
for d in sorted(glob.glob(src + "/C*/out/?")) + sorted(glob.glob(src + "/C*-*/")):
    patch = os.path.join(d, "patch.diff")
    if not os.path.exists(patch):
        continue
    sid = (d.split("/")[-3] + "-" + d.split("/")[-1]) if "/out/" in d else d.rstrip("/").split("/")[-1]
    subprocess.run(["git", "-C", W, "checkout", "-q", "--", "."])
    if subprocess.run(["git", "-C", W, "apply", patch]).returncode != 0:
        out[sid] = {"error": "patch does not apply on /repo HEAD"}
        print(sid, "PATCH DOES NOT APPLY", flush=True)
        continue
    res = {}
    subprocess.run([V + "/check", props[0]], env=dict(os.environ, VERIF_REPO=W), stdout=subprocess.PIPE, stderr=subprocess.STDOUT, text=True)   # fills the fact cache
    from concurrent.futures import ThreadPoolExecutor
    with ThreadPoolExecutor(8) as ex:
        rs = list(ex.map(lambda p: subprocess.run([V + "/check", p], env=dict(os.environ, VERIF_REPO=W), stdout=subprocess.PIPE, stderr=subprocess.STDOUT, text=True), props))
    for p, r in zip(props, rs):
        keys = re.findall(r"^  \S+ (\S+?:.*) at ", r.stdout, flags=re.M)
        if r.returncode != 0:
            res[p] = {"rc": r.returncode, "violations": [k[:200] for k in keys][:6]}
    out[sid] = {"fired": res}
    own = sid.split("-")[0]
    print(sid, "own=%s" % ("CAUGHT" if own in res and res[own]["rc"] == 1 else "missed"), "others=%s" % sorted(k for k in res if k != own), flush=True)
subprocess.run(["git", "-C", W, "checkout", "-q", "--", "."])
json.dump(out, open(sys.argv[2] if len(sys.argv) > 2 else "/tmp/seed/MATRIX.json", "w"), indent=1)
