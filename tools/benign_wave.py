#!/usr/bin/python3
"""Run every claimed check against behaviour-preserving patches: benign_wave.py <patch.diff>... (applied one at a time in /var/tmp/mut).
Prints one line per patch: SILENT or the rule instances that fired (= false alarms to be fixed in the rules)."""
import os, re, subprocess, sys
W = os.environ.get("MUTW", "/var/tmp/mut")
if not os.path.isdir(W):      # scratch worktree of /repo, created on demand (remove it with `git -C /repo worktree remove --force`)
    __import__("subprocess").run(["git", "-C", "/repo", "worktree", "add", "-q", "--detach", W, "HEAD"])
V = "/verif"
props = sorted(f[:-3] for f in os.listdir(V + "/rules") if re.match(r"C\d+\.py$", f))
head = subprocess.check_output(["git", "-C", "/repo", "rev-parse", "HEAD"], text=True).strip()
subprocess.run(["git", "-C", W, "checkout", "-q", "--detach", head])
bad = 0
import glob
patches = [os.path.abspath(x) for x in sys.argv[1:]] or sorted(glob.glob(V + "/benign/*/patch.diff"))     # default: the whole kept corpus
for patch in patches:
    subprocess.run(["git", "-C", W, "checkout", "-q", "--", "."])
    if subprocess.run(["git", "-C", W, "apply", patch]).returncode != 0:
        print(patch, "DOES NOT APPLY")
        continue
    fired = []
    subprocess.run([V + "/check", props[0]], env=dict(os.environ, VERIF_REPO=W), stdout=subprocess.PIPE, stderr=subprocess.STDOUT, text=True)  # fills the fact cache
    from concurrent.futures import ThreadPoolExecutor
    with ThreadPoolExecutor(10) as ex:
        rs = list(ex.map(lambda pr: subprocess.run([V + "/check", pr], env=dict(os.environ, VERIF_REPO=W), stdout=subprocess.PIPE, stderr=subprocess.STDOUT, text=True), props))
    for pr, r in zip(props, rs):
        if r.returncode != 0:
            keys = re.findall(r"^  \S+ (\S+?:.*) at ", r.stdout, flags=re.M)
            fired.append((pr, [k[:170] for k in keys[:4]], "BROKEN" if "CHECKER-BROKEN" in r.stdout else ""))
    name = "/".join(patch.split("/")[-4:-1]) if "/out/" in patch else patch.split("/")[-2]
    print(name, "SILENT" if not fired else "ALARM", flush=True)
    for f in fired:
        # one short line per firing check: the first two rule instances only (full output: run ./check on the patched tree)
        print("     %s %s %s" % (f[0], [k[:110] for k in f[1][:2]], f[2]), flush=True)
    bad += bool(fired)
subprocess.run(["git", "-C", W, "checkout", "-q", "--", "."])
print("patches raising an alarm:", bad)
