#!/usr/bin/python3
"""Rewrites the generated rule list in DESIGN.md (between the RULES-BEGIN/RULES-END markers) from rules/Cxx.py RULES strings."""
import importlib, os, re, sys
HERE = os.path.dirname(os.path.dirname(os.path.abspath(__file__)))
sys.path.insert(0, HERE)
lines = []
for f in sorted(os.listdir(os.path.join(HERE, "rules"))):
    m = re.match(r"(C\d+)\.py$", f)
    if m:
        mod = importlib.import_module("rules." + m.group(1))
        lines.append("* **%s** - %s" % (m.group(1), mod.RULES))
p = os.path.join(HERE, "DESIGN.md")
s = open(p).read()
a = s.index("<!-- RULES-BEGIN")
a = s.index("\n", a) + 1
b = s.index("<!-- RULES-END -->")
open(p, "w").write(s[:a] + "\n".join(lines) + "\n" + s[b:])
print(len(lines), "modules listed")
