#!/usr/bin/python3
"""Freeze the vocabulary the rules were written against (regenerate after every commit to /repo):
tables/known_functions.txt  <config> <function key> <signature>   every function of /repo's workspace, per build configuration
tables/known_fields.txt     <adt> <variant> <index> <field name> <type>   fields of the workspace's own types
tables/known_closures.txt   <config> <closure key> <content hash>   closures are renumbered by content (engine/mir.py normalise_closures)
tables/known_consts.txt     <const key> <type> <evaluated integer>   named constants with an integer value
engine/mir.py uses them on the analysed tree (a) to resolve an unambiguous rename of a private function or field back to the
name the rules know, and (b) to expand calls to helpers that are new (unknown to every rule) at their call sites."""
import sys
sys.path.insert(0, "/verif")
from engine import facts, mir
fn, fields, kconsts, kclos = [], {}, {}, []
for cfg in ("ws", "h3-plain"):
    prog = facts.load(cfg)
    for b in prog.bodies:
        fn.append("%s\t%s\t%s" % (cfg, b.key, mir.signature(b.j)))
        if "{closure#" in b.key:
            kclos.append("%s\t%s\t%s" % (cfg, b.key, mir.body_hash(b.j)))
    for c, d in prog.crates.items():
        for k in d["consts"]:
            kconsts[k["key"]] = (k.get("ty") or "?", str(k.get("int")))
    for a in prog.adts.values():
        if a["adt"].startswith("h3"):
            for v in a["variants"]:
                for i, f in enumerate(v["fields"]):
                    fields[(a["adt"], v["name"], i)] = (f["name"], f["ty"])
with open("/verif/tables/known_functions.txt", "w") as fh:
    fh.write("\n".join(sorted(set(fn))) + "\n")
with open("/verif/tables/known_fields.txt", "w") as fh:
    fh.write("\n".join("%s\t%s\t%d\t%s\t%s" % (k + v) for k, v in sorted(fields.items())) + "\n")
with open("/verif/tables/known_closures.txt", "w") as fh:
    fh.write("\n".join(sorted(set(kclos))) + "\n")
with open("/verif/tables/known_consts.txt", "w") as fh:
    fh.write("\n".join("%s\t%s\t%s" % (k, v[0], v[1]) for k, v in sorted(kconsts.items())) + "\n")
print(len(fn), "function keys,", len(fields), "fields,", len(kconsts), "constants")
