#!/usr/bin/python3
"""Behaviour-preserving rewrites (benign twins, DESIGN.md section 7): each is applied to the scratch worktree
/var/tmp/mut and EVERY claimed check must stay silent. usage: benign.py [id-substring]"""
import os, re, subprocess, sys
W = "/var/tmp/mut"
V = "/verif"
props = sorted(f[:-3] for f in os.listdir(V + "/rules") if re.match(r"C\d+\.py$", f))

TWINS = [
 ("arm-reorder-poll-control", "h3/src/connection.rs", [
   ("        let _ = self.poll_connection_error(cx)?;\n\n        // drive a grease stream", "        let _ = self.poll_connection_error(cx)?;\n        let _cfg = &self.config;\n\n        // drive a grease stream"),
 ]),
 ("match-instead-of-if-let-poll-connection-error", "h3/src/error/connection_error_creators.rs", [
   ("        if let Some(err) = self.get_conn_error() {\n            let err = self.close_if_needed(err);\n            // err might be a different error so match again\n            return Poll::Ready(Err(self.convert_to_connection_error(err)));\n        }\n        Poll::Pending",
    "        match self.get_conn_error() {\n            Some(err) => {\n                let err = self.close_if_needed(err);\n                Poll::Ready(Err(self.convert_to_connection_error(err)))\n            }\n            None => Poll::Pending,\n        }"),
 ]),
 ("helper-extracted-poll-recv-data", "h3/src/connection.rs", [
   ("                    return Poll::Ready(Err(self.handle_connection_error_on_stream(\n                        InternalConnectionError::new(\n                            Code::H3_FRAME_UNEXPECTED,\n                            format!(\"unexpected frame: {:?}\", other_frame),\n                        ),\n                    )));\n                }\n            };\n        }\n\n        self.stream\n            .poll_data(cx)",
    "                    return Poll::Ready(Err(self.unexpected_frame(format!(\"unexpected frame: {:?}\", other_frame))));\n                }\n            };\n        }\n\n        self.stream\n            .poll_data(cx)"),
   ("    /// Poll receive trailers.", "    fn unexpected_frame(&mut self, msg: String) -> StreamError {\n        self.handle_connection_error_on_stream(InternalConnectionError::new(Code::H3_FRAME_UNEXPECTED, msg))\n    }\n\n    /// Poll receive trailers."),
 ]),
 ("temp-in-accept-loop", "h3/src/server/connection.rs", [
   ("                        if s.send_id() >= max_id {", "                        let this_id = s.send_id();\n                        if this_id >= max_id {"),
 ]),
 ("arm-reorder-requests-completion", "h3/src/server/connection.rs", [
   ("                Poll::Ready(None) => return Poll::Ready(()),\n                // A request has completed\n                Poll::Ready(Some(id)) => {\n                    self.ongoing_streams.remove(&id);\n                }",
    "                // A request has completed\n                Poll::Ready(Some(id)) => {\n                    self.ongoing_streams.remove(&id);\n                }\n                Poll::Ready(None) => return Poll::Ready(()),"),
 ]),
 ("and-operands-swapped-frame-decode", "h3/src/proto/frame.rs", [
   ("        if frame.is_ok() && payload.has_remaining() {", "        if payload.has_remaining() && frame.is_ok() {"),
 ]),
 ("bool-temp-send-response", "h3/src/server/stream.rs", [
   ("        if mem_size > max_mem_size {", "        let too_big = mem_size > max_mem_size;\n        if too_big {"),
 ]),
 ("insert-order-settings", "h3/src/config.rs", [
   ("        settings.insert(frame::SettingId::H3_DATAGRAM, enable_datagram as u64)?;\n        settings.insert(\n            frame::SettingId::WEBTRANSPORT_MAX_SESSIONS,\n            max_webtransport_sessions,\n        )?;",
    "        settings.insert(\n            frame::SettingId::WEBTRANSPORT_MAX_SESSIONS,\n            max_webtransport_sessions,\n        )?;\n        settings.insert(frame::SettingId::H3_DATAGRAM, enable_datagram as u64)?;"),
 ]),
 ("temp-quinn-advance", "h3-quinn/src/lib.rs", [
   ("                data.advance(written);", "                let accepted = written;\n                data.advance(accepted);"),
 ]),
 ("arm-reorder-quic-stream-error", "h3/src/error/connection_error_creators.rs", [
   ("            StreamErrorIncoming::StreamTerminated { error_code } => StreamError::RemoteTerminate {\n                code: Code::from(error_code),\n            },\n            StreamErrorIncoming::Unknown(custom_quic_impl_error) => {\n                StreamError::Undefined(custom_quic_impl_error)\n            }",
    "            StreamErrorIncoming::Unknown(custom_quic_impl_error) => {\n                StreamError::Undefined(custom_quic_impl_error)\n            }\n            StreamErrorIncoming::StreamTerminated { error_code } => StreamError::RemoteTerminate {\n                code: Code::from(error_code),\n            },"),
 ]),
 ("arm-reorder-frame-encode", "h3/src/proto/frame.rs", [
   ("            Frame::Data(b) => {\n                FrameType::DATA.encode(buf);\n                buf.write_var(b.remaining() as u64);\n            }\n            Frame::Headers(f) => {\n                FrameType::HEADERS.encode(buf);\n                buf.write_var(f.len() as u64);\n            }",
    "            Frame::Headers(f) => {\n                FrameType::HEADERS.encode(buf);\n                buf.write_var(f.len() as u64);\n            }\n            Frame::Data(b) => {\n                FrameType::DATA.encode(buf);\n                buf.write_var(b.remaining() as u64);\n            }"),
 ]),
 ("temp-wt-session-id", "h3-webtransport/src/server.rs", [
   ("        let session_id = stream.send_id().into();", "        let connect_id = stream.send_id();\n        let session_id = connect_id.into();"),
 ]),
 ("arm-reorder-decode-stateless", "h3/src/qpack/decoder.rs", [
   ("            HeaderBlockField::IndexedWithPostBase => return Err(DecoderError::MissingRefs(0)),\n            HeaderBlockField::LiteralWithPostBaseNameRef => {\n                return Err(DecoderError::MissingRefs(0))\n            }\n",
    "            HeaderBlockField::LiteralWithPostBaseNameRef => {\n                return Err(DecoderError::MissingRefs(0))\n            }\n            HeaderBlockField::IndexedWithPostBase => return Err(DecoderError::MissingRefs(0)),\n"),
 ]),
 ("block-in-read-datagram", "h3-datagram/src/datagram_handler.rs", [
   ("            Ok(datagram) => Datagram::decode(datagram)\n                .map_err(|err| self.handle_connection_error_on_stream(err)),",
    "            Ok(datagram) => {\n                let decoded = Datagram::decode(datagram);\n                decoded.map_err(|err| self.handle_connection_error_on_stream(err))\n            }"),
 ]),
 ("explicit-return-process-goaway", "h3/src/connection.rs", [
   ("            *recv_closing = Some(id.into());\n            self.set_closing();\n            Ok(())", "            let stored: T = id.into();\n            *recv_closing = Some(stored);\n            self.set_closing();\n            return Ok(());"),
 ]),
 ("logging-in-settings-decode", "h3/src/proto/frame.rs", [
   ("            if identifier.is_forbidden() {", "            let _seen = (identifier, value);\n            if identifier.is_forbidden() {"),
 ]),
 ("early-return-rewritten-shutdown", "h3/src/connection.rs", [
   ("        if let Some(sent_id) = sent_closing {\n            if *sent_id <= max_id {\n                return Ok(());\n            }\n        }",
    "        match sent_closing {\n            Some(sent_id) if *sent_id <= max_id => return Ok(()),\n            _ => {}\n        }"),
 ]),
 ("size-le-form-varint", "h3/src/proto/varint.rs", [
   ("        if x < 2u64.pow(6) {\n            1\n", "        if x <= 63 {\n            1\n"),
 ]),
 ("match-instead-of-try-poll-read", "h3/src/stream.rs", [
   ("        let data = ready!(self.stream.poll_data(cx))?;\n\n        if let Some(mut data) = data {\n            self.buf.push_bytes",
    "        let data = match ready!(self.stream.poll_data(cx)) {\n            Ok(data) => data,\n            Err(err) => {\n                return Poll::Ready(Err(err));\n            }\n        };\n\n        if let Some(mut data) = data {\n            self.buf.push_bytes"),
 ]),
 ("min-form-cursor", "h3/src/stream.rs", [
   ("            let advanced = usize::min(cnt, remaining_header);", "            let advanced = if cnt < remaining_header { cnt } else { remaining_header };"),
 ]),
]


def main():
    sel = sys.argv[1] if len(sys.argv) > 1 else ""
    head = subprocess.check_output(["git", "-C", "/repo", "rev-parse", "HEAD"], text=True).strip()
    subprocess.run(["git", "-C", W, "checkout", "-q", "--detach", head])
    bad = 0
    for tid, f, edits in TWINS:
        if sel not in tid:
            continue
        subprocess.run(["git", "-C", W, "checkout", "-q", "--", "."])
        p = os.path.join(W, f)
        s = open(p).read()
        ok = True
        for old, new in edits:
            if s.count(old) != 1:
                ok = False
                print(tid, "EDIT DID NOT APPLY:", old[:60].replace("\n", "\\n"))
                break
            s = s.replace(old, new)
        if not ok:
            continue
        open(p, "w").write(s)
        fired = []
        for pr in props:
            r = subprocess.run([V + "/check", pr], env=dict(os.environ, VERIF_REPO=W), stdout=subprocess.PIPE, stderr=subprocess.STDOUT, text=True)
            if r.returncode != 0:
                keys = re.findall(r"^  \S+ (\S+?:.*) at ", r.stdout, flags=re.M)
                fired.append((pr, r.returncode, [k[:150] for k in keys[:3]], "BROKEN" if "CHECKER-BROKEN" in r.stdout else ""))
        print(tid, "SILENT" if not fired else "ALARM %s" % fired, flush=True)
        bad += bool(fired)
    subprocess.run(["git", "-C", W, "checkout", "-q", "--", "."])
    print("benign twins raising an alarm:", bad)


main()
